(* C08 -- the driver model (Model/Driver.v) refines the documented error-recovery algorithm (Spec/Recovery.v).
   For ALL grammars, tables (no validity assumption), lexers, options, buffers and semantic algebras.
     T1  drop_refines, pop_phase_refines(_some/_none/_pending), C08_no_pop_when_top_accepts, C08_keeps_lower_values,
         C08_pops_only_rejecting_states; outside the domain [pop_defined]: pop_phase_undefined_crashes
     T2  recovering_step (+ one corollary per kind of cell), recovering_step_trichotomy
     T3  consume_phase_refines, C08_consume_stops_at_first_actionable_term, C08_eof_while_discarding_fails
     T4  step_reject_iff, C08_fails_iff, C08_fails_iff_converse (run invariants: run_modes_ok, run_pending_ok)
     T5  C08_track_invariant, C08_one_report_per_error(_output)
     whole run: C08_refines / C08_refines_run (spec_run predicts => the driver does exactly that),
                C08_refines_converse / C08_run_predicted (the driver finishes => spec_run predicts exactly that, or
                the table lacks a cell the algorithm must read)
   Multi-step statements use [steps n s] (n iterations of [step], lines concatenated); [steps_run_from] ties it
   to [run_from]. *)
Require Import Ctpg.Base.Prelude Ctpg.Model.Grammar Ctpg.Model.LRGen Ctpg.Model.Driver
               Ctpg.Proofs.DriverBasics Ctpg.Spec.Recovery.

(* ---------- list facts ---------- *)
Lemma skipn_S_tl {A} (l : list A) k : skipn (S k) l = skipn k (tl l).
Proof. destruct l; cbn [tl skipn]; [now rewrite skipn_nil|reflexivity]. Qed.

Section Refines.
  Variables V C : Type.
  Variable g : grammar.
  Variable tbl : table.
  Variable opts : options.
  Variable buf : list nat.
  Variable cap : option nat.
  Variable lexer : bool -> spoint -> list nat -> list lex_event * option (nat * nat).
  Variable term_f : nat -> nat -> nat -> spoint -> V.
  Variable err_f : spoint -> V.
  Variable rule_f : nat -> C -> list V -> C * V.

  Notation pst := (pstate V C).
  Notation outcome := (pst + result V * pst)%type.
  Notation stepx := (step V C g tbl opts buf cap lexer term_f err_f rule_f).
  Notation actx := (act V C g tbl buf cap term_f err_f rule_f).
  Notation gctx := (get_current_term V C g opts buf lexer).
  Notation reducex := (do_reduce V C g tbl cap rule_f).
  Notation consumex := (consume_term V C buf).
  Notation run_fromx := (run_from V C g tbl opts buf cap lexer term_f err_f rule_f).
  Notation run_ghx := (run_gh V C g tbl opts buf cap lexer term_f err_f rule_f).
  Notation all_eventsx := (all_events V C g tbl opts buf cap lexer term_f err_f rule_f).
  Notation visiblex := (visible opts).
  Notation errcol := (err_col g).
  Notation tcol := (term_col g).
  Notation acc := (accepts_err g tbl).
  Notation rej := (rejects_err g tbl).
  Notation ckind := (cell_kind tbl).
  Notation dropc := (drop_count g tbl).
  Notation popdef := (pop_defined g tbl).
  Notation sdrop := (spec_drop V C g tbl).
  Notation spop := (spec_pop_phase V C g tbl).
  Notation sconsume := (spec_consume V C g tbl opts buf lexer).
  Notation fullx := (full cap).

  (* ================================================================================================ *)
  (* n iterations of the driver loop                                                                   *)
  (* ================================================================================================ *)
  Fixpoint steps (n : nat) (s : pst) : outcome * list event :=
    match n with
    | 0 => (inl s, [])
    | S m => match stepx s with
             | (inl s', ev) => let '(r, ev') := steps m s' in (r, ev ++ ev')
             | (inr x, ev) => (inr x, ev)
             end
    end.

  Lemma steps_S_inl m s s' ev : stepx s = (inl s', ev) -> steps (S m) s = (fst (steps m s'), ev ++ snd (steps m s')).
  Proof. intros H. cbn [steps]. rewrite H. destruct (steps m s'); reflexivity. Qed.

  Lemma steps_S_inr m s x ev : stepx s = (inr x, ev) -> steps (S m) s = (inr x, ev).
  Proof. intros H. cbn [steps]. rewrite H. reflexivity. Qed.

  Lemma steps_1 s : steps 1 s = (fst (stepx s), snd (stepx s)).
  Proof. cbn [steps]. destruct (stepx s) as [[s'|x] ev]; cbn [fst snd]; [now rewrite app_nil_r|reflexivity]. Qed.

  Lemma steps_add n m s s' ev :
    steps n s = (inl s', ev) -> steps (n + m) s = (fst (steps m s'), ev ++ snd (steps m s')).
  Proof.
    revert s ev; induction n as [|n IH]; intros s ev H.
    - cbn [steps] in H. inversion H; subst. cbn [Nat.add app]. now destruct (steps m s').
    - cbn [steps] in H. cbn [Nat.add steps]. destruct (stepx s) as [[s1|x] ev1]; [|discriminate].
      destruct (steps n s1) as [r ev2] eqn:E. inversion H; subst.
      rewrite (IH _ _ E). cbn [fst snd]. now rewrite app_assoc.
  Qed.

  Lemma steps_stop n m s x ev : steps n s = (inr x, ev) -> steps (n + m) s = (inr x, ev).
  Proof.
    revert s ev; induction n as [|n IH]; intros s ev H.
    - cbn [steps] in H. discriminate.
    - cbn [steps] in H. cbn [Nat.add steps]. destruct (stepx s) as [[s1|x1] ev1]; [|assumption].
      destruct (steps n s1) as [r ev2] eqn:E. inversion H; subst. now rewrite (IH _ _ E).
  Qed.

  (* [steps] against the real loop *)
  Lemma steps_run_from n f s out :
    run_fromx (n + f) s out =
      match steps n s with
      | (inl s', ev) => run_fromx f s' (out ++ filter visiblex ev)
      | (inr (r, s'), ev) => (r, s', out ++ filter visiblex ev)
      end.
  Proof.
    revert s out; induction n as [|n IH]; intros s out.
    - cbn [Nat.add steps filter]. now rewrite app_nil_r.
    - cbn [Nat.add steps run_from]. destruct (stepx s) as [[s1|[r s1]] ev1]; [|reflexivity].
      rewrite IH. destruct (steps n s1) as [[s2|[r s2]] ev2]; now rewrite filter_app, app_assoc.
  Qed.

  (* a final outcome reached within n iterations is the result of every run with at least n fuel *)
  Corollary steps_run_final n f s out r s' ev :
    steps n s = (inr (r, s'), ev) -> run_fromx (n + f) s out = (r, s', out ++ filter visiblex ev).
  Proof. intros H. now rewrite steps_run_from, H. Qed.

  (* ================================================================================================ *)
  (* exact equations for [act], one per kind of cell (act_spec of DriverBasics forgets the cell)        *)
  (* ================================================================================================ *)
  Lemma act_nocell s1 cursor t c :
    cell tbl cursor (nterm_count g + t) = inr c -> actx s1 cursor t = (inr (Crash c, s1), []).
  Proof. intros H. unfold act. rewrite H. reflexivity. Qed.

  Lemma act_error s1 cursor t e :
    cell tbl cursor (nterm_count g + t) = inl e -> e_kind e = KError ->
    actx s1 cursor t =
      if ps_cons s1 then
        if match ps_term s1 with Some x => Nat.eqb x (eof_idx g) | None => false end
        then (inr (Reject, s1), [])
        else (inl (consumex s1), [EvConsuming (ps_sp s1) (term_or0 s1)])
      else if negb (ps_rec s1) then
        (inl (set_modes s1 true (ps_cons s1)), [EvSyntaxError (ps_sp s1) (term_or0 s1); EvEnterRecovery (ps_sp s1)])
      else
        match pop_stacks V C s1 with
        | inl (s2, ev) => (inl s2, ev)
        | inr (s2, ev) => (inr (Reject, s2), ev)
        end.
  Proof. intros H K. unfold act. rewrite H, K. reflexivity. Qed.

  (* the action on a non-error cell, for a state that is not in consume mode *)
  Definition plain_action (s : pst) (t : nat) (e : entry) : outcome * list event :=
    match e_kind e with
    | KError => (inr (Reject, s), [])     (* not used: plain_action is only stated for non-error cells *)
    | KShift =>
        match e_arg e with
        | None => (inr (Crash CrGotoUninit, s), [])
        | Some nst =>
            let ev := [EvShift (ps_sp s) nst (ps_it s) (ps_end s - ps_it s)] in
            if fullx (length (ps_cursors s)) then (inr (Throw, s), ev) else
            if Nat.ltb (length buf) (ps_end s) then (inr (Crash CrBufferOverrun, s), ev) else
            (inl (consumex (set_stacks s (nst :: ps_cursors s)
                                       (term_f t (ps_it s) (ps_end s - ps_it s) (ps_sp s) :: ps_values s))), ev)
        end
    | KShiftErr =>
        match e_arg e with
        | None => (inr (Crash CrGotoUninit, s), [])
        | Some nst =>
            if fullx (length (ps_cursors s)) then (inr (Throw, s), [EvShiftErr (ps_sp s) nst]) else
            (inl (fst (spec_shift_err V C err_f s nst)), snd (spec_shift_err V C err_f s nst))
        end
    | KReduce =>
        match e_arg e with
        | None => (inr (Crash CrRRArg, s), [])
        | Some r => match reducex s r with
                    | inl (s3, ev) => (inl s3, ev)
                    | inr res => (inr (res, s), [])
                    end
        end
    | KRR =>
        match e_arg e with
        | None => (inr (Crash CrRRArg, s), [EvRR (ps_sp s)])
        | Some r => match reducex s r with
                    | inl (s3, ev) => (inl s3, EvRR (ps_sp s) :: ev)
                    | inr res => (inr (res, s), [EvRR (ps_sp s)])
                    end
        end
    | KSuccess =>
        match rev (ps_values s) with
        | [] => (inr (Crash CrNoValue, s), [EvSuccess (ps_sp s)])
        | v :: _ => (inr (Accept v, s), [EvSuccess (ps_sp s)])
        end
    end.

  Lemma act_plain s1 cursor t e :
    cell tbl cursor (nterm_count g + t) = inl e -> e_kind e <> KError -> ps_cons s1 = false ->
    actx s1 cursor t = plain_action s1 t e.
  Proof.
    intros H K Hc. unfold act, plain_action, spec_shift_err. rewrite H, Hc. cbn [fst snd app].
    destruct (e_kind e); try congruence; reflexivity.
  Qed.

  (* in consume mode a non-error cell first leaves consume mode (one LeaveConsume line), then acts as usual *)
  Lemma act_leaves_consume s1 cursor t e :
    cell tbl cursor (nterm_count g + t) = inl e -> e_kind e <> KError -> ps_cons s1 = true ->
    actx s1 cursor t =
      (fst (plain_action (set_modes s1 (ps_rec s1) false) t e),
       EvLeaveConsume (ps_sp s1) :: snd (plain_action (set_modes s1 (ps_rec s1) false) t e)).
  Proof.
    intros H K Hc. unfold act, plain_action, spec_shift_err. rewrite H, Hc.
    cbn [ps_cursors ps_values ps_sp ps_it ps_end ps_term ps_rec ps_cons ps_ctx set_modes fst snd app].
    destruct (e_kind e); try congruence.
    - destruct (rev (ps_values s1)); reflexivity.
    - destruct (e_arg e); [|reflexivity]. destruct (fullx _); [reflexivity|]. destruct (Nat.ltb _ _); reflexivity.
    - destruct (e_arg e); [|reflexivity]. destruct (fullx _); reflexivity.
    - destruct (e_arg e); [|reflexivity].
      destruct (reducex _ n) as [[s3 ev]|res]; reflexivity.
    - destruct (e_arg e); [|reflexivity].
      destruct (reducex _ n) as [[s3 ev]|res]; reflexivity.
  Qed.

  (* ---------- [step] when no term has to be fetched ---------- *)
  Lemma step_rec s cursor cs :
    ps_rec s = true -> ps_cursors s = cursor :: cs -> stepx s = actx s cursor (err_idx g).
  Proof.
    intros Hr Hc. unfold step, get_current_term. rewrite Hc, Hr.
    destruct (actx s cursor (err_idx g)) as [r ev]. reflexivity.
  Qed.

  Lemma step_gct s cursor cs s1 t ev1 :
    ps_cursors s = cursor :: cs -> gctx s = (s1, Some t, ev1) ->
    stepx s = (fst (actx s1 cursor t), ev1 ++ snd (actx s1 cursor t)).
  Proof.
    intros Hc Hg. unfold step. rewrite Hc, Hg. destruct (actx s1 cursor t) as [r ev]. reflexivity.
  Qed.

  Lemma step_lexfail s cursor cs s1 ev1 :
    ps_cursors s = cursor :: cs -> gctx s = (s1, None, ev1) -> stepx s = (inr (Reject, s1), ev1).
  Proof. intros Hc Hg. unfold step. rewrite Hc, Hg. reflexivity. Qed.

  Lemma gct_pending s : ps_rec s = false -> ps_it s <> ps_end s -> gctx s = (s, ps_term s, []).
  Proof.
    intros Hr Hne. unfold get_current_term. rewrite Hr.
    apply Nat.eqb_neq in Hne. rewrite Hne. reflexivity.
  Qed.

  (* ---------- table vocabulary ---------- *)
  Lemma rej_cell st : rej st = true -> exists e, cell tbl st (nterm_count g + err_idx g) = inl e /\ e_kind e = KError.
  Proof.
    unfold rejects_err, cell_kind, err_col, term_col.
    destruct (cell tbl st (nterm_count g + err_idx g)) as [e|c]; [|discriminate].
    intros H. exists e. split; [reflexivity|]. destruct (e_kind e); congruence.
  Qed.

  Lemma acc_cell st : acc st = true -> exists e, cell tbl st (nterm_count g + err_idx g) = inl e /\ e_kind e <> KError.
  Proof.
    unfold accepts_err, cell_kind, err_col, term_col.
    destruct (cell tbl st (nterm_count g + err_idx g)) as [e|c]; [|discriminate].
    intros H. exists e. split; [reflexivity|]. destruct (e_kind e); congruence.
  Qed.

  Lemma acc_rej_excl st : acc st = true -> rej st = true -> False.
  Proof.
    unfold accepts_err, rejects_err. destruct (ckind st errcol) as [[]|]; congruence.
  Qed.

  Lemma nocell_cell st : acc st = false -> rej st = false -> exists c, cell tbl st (nterm_count g + err_idx g) = inr c /\ (c = CrTableRow \/ c = CrTableCol).
  Proof.
    unfold accepts_err, rejects_err, cell_kind, err_col, term_col, cell.
    destruct (nth_error tbl st) as [row|]; [|eauto].
    destruct (nth_error row _) as [e|]; [|eauto].
    destruct (e_kind e); congruence.
  Qed.
  (* ================================================================================================ *)
  (* T1 -- the pop phase                                                                               *)
  (* ================================================================================================ *)

  (* drop_count is "the least k such that the k-th cursor accepts" *)
  Lemma drop_count_some cs k :
    dropc cs = Some k <->
    (exists st, nth_error cs k = Some st /\ acc st = true) /\
    (forall j st, j < k -> nth_error cs j = Some st -> acc st = false).
  Proof.
    revert k; induction cs as [|c cs IH]; intros k; cbn [drop_count].
    - split; [discriminate|]. intros [[st [H _]] _]. destruct k; discriminate.
    - destruct (acc c) eqn:Ha.
      + split.
        * intros H; inversion H; subst. split; [exists c; auto|]. intros j st Hj; lia.
        * intros [[st [H1 H2]] H3]. destruct k; [reflexivity|].
          specialize (H3 0 c ltac:(lia) eq_refl). congruence.
      + destruct (dropc cs) as [k'|] eqn:Hd; cbn [option_map].
        * split.
          -- intros H; inversion H; subst. destruct (proj1 (IH k') eq_refl) as [[st [H1 H2]] H3].
             split; [exists st; auto|]. intros [|j] st' Hj Hn; cbn in Hn; [congruence|]. eapply H3; [|eassumption]. lia.
          -- intros [[st [H1 H2]] H3]. destruct k as [|k]; [cbn in H1; congruence|]. f_equal.
             assert (E : Some k' = Some k); [|congruence]. apply IH. split; [exists st; auto|].
             intros j st' Hj Hn. apply (H3 (S j)); [lia|exact Hn].
        * split; [discriminate|]. intros [[st [H1 H2]] H3]. destruct k as [|k]; [cbn in H1; congruence|].
          assert (E : None = Some k); [|discriminate]. apply IH. split; [exists st; auto|].
          intros j st' Hj Hn. apply (H3 (S j)); [lia|exact Hn].
  Qed.

  Lemma drop_count_none cs : dropc cs = None <-> Forall (fun st => acc st = false) cs.
  Proof.
    induction cs as [|c cs IH]; cbn [drop_count]; [split; auto|].
    destruct (acc c) eqn:Ha.
    - split; [discriminate|]. intros H; inversion H; congruence.
    - destruct (dropc cs); cbn [option_map].
      + split; [discriminate|]. intros H; inversion H; subst. destruct IH as [_ IH]. specialize (IH H3). discriminate.
      + split; auto. intros _. constructor; [assumption|]. now apply IH.
  Qed.

  Lemma drop_count_lt cs k : dropc cs = Some k -> k < length cs.
  Proof. intros H. apply drop_count_some in H as [[st [H _]] _]. apply nth_error_Some. congruence. Qed.

  (* number of pops the driver performs: k, or the whole stack *)
  Definition pop_steps (cs : list nat) : nat := match dropc cs with Some k => k | None => length cs end.

  (* a specified phase outcome as an outcome of the loop: failure of recovery is the result Reject *)
  Definition as_outcome (x : (pst * list event) + (pst * list event)) : outcome * list event :=
    match x with
    | inl (s', ev) => (inl s', ev)
    | inr (s', ev) => (inr (Reject, s'), ev)
    end.

  Lemma set_stacks_id (s : pst) : set_stacks s (ps_cursors s) (ps_values s) = s.
  Proof. destruct s; reflexivity. Qed.

  (* one pop: recovery mode, the top rejects the error symbol *)
  Lemma step_pop s c0 below :
    ps_rec s = true -> ps_cons s = false -> ps_cursors s = c0 :: below -> rej c0 = true ->
    stepx s = match below with
              | [] => (inr (Reject, set_stacks s [] (tl (ps_values s))), [EvCouldNotRecover (ps_sp s)])
              | c1 :: _ => (inl (set_stacks s below (tl (ps_values s))), [EvRecoveringTo (ps_sp s) c1])
              end.
  Proof.
    intros Hr Hc Hcs Hrej. rewrite (step_rec s c0 below Hr Hcs).
    apply rej_cell in Hrej as (e & He & Hk). rewrite (act_error _ _ _ _ He Hk), Hc, Hr. cbn [negb].
    unfold pop_stacks. rewrite Hcs. cbn [tl]. destruct below; reflexivity.
  Qed.

  (* dropping, from any configuration in recovery mode *)
  Theorem drop_refines s :
    ps_rec s = true -> ps_cons s = false -> ps_cursors s <> [] -> popdef (ps_cursors s) = true ->
    steps (pop_steps (ps_cursors s)) s = as_outcome (sdrop s).
  Proof.
    remember (ps_cursors s) as cs eqn:Hcs. revert s Hcs.
    induction cs as [|c0 below IH]; intros s Hcs Hr Hc Hne Hdef; [congruence|].
    unfold spec_drop, pop_steps. rewrite <- Hcs. cbn [drop_count pop_defined] in *.
    destruct (acc c0) eqn:Ha.
    - (* the top accepts: nothing to do *)
      cbn [steps as_outcome skipn firstn map]. rewrite Hcs, set_stacks_id. reflexivity.
    - cbn [orb] in Hdef. apply andb_true_iff in Hdef as [Hrej Hdef].
      pose proof (step_pop s c0 below Hr Hc (eq_sym Hcs) Hrej) as Hstep.
      destruct below as [|c1 b'].
      + (* last state: could not recover *)
        cbn [drop_count option_map length steps]. rewrite Hstep. cbn [as_outcome tl map app skipn].
        reflexivity.
      + set (s2 := set_stacks s (c1 :: b') (tl (ps_values s))) in *.
        assert (IH2 := IH s2 eq_refl Hr Hc ltac:(discriminate) Hdef).
        unfold pop_steps, spec_drop in IH2.
        change (ps_cursors s2) with (c1 :: b') in IH2. change (ps_values s2) with (tl (ps_values s)) in IH2.
        change (ps_sp s2) with (ps_sp s) in IH2.
        destruct (dropc (c1 :: b')) as [k|] eqn:Hd; cbn [option_map].
        * rewrite (steps_S_inl _ _ _ _ Hstep), IH2. cbn [as_outcome fst snd tl]. rewrite (skipn_S_tl (ps_values s)).
          reflexivity.
        * change (length (c0 :: c1 :: b')) with (S (length (c1 :: b'))).
          rewrite (steps_S_inl _ _ _ _ Hstep), IH2. cbn [as_outcome fst snd tl]. rewrite (skipn_S_tl (ps_values s)).
          reflexivity.
  Qed.

  (* the pop phase = the report, then dropping from the same configuration in recovery mode *)
  Lemma spop_sdrop s :
    spop s = match sdrop (set_modes s true (ps_cons s)) with
             | inl (s', ev) => inl (s', [EvSyntaxError (ps_sp s) (term_or0 s); EvEnterRecovery (ps_sp s)] ++ ev)
             | inr (s', ev) => inr (s', [EvSyntaxError (ps_sp s) (term_or0 s); EvEnterRecovery (ps_sp s)] ++ ev)
             end.
  Proof.
    unfold spec_pop_phase, spec_drop.
    cbn [ps_cursors ps_values ps_sp ps_it ps_end ps_term ps_rec ps_cons ps_ctx set_modes].
    destruct (dropc (ps_cursors s)); reflexivity.
  Qed.

  (* what [get_current_term] leaves alone, and the pending term it establishes *)
  Lemma gct_facts s s1 a ev1 :
    ps_rec s = false -> gctx s = (s1, Some a, ev1) ->
    ps_term s1 = Some a /\ ps_cursors s1 = ps_cursors s /\ ps_values s1 = ps_values s /\ ps_ctx s1 = ps_ctx s /\
    ps_rec s1 = false /\ ps_cons s1 = ps_cons s.
  Proof.
    intros Hr Hg. pose proof (gct_spec_holds V C g opts buf lexer s) as Hs. rewrite Hg in Hs.
    destruct (gct_stacks Hs) as (H1 & H2 & H3 & H4 & H5).
    destruct (gct_term Hs) as [[H6 _]|[_ H6]]; [congruence|].
    repeat split; congruence.
  Qed.

  (* the iteration that detects the error: report it, switch recovery mode on, touch nothing else *)
  Lemma step_enter s top cs s1 a ev1 e :
    ps_rec s = false -> ps_cons s = false -> ps_cursors s = top :: cs -> gctx s = (s1, Some a, ev1) ->
    cell tbl top (tcol a) = inl e -> e_kind e = KError ->
    stepx s = (inl (set_modes s1 true (ps_cons s1)),
               ev1 ++ [EvSyntaxError (ps_sp s1) (term_or0 s1); EvEnterRecovery (ps_sp s1)]).
  Proof.
    intros Hr Hc Hcs Hg He Hk. destruct (gct_facts _ _ _ _ Hr Hg) as (_ & _ & _ & _ & Hr1 & Hc1).
    rewrite (step_gct _ _ _ _ _ _ Hcs Hg). unfold term_col in He.
    rewrite (act_error _ _ _ _ He Hk), Hc1, Hc, Hr1. reflexivity.
  Qed.

  (* T1. From a configuration s in normal mode whose next term a (already pending, or fetched from the lexer
     by this very iteration: s1 is s with that term pending, ev1 the lexer's lines) has an error cell in the
     top state, the driver's next  1 + k  iterations (k = drop_count; the whole stack if there is none) are
     exactly the specified pop phase of s1. *)
  Theorem pop_phase_refines s top cs s1 a ev1 e :
    ps_rec s = false -> ps_cons s = false -> ps_cursors s = top :: cs ->
    gctx s = (s1, Some a, ev1) ->
    cell tbl top (tcol a) = inl e -> e_kind e = KError ->
    popdef (ps_cursors s) = true ->
    steps (S (pop_steps (ps_cursors s))) s = (fst (as_outcome (spop s1)), ev1 ++ snd (as_outcome (spop s1)))
    /\ ps_term s1 = Some a /\ term_or0 s1 = a.
  Proof.
    intros Hr Hc Hcs Hg He Hk Hdef.
    destruct (gct_facts _ _ _ _ Hr Hg) as (Ht & Hcs1 & Hvs1 & _ & Hr1 & Hc1).
    split; [|split; [assumption|unfold term_or0; now rewrite Ht]].
    rewrite (steps_S_inl _ _ _ _ (step_enter _ _ _ _ _ _ _ Hr Hc Hcs Hg He Hk)).
    set (sr := set_modes s1 true (ps_cons s1)).
    assert (Hd : steps (pop_steps (ps_cursors sr)) sr = as_outcome (sdrop sr)).
    { apply drop_refines; subst sr; cbn [set_modes ps_rec ps_cons ps_cursors]; congruence. }
    change (ps_cursors sr) with (ps_cursors s1) in Hd. rewrite Hcs1 in Hd. rewrite Hd.
    rewrite spop_sdrop. fold sr. destruct (sdrop sr) as [[s' ev]|[s' ev]]; cbn [as_outcome fst snd];
      now rewrite <- app_assoc.
  Qed.

  (* the same with the numbers of iterations written out *)
  Corollary pop_phase_refines_some s top cs s1 a ev1 e k :
    ps_rec s = false -> ps_cons s = false -> ps_cursors s = top :: cs ->
    gctx s = (s1, Some a, ev1) -> cell tbl top (tcol a) = inl e -> e_kind e = KError ->
    popdef (ps_cursors s) = true -> dropc (ps_cursors s) = Some k ->
    exists s' ev, spop s1 = inl (s', ev) /\ steps (k + 1) s = (inl s', ev1 ++ ev).
  Proof.
    intros Hr Hc Hcs Hg He Hk Hdef Hd.
    destruct (pop_phase_refines _ _ _ _ _ _ _ Hr Hc Hcs Hg He Hk Hdef) as [H _].
    destruct (gct_facts _ _ _ _ Hr Hg) as (_ & Hcs1 & _).
    unfold pop_steps in H. rewrite Hd in H. replace (k + 1) with (S k) by lia. rewrite H.
    unfold spec_pop_phase. rewrite Hcs1, Hd. eexists _, _. split; reflexivity.
  Qed.

  Corollary pop_phase_refines_none s top cs s1 a ev1 e :
    ps_rec s = false -> ps_cons s = false -> ps_cursors s = top :: cs ->
    gctx s = (s1, Some a, ev1) -> cell tbl top (tcol a) = inl e -> e_kind e = KError ->
    popdef (ps_cursors s) = true -> dropc (ps_cursors s) = None ->
    exists s' ev, spop s1 = inr (s', ev) /\ steps (length (ps_cursors s) + 1) s = (inr (Reject, s'), ev1 ++ ev) /\
                  ps_cursors s' = [] /\ exists ev0, ev = ev0 ++ [EvCouldNotRecover (ps_sp s1)].
  Proof.
    intros Hr Hc Hcs Hg He Hk Hdef Hd.
    destruct (pop_phase_refines _ _ _ _ _ _ _ Hr Hc Hcs Hg He Hk Hdef) as [H _].
    destruct (gct_facts _ _ _ _ Hr Hg) as (_ & Hcs1 & _).
    unfold pop_steps in H. rewrite Hd in H. replace (length (ps_cursors s) + 1) with (S (length (ps_cursors s))) by lia.
    rewrite H. unfold spec_pop_phase. rewrite Hcs1, Hd. eexists _, _. split; [reflexivity|]. split; [reflexivity|].
    split; [reflexivity|]. eexists. rewrite app_assoc. reflexivity.
  Qed.

  (* the term was already pending: no lexer involved, the driver's iterations ARE the specified phase *)
  Corollary pop_phase_refines_pending s top cs a e :
    ps_rec s = false -> ps_cons s = false -> ps_cursors s = top :: cs ->
    ps_it s <> ps_end s -> ps_term s = Some a ->
    cell tbl top (tcol a) = inl e -> e_kind e = KError ->
    popdef (ps_cursors s) = true ->
    steps (S (pop_steps (ps_cursors s))) s = as_outcome (spop s).
  Proof.
    intros Hr Hc Hcs Hne Ht He Hk Hdef.
    assert (Hg : gctx s = (s, Some a, [])) by (rewrite <- Ht; now apply gct_pending).
    destruct (pop_phase_refines _ _ _ _ _ _ _ Hr Hc Hcs Hg He Hk Hdef) as [H _].
    rewrite H. now destruct (as_outcome (spop s)).
  Qed.

  (* ---------- the three named consequences ---------- *)

  (* k = 0: the state in which the error is detected accepts the error symbol itself. Nothing is popped: after
     the reporting iteration both stacks are those of s, and the following iteration is the table's action
     of that same state on the error symbol (not a pop). *)
  Theorem C08_no_pop_when_top_accepts s top cs s1 a ev1 e :
    ps_rec s = false -> ps_cons s = false -> ps_cursors s = top :: cs ->
    gctx s = (s1, Some a, ev1) -> cell tbl top (tcol a) = inl e -> e_kind e = KError ->
    acc top = true ->
    exists s' e',
      stepx s = (inl s', ev1 ++ [EvSyntaxError (ps_sp s1) a; EvEnterRecovery (ps_sp s1)]) /\
      ps_cursors s' = ps_cursors s /\ ps_values s' = ps_values s /\ ps_ctx s' = ps_ctx s /\
      ps_rec s' = true /\ ps_cons s' = false /\
      cell tbl top errcol = inl e' /\ e_kind e' <> KError /\
      stepx s' = plain_action s' (err_idx g) e'.
  Proof.
    intros Hr Hc Hcs Hg He Hk Ha.
    destruct (gct_facts _ _ _ _ Hr Hg) as (Ht & Hcs1 & Hvs1 & Hctx & Hr1 & Hc1).
    pose proof (step_enter _ _ _ _ _ _ _ Hr Hc Hcs Hg He Hk) as Hs.
    assert (Hto : term_or0 s1 = a) by (unfold term_or0; now rewrite Ht). rewrite Hto in Hs.
    destruct (acc_cell _ Ha) as (e' & He' & Hk').
    exists (set_modes s1 true (ps_cons s1)), e'. split; [exact Hs|].
    cbn [set_modes ps_cursors ps_values ps_ctx ps_rec ps_cons]. repeat split; try congruence; [exact He'|].
    rewrite (step_rec _ top cs); [|reflexivity|cbn [set_modes ps_cursors]; congruence].
    apply act_plain; [exact He'|exact Hk'|cbn [set_modes ps_cons]; congruence].
  Qed.

  (* the values (and states) below the topmost accepting state survive the pop phase untouched, in order;
     [skipn k] is also right in the corner where the value stack is shorter than the cursor stack *)
  Theorem C08_keeps_lower_values s top cs s1 a ev1 e k :
    ps_rec s = false -> ps_cons s = false -> ps_cursors s = top :: cs ->
    gctx s = (s1, Some a, ev1) -> cell tbl top (tcol a) = inl e -> e_kind e = KError ->
    popdef (ps_cursors s) = true -> dropc (ps_cursors s) = Some k ->
    exists s' ev,
      steps (k + 1) s = (inl s', ev) /\
      ps_values s' = skipn k (ps_values s) /\ ps_cursors s' = skipn k (ps_cursors s) /\
      ps_ctx s' = ps_ctx s /\ ps_rec s' = true /\
      (* one value per surviving state above the bottom, if that held before *)
      (length (ps_values s) + 1 = length (ps_cursors s) -> length (ps_values s') + 1 = length (ps_cursors s')).
  Proof.
    intros Hr Hc Hcs Hg He Hk Hdef Hd.
    destruct (pop_phase_refines_some _ _ _ _ _ _ _ _ Hr Hc Hcs Hg He Hk Hdef Hd) as (s' & ev & Hsp & Hst).
    destruct (gct_facts _ _ _ _ Hr Hg) as (_ & Hcs1 & Hvs1 & Hctx & _).
    exists s', (ev1 ++ ev). split; [exact Hst|].
    unfold spec_pop_phase in Hsp. rewrite Hcs1, Hd in Hsp. inversion Hsp; subst s'.
    cbn [ps_values ps_cursors ps_ctx ps_rec]. rewrite Hvs1. repeat split; try assumption.
    intros Hlen. pose proof (drop_count_lt _ _ Hd). rewrite !skipn_length. lia.
  Qed.

  (* every discarded state rejects the error symbol, the state that becomes the top accepts it *)
  Theorem C08_pops_only_rejecting_states cursors k :
    dropc cursors = Some k ->
    Forall (fun st => acc st = false) (firstn k cursors) /\
    (popdef cursors = true -> Forall (fun st => rej st = true) (firstn k cursors)) /\
    exists st, nth_error cursors k = Some st /\ hd_error (skipn k cursors) = Some st /\ acc st = true.
  Proof.
    revert k; induction cursors as [|c cs IH]; intros k; cbn [drop_count pop_defined]; [discriminate|].
    destruct (acc c) eqn:Ha.
    - intros H; inversion H; subst. cbn [firstn skipn nth_error hd_error]. repeat split; eauto.
    - destruct (dropc cs) as [k'|]; cbn [option_map]; [|discriminate].
      intros H; inversion H; subst. destruct (IH k' eq_refl) as (H1 & H2 & st & H3 & H4 & H5).
      cbn [firstn skipn nth_error orb]. split; [constructor; assumption|]. split; [|eauto].
      intros Hd. apply andb_true_iff in Hd as [Hr Hd]. constructor; auto.
  Qed.

  (* when recovery fails in the pop phase, every state of the stack rejected the error symbol *)
  Theorem C08_pop_fails_only_if_all_reject cursors :
    dropc cursors = None -> popdef cursors = true -> Forall (fun st => rej st = true) cursors.
  Proof.
    induction cursors as [|c cs IH]; cbn [drop_count pop_defined]; [constructor|].
    destruct (acc c); [discriminate|]. destruct (dropc cs); cbn [option_map orb]; [discriminate|].
    intros _ H. apply andb_true_iff in H as [H1 H2]. constructor; auto.
  Qed.

  (* ---------- outside the domain: a stacked state without a cell in the error-symbol column ---------- *)
  Theorem drop_undefined_crashes s :
    ps_rec s = true -> ps_cons s = false -> popdef (ps_cursors s) = false ->
    exists n s' c ev, n < length (ps_cursors s) /\ steps (S n) s = (inr (Crash c, s'), ev) /\
                      (c = CrTableRow \/ c = CrTableCol).
  Proof.
    remember (ps_cursors s) as cs eqn:Hcs. revert s Hcs.
    induction cs as [|c0 below IH]; intros s Hcs Hr Hc Hdef; cbn [pop_defined] in Hdef; [discriminate|].
    apply orb_false_iff in Hdef as [Ha Hdef].
    destruct (rej c0) eqn:Hrej.
    - cbn [andb] in Hdef.
      pose proof (step_pop s c0 below Hr Hc (eq_sym Hcs) Hrej) as Hstep.
      destruct below as [|c1 b']; [discriminate|].
      destruct (IH (set_stacks s (c1 :: b') (tl (ps_values s))) eq_refl Hr Hc Hdef) as (n & s' & c & ev & Hn & Hs & Hcc).
      exists (S n), s', c, ([EvRecoveringTo (ps_sp s) c1] ++ ev). split; [cbn [length] in *; lia|]. split; [|exact Hcc].
      rewrite (steps_S_inl _ _ _ _ Hstep), Hs. reflexivity.
    - destruct (nocell_cell _ Ha Hrej) as (c & Hcell & Hcc).
      exists 0, s, c, []. split; [cbn [length]; lia|]. split; [|exact Hcc].
      rewrite steps_1, (step_rec s c0 below Hr (eq_sym Hcs)), (act_nocell _ _ _ _ Hcell). reflexivity.
  Qed.

  Theorem pop_phase_undefined_crashes s top cs s1 a ev1 e :
    ps_rec s = false -> ps_cons s = false -> ps_cursors s = top :: cs ->
    gctx s = (s1, Some a, ev1) -> cell tbl top (tcol a) = inl e -> e_kind e = KError ->
    popdef (ps_cursors s) = false ->
    exists n s' c ev, n < length (ps_cursors s) /\ steps (S (S n)) s = (inr (Crash c, s'), ev) /\
                      (c = CrTableRow \/ c = CrTableCol).
  Proof.
    intros Hr Hc Hcs Hg He Hk Hdef.
    destruct (gct_facts _ _ _ _ Hr Hg) as (_ & Hcs1 & _ & _ & Hr1 & Hc1).
    pose proof (step_enter _ _ _ _ _ _ _ Hr Hc Hcs Hg He Hk) as Hs.
    destruct (drop_undefined_crashes (set_modes s1 true (ps_cons s1))) as (n & s' & c & ev & Hn & Hst & Hcc);
      cbn [set_modes ps_rec ps_cons ps_cursors]; try congruence.
    cbn [set_modes ps_cursors] in Hn. rewrite Hcs1 in Hn.
    exists n, s', c, ((ev1 ++ [EvSyntaxError (ps_sp s1) (term_or0 s1); EvEnterRecovery (ps_sp s1)]) ++ ev).
    split; [exact Hn|]. split; [|exact Hcc]. rewrite (steps_S_inl _ _ _ _ Hs), Hst. reflexivity.
  Qed.

  (* ================================================================================================ *)
  (* T2 -- acting on the error symbol                                                                  *)
  (* ================================================================================================ *)

  (* In recovery mode the error symbol is presented instead of the pending term. If the top state accepts it,
     the iteration is exactly the table's action of the cell (top, error column); [plain_action] spells the
     action out for every kind, the corollaries below instantiate it. *)
  Theorem recovering_step s st cs e :
    ps_rec s = true -> ps_cons s = false -> ps_cursors s = st :: cs ->
    cell tbl st errcol = inl e -> e_kind e <> KError ->
    stepx s = plain_action s (err_idx g) e.
  Proof.
    intros Hr Hc Hcs He Hk. rewrite (step_rec s st cs Hr Hcs). now apply act_plain.
  Qed.

  (* KShiftErr n: the error symbol is shifted -- recovery mode off, consume mode on, nothing popped *)
  Corollary recovering_step_shift_err s st cs e n :
    ps_rec s = true -> ps_cons s = false -> ps_cursors s = st :: cs ->
    cell tbl st errcol = inl e -> e_kind e = KShiftErr -> e_arg e = Some n ->
    fullx (length (ps_cursors s)) = false ->
    stepx s = (inl (mkPS (n :: ps_cursors s) (err_f (ps_sp s) :: ps_values s)
                         (ps_sp s) (ps_it s) (ps_end s) (ps_term s) false true (ps_ctx s)),
               [EvShiftErr (ps_sp s) n; EvLeaveRecovery (ps_sp s); EvEnterConsume (ps_sp s)]).
  Proof.
    intros Hr Hc Hcs He Hk Ha Hf. rewrite (recovering_step s st cs e Hr Hc Hcs He) by congruence.
    unfold plain_action. rewrite Hk, Ha, Hf. reflexivity.
  Qed.

  (* ... unless the fixed-capacity stack is full (Throw) or the cell carries no target (uninitialised read) *)
  Corollary recovering_step_shift_err_full s st cs e n :
    ps_rec s = true -> ps_cons s = false -> ps_cursors s = st :: cs ->
    cell tbl st errcol = inl e -> e_kind e = KShiftErr -> e_arg e = Some n ->
    fullx (length (ps_cursors s)) = true ->
    stepx s = (inr (Throw, s), [EvShiftErr (ps_sp s) n]).
  Proof.
    intros Hr Hc Hcs He Hk Ha Hf. rewrite (recovering_step s st cs e Hr Hc Hcs He) by congruence.
    unfold plain_action. rewrite Hk, Ha, Hf. reflexivity.
  Qed.

  (* KReduce r (KRR r: the same after an RR line): the ordinary reduction on the error-symbol lookahead. The
     parser is STILL RECOVERING, with the goto state on top; position, pending term and modes are untouched,
     so the next iteration presents the error symbol to the new top ([recovering_step] or a pop, [drop_refines]). *)
  Corollary recovering_step_reduce s st cs e r :
    ps_rec s = true -> ps_cons s = false -> ps_cursors s = st :: cs ->
    cell tbl st errcol = inl e -> e_kind e = KReduce -> e_arg e = Some r ->
    stepx s = match reducex s r with
              | inl (s3, ev) => (inl s3, ev)
              | inr res => (inr (res, s), [])
              end.
  Proof.
    intros Hr Hc Hcs He Hk Ha. rewrite (recovering_step s st cs e Hr Hc Hcs He) by congruence.
    unfold plain_action. rewrite Hk, Ha. reflexivity.
  Qed.

  Corollary recovering_step_rr s st cs e r :
    ps_rec s = true -> ps_cons s = false -> ps_cursors s = st :: cs ->
    cell tbl st errcol = inl e -> e_kind e = KRR -> e_arg e = Some r ->
    stepx s = match reducex s r with
              | inl (s3, ev) => (inl s3, EvRR (ps_sp s) :: ev)
              | inr res => (inr (res, s), [EvRR (ps_sp s)])
              end.
  Proof.
    intros Hr Hc Hcs He Hk Ha. rewrite (recovering_step s st cs e Hr Hc Hcs He) by congruence.
    unfold plain_action. rewrite Hk, Ha. reflexivity.
  Qed.

  Lemma reduce_keeps_recovering s r s3 ev :
    reducex s r = inl (s3, ev) ->
    ps_rec s3 = ps_rec s /\ ps_cons s3 = ps_cons s /\ ps_sp s3 = ps_sp s /\ ps_it s3 = ps_it s /\
    ps_end s3 = ps_end s /\ ps_term s3 = ps_term s /\
    exists ri nst, nth_error (rule_infos g) r = Some ri /\
                   ps_cursors s3 = nst :: skipn (ri_n ri) (ps_cursors s) /\
                   tl (ps_values s3) = skipn (ri_n ri) (ps_values s).
  Proof.
    intros H. destruct (do_reduce_inl H) as (ri & nst & c' & v & H1 & _ & _ & _ & H5 & _). subst s3.
    cbn [set_ctx set_stacks ps_rec ps_cons ps_sp ps_it ps_end ps_term ps_cursors ps_values tl].
    repeat split. eauto.
  Qed.

  (* The other kinds. KShift in the error-symbol column is never produced by the generator (it writes
     KShiftErr there); the model then behaves like an ordinary shift of the PENDING lexeme labelled with the
     error term, and -- the oddity -- stays in recovery mode. *)
  Corollary recovering_step_plain_shift s st cs e n :
    ps_rec s = true -> ps_cons s = false -> ps_cursors s = st :: cs ->
    cell tbl st errcol = inl e -> e_kind e = KShift -> e_arg e = Some n ->
    fullx (length (ps_cursors s)) = false -> ps_end s <= length buf ->
    stepx s = (inl (consumex (set_stacks s (n :: ps_cursors s)
                       (term_f (err_idx g) (ps_it s) (ps_end s - ps_it s) (ps_sp s) :: ps_values s))),
               [EvShift (ps_sp s) n (ps_it s) (ps_end s - ps_it s)])
    /\ ps_rec (consumex (set_stacks s (n :: ps_cursors s)
                       (term_f (err_idx g) (ps_it s) (ps_end s - ps_it s) (ps_sp s) :: ps_values s))) = true.
  Proof.
    intros Hr Hc Hcs He Hk Ha Hf Hb. rewrite (recovering_step s st cs e Hr Hc Hcs He) by congruence.
    unfold plain_action. rewrite Hk, Ha, Hf. apply Nat.ltb_ge in Hb. rewrite Hb. split; [reflexivity|exact Hr].
  Qed.

  (* KSuccess in the error-symbol column: the run ends, accepting the bottom value *)
  Corollary recovering_step_success s st cs e :
    ps_rec s = true -> ps_cons s = false -> ps_cursors s = st :: cs ->
    cell tbl st errcol = inl e -> e_kind e = KSuccess ->
    stepx s = match rev (ps_values s) with
              | [] => (inr (Crash CrNoValue, s), [EvSuccess (ps_sp s)])
              | v :: _ => (inr (Accept v, s), [EvSuccess (ps_sp s)])
              end.
  Proof.
    intros Hr Hc Hcs He Hk. rewrite (recovering_step s st cs e Hr Hc Hcs He) by congruence.
    unfold plain_action. rewrite Hk. reflexivity.
  Qed.

  (* ... and a top state that rejects the error symbol is popped ([step_pop]); a missing cell is a crash.
     So in recovery mode every iteration is: error action | pop | crash, decided by the top state alone. *)
  Theorem recovering_step_trichotomy s st cs :
    ps_rec s = true -> ps_cons s = false -> ps_cursors s = st :: cs ->
    (acc st = true /\ exists e, cell tbl st errcol = inl e /\ e_kind e <> KError /\ stepx s = plain_action s (err_idx g) e) \/
    (rej st = true /\ stepx s = as_outcome (match cs with
                                             | [] => inr (set_stacks s [] (tl (ps_values s)), [EvCouldNotRecover (ps_sp s)])
                                             | c1 :: _ => inl (set_stacks s cs (tl (ps_values s)), [EvRecoveringTo (ps_sp s) c1])
                                             end)) \/
    (acc st = false /\ rej st = false /\ exists c, stepx s = (inr (Crash c, s), []) /\ (c = CrTableRow \/ c = CrTableCol)).
  Proof.
    intros Hr Hc Hcs. destruct (acc st) eqn:Ha; [left|right; destruct (rej st) eqn:Hj; [left|right]].
    - split; [reflexivity|]. destruct (acc_cell _ Ha) as (e & He & Hk). exists e. repeat split; auto.
      now apply (recovering_step s st cs e).
    - split; [reflexivity|]. rewrite (step_pop s st cs Hr Hc Hcs Hj). destruct cs; reflexivity.
    - repeat split. destruct (nocell_cell _ Ha Hj) as (c & Hcell & Hcc). exists c. split; [|exact Hcc].
      rewrite (step_rec s st cs Hr Hcs). now apply act_nocell.
  Qed.

  (* ================================================================================================ *)
  (* T3 -- the consume phase                                                                           *)
  (* ================================================================================================ *)
  Lemma discarded_app a b : discarded_terms (a ++ b) = discarded_terms a ++ discarded_terms b.
  Proof. induction a as [|x a IH]; cbn [app discarded_terms]; [reflexivity|]. destruct x; cbn [app]; congruence. Qed.

  Lemma discarded_lex lx : discarded_terms (map EvLex lx) = [].
  Proof. induction lx; cbn [map discarded_terms]; auto. Qed.

  Lemma gct_no_discard s s1 ot ev1 : gct_spec V C g opts buf lexer s (s1, ot, ev1) -> discarded_terms ev1 = [].
  Proof. intros H; inversion H; subst; try reflexivity; now rewrite discarded_app, discarded_lex. Qed.

  Lemma cell_inr_kind st col c : cell tbl st col = inr c -> c = CrTableRow \/ c = CrTableCol.
  Proof.
    unfold cell. destruct (nth_error tbl st) as [row|]; [|intros H; inversion H; auto].
    destruct (nth_error row col); intros H; inversion H; auto.
  Qed.

  (* what "consume mode was left by acting on t" means for the driver: after m discarding iterations, iteration
     m+1 is LeaveConsume followed by the ordinary action (plain_action) of the resumed configuration s' on its
     pending term t, whose cell e in the (unchanged) top state is not an error cell *)
  Definition resumes (n : nat) (s : pst) (top : nat) (s' : pst) (ev : list event) : Prop :=
    exists m t e,
      m < n /\ length (discarded_terms ev) = m /\
      ps_term s' = Some t /\ cell tbl top (tcol t) = inl e /\ e_kind e <> KError /\
      ps_rec s' = false /\ ps_cons s' = false /\
      ps_cursors s' = ps_cursors s /\ ps_values s' = ps_values s /\ ps_ctx s' = ps_ctx s /\
      steps (S m) s = (fst (plain_action s' t e), ev ++ snd (plain_action s' t e)).

  Theorem consume_phase_refines n : forall s top cs,
    ps_rec s = false -> ps_cons s = true -> ps_cursors s = top :: cs ->
    match sconsume n s with
    | (CoResume s', ev) => resumes n s top s' ev
    | (CoFail s', ev) => exists m, 1 <= m <= n /\ steps m s = (inr (Reject, s'), ev)
    | (CoNoCell s', ev) => exists m c, 1 <= m <= n /\ steps m s = (inr (Crash c, s'), ev) /\ (c = CrTableRow \/ c = CrTableCol)
    | (CoMore s', ev) =>
        steps n s = (inl s', ev) /\ length (discarded_terms ev) = n /\
        ps_rec s' = false /\ ps_cons s' = true /\
        ps_cursors s' = ps_cursors s /\ ps_values s' = ps_values s /\ ps_ctx s' = ps_ctx s
    end.
  Proof.
    induction n as [|n IH]; intros s top cs Hr Hc Hcs.
    { cbn [spec_consume steps discarded_terms length]. repeat split; assumption. }
    cbn [spec_consume].
    pose proof (gct_spec_holds V C g opts buf lexer s) as Hsp.
    destruct (gctx s) as [[s1 ot] ev1] eqn:Hg.
    destruct (gct_stacks Hsp) as (Hcs1 & Hvs1 & Hctx1 & Hr1 & Hc1).
    pose proof (gct_no_discard _ _ _ _ Hsp) as Hnd.
    destruct ot as [t|].
    2:{ exists 1. split; [lia|]. rewrite steps_1, (step_lexfail _ _ _ _ _ Hcs Hg). reflexivity. }
    destruct (gct_term Hsp) as [[H6 _]|[_ Ht]]; [congruence|].
    pose proof (step_gct _ _ _ _ _ _ Hcs Hg) as Hstep.
    unfold top_state, cell_kind, term_col. rewrite Hcs. cbn [hd].
    destruct (cell tbl top (nterm_count g + t)) as [e|c] eqn:Hcell.
    2:{ exists 1, c. split; [lia|]. rewrite steps_1, Hstep, (act_nocell _ _ _ _ Hcell). cbn [fst snd].
        rewrite app_nil_r. split; [reflexivity|]. eapply cell_inr_kind; eassumption. }
    destruct (kind_eqb (e_kind e) KError) eqn:Hke.
    - (* an error cell *)
      assert (Hk : e_kind e = KError) by (destruct (e_kind e); (reflexivity || discriminate)).
      rewrite Hk. rewrite (act_error _ _ _ _ Hcell Hk), Hc1, Hc, Ht in Hstep.
      destruct (Nat.eqb t (eof_idx g)) eqn:Heof.
      + exists 1. split; [lia|]. rewrite steps_1, Hstep. cbn [fst snd]. now rewrite app_nil_r.
      + cbn [fst snd] in Hstep.
        assert (Hto : term_or0 s1 = t) by (unfold term_or0; now rewrite Ht). rewrite Hto in Hstep.
        specialize (IH (consumex s1) top cs).
        destruct (sconsume n (consumex s1)) as [o ev'].
        assert (Hd : forall x, length (discarded_terms (ev1 ++ EvConsuming (ps_sp s1) t :: x)) = S (length (discarded_terms x))).
        { intros x. rewrite discarded_app, Hnd. reflexivity. }
        assert (Hev : forall x, (ev1 ++ [EvConsuming (ps_sp s1) t]) ++ x = ev1 ++ EvConsuming (ps_sp s1) t :: x).
        { intros x. now rewrite <- app_assoc. }
        destruct o as [s'|s'|s'|s'].
        * destruct IH as (m & t' & e' & Hm & Hl & Ht' & He' & Hk' & Hr' & Hc' & Hcs' & Hvs' & Hctx' & Hst);
            [simp_ps; congruence|simp_ps; congruence|simp_ps; congruence|].
          simp_ps_in Hcs'. simp_ps_in Hvs'. simp_ps_in Hctx'.
          exists (S m), t', e'. rewrite Hd.
          repeat split; try assumption; try congruence; try lia.
          rewrite (steps_S_inl _ _ _ _ Hstep), Hst. cbn [fst snd]. now rewrite <- (Hev ev'), <- !app_assoc.
        * destruct IH as (m & Hm & Hst); [simp_ps; congruence|simp_ps; congruence|simp_ps; congruence|].
          exists (S m). split; [lia|]. rewrite (steps_S_inl _ _ _ _ Hstep), Hst. cbn [fst snd]. now rewrite Hev.
        * destruct IH as (m & c & Hm & Hst & Hcc); [simp_ps; congruence|simp_ps; congruence|simp_ps; congruence|].
          exists (S m), c. split; [lia|]. split; [|exact Hcc].
          rewrite (steps_S_inl _ _ _ _ Hstep), Hst. cbn [fst snd]. now rewrite Hev.
        * destruct IH as (Hst & Hl & Hr' & Hc' & Hcs' & Hvs' & Hctx'); [simp_ps; congruence|simp_ps; congruence|simp_ps; congruence|].
          simp_ps_in Hcs'. simp_ps_in Hvs'. simp_ps_in Hctx'.
          rewrite Hd. repeat split; try assumption; try congruence.
          rewrite (steps_S_inl _ _ _ _ Hstep), Hst. cbn [fst snd]. now rewrite Hev.
    - (* the first term the top state can act on *)
      assert (Hk : e_kind e <> KError) by (intros E; rewrite E in Hke; discriminate).
      assert (Hres : resumes (S n) s top (set_modes s1 (ps_rec s1) false) (ev1 ++ [EvLeaveConsume (ps_sp s1)])).
      { exists 0, t, e. rewrite discarded_app, Hnd. cbn [set_modes ps_term ps_rec ps_cons ps_cursors ps_values ps_ctx].
        repeat split; try assumption; try congruence; try lia.
        rewrite steps_1, Hstep. cbn [fst snd].
        rewrite (act_leaves_consume _ _ _ _ Hcell Hk) by congruence. cbn [fst snd]. now rewrite <- app_assoc. }
      destruct (e_kind e); try exact Hres. congruence.
  Qed.

  (* the specification's own guarantee: everything it discards has an error cell in the top state and is not <eof> *)
  Lemma spec_consume_discards n : forall s top cs o ev,
    ps_cursors s = top :: cs -> sconsume n s = (o, ev) ->
    Forall (fun t => ckind top (tcol t) = Some KError /\ t <> eof_idx g) (discarded_terms ev).
  Proof.
    induction n as [|n IH]; intros s top cs o ev Hcs H; cbn [spec_consume] in H.
    { inversion H; subst. constructor. }
    pose proof (gct_spec_holds V C g opts buf lexer s) as Hsp.
    destruct (gctx s) as [[s1 ot] ev1] eqn:Hg.
    pose proof (gct_no_discard _ _ _ _ Hsp) as Hnd.
    destruct (gct_stacks Hsp) as (Hcs1 & _).
    destruct ot as [t|]; [|inversion H; subst; rewrite Hnd; constructor].
    unfold top_state in H. rewrite Hcs in H. cbn [hd] in H.
    destruct (ckind top (tcol t)) as [k|] eqn:Hck; [|inversion H; subst; rewrite Hnd; constructor].
    destruct k; try (inversion H; subst; rewrite discarded_app, Hnd; constructor).
    destruct (Nat.eqb t (eof_idx g)) eqn:Heof; [inversion H; subst; rewrite Hnd; constructor|].
    destruct (sconsume n (consumex s1)) as [o' ev'] eqn:Hrec. inversion H; subst.
    rewrite discarded_app, Hnd. cbn [app discarded_terms]. constructor.
    - split; [assumption|]. now apply Nat.eqb_neq.
    - eapply (IH _ top cs); [|eassumption]. simp_ps. congruence.
  Qed.

  (* consume mode ends at the FIRST term the top state can act on: the m terms discarded before it all had
     error cells there; that term is not discarded but acted on, by the ordinary action, in the same iteration
     that leaves consume mode; stacks and context are those at the start of the phase *)
  Theorem C08_consume_stops_at_first_actionable_term n s top cs s' ev :
    ps_rec s = false -> ps_cons s = true -> ps_cursors s = top :: cs ->
    sconsume n s = (CoResume s', ev) ->
    resumes n s top s' ev /\
    Forall (fun t => ckind top (tcol t) = Some KError /\ t <> eof_idx g) (discarded_terms ev).
  Proof.
    intros Hr Hc Hcs H. split.
    - pose proof (consume_phase_refines n s top cs Hr Hc Hcs) as R. now rewrite H in R.
    - eapply spec_consume_discards; eassumption.
  Qed.

  (* <eof> with an error cell while discarding: the run ends at once with Reject *)
  Theorem C08_eof_while_discarding_fails s top cs s1 ev1 :
    ps_rec s = false -> ps_cons s = true -> ps_cursors s = top :: cs ->
    gctx s = (s1, Some (eof_idx g), ev1) -> ckind top (tcol (eof_idx g)) = Some KError ->
    stepx s = (inr (Reject, s1), ev1) /\
    (forall n, sconsume (S n) s = (CoFail s1, ev1)) /\
    (forall f out, run_fromx (S f) s out = (Reject, s1, out ++ filter visiblex ev1)).
  Proof.
    intros Hr Hc Hcs Hg Hk.
    assert (Hstep : stepx s = (inr (Reject, s1), ev1)).
    { destruct (gct_facts _ _ _ _ Hr Hg) as (Ht & _ & _ & _ & Hr1 & Hc1).
      rewrite (step_gct _ _ _ _ _ _ Hcs Hg).
      unfold cell_kind, term_col in Hk. destruct (cell tbl top (nterm_count g + eof_idx g)) as [e|] eqn:He; [|discriminate].
      assert (Hke : e_kind e = KError) by (destruct (e_kind e); congruence).
      rewrite (act_error _ _ _ _ He Hke), Hc1, Hc, Ht, Nat.eqb_refl. cbn [fst snd]. now rewrite app_nil_r. }
    split; [exact Hstep|]. split.
    - intros n. cbn [spec_consume]. rewrite Hg. unfold top_state. rewrite Hcs. cbn [hd]. rewrite Hk, Nat.eqb_refl. reflexivity.
    - intros f out. cbn [run_from]. rewrite Hstep. reflexivity.
  Qed.

  (* a lexical failure while discarding: likewise *)
  Theorem C08_lexfail_while_discarding_fails s top cs s1 ev1 :
    ps_cursors s = top :: cs -> gctx s = (s1, None, ev1) ->
    stepx s = (inr (Reject, s1), ev1) /\
    (forall n, sconsume (S n) s = (CoFail s1, ev1)) /\
    (forall f out, run_fromx (S f) s out = (Reject, s1, out ++ filter visiblex ev1)).
  Proof.
    intros Hcs Hg. pose proof (step_lexfail _ _ _ _ _ Hcs Hg) as Hstep.
    split; [exact Hstep|]. split.
    - intros n. cbn [spec_consume]. rewrite Hg. reflexivity.
    - intros f out. cbn [run_from]. rewrite Hstep. reflexivity.
  Qed.

  (* ================================================================================================ *)
  (* Invariants of whole runs                                                                          *)
  (* ================================================================================================ *)

  (* the last visited state of a finished run, and the run that stops just before its last iteration *)
  Lemma run_gh_last fuel : forall s out vis r s' out' vis',
    run_ghx fuel s out vis = (r, s', out', vis') -> r <> OutOfFuel ->
    exists vis0 sl ev n o,
      vis' = vis0 ++ [sl] /\ stepx sl = (inr (r, s'), ev) /\ out' = o ++ filter visiblex ev /\
      run_ghx n s out vis = (OutOfFuel, sl, o, vis0).
  Proof.
    induction fuel as [|f IH]; intros s out vis r s' out' vis' H Hr; cbn [run_gh] in H.
    { inversion H; subst. congruence. }
    destruct (stepx s) as [[s1|[r1 s1]] ev1] eqn:Hs.
    - destruct (IH _ _ _ _ _ _ _ H Hr) as (vis0 & sl & ev & n & o & H1 & H2 & H3 & H4).
      exists vis0, sl, ev, (S n), o. repeat split; try assumption. cbn [run_gh]. now rewrite Hs.
    - inversion H; subst. exists vis, s, ev1, 0, out. repeat split; auto.
  Qed.

  (* recovery mode and consume mode are never on together *)
  Definition modes_ok (s : pst) : Prop := ps_rec s = false \/ ps_cons s = false.

  Lemma step_modes_ok s : modes_ok s -> match fst (stepx s) with inl s' => modes_ok s' | inr (r, s') => True end.
  Proof.
    intros Hm. apply step_cases; cbn [fst]; auto.
    intros cursor cs s1 t ev1 r ev2 Hcs Hg Ha.
    destruct (gct_stacks Hg) as (_ & _ & _ & Hr1 & Hc1).
    inversion Ha; subst; cbn [fst]; auto; unfold modes_ok; simp_ps; auto.
    - rewrite Hr1, Hc1. exact Hm.
    - match goal with H : reducex _ _ = inl _ |- _ => destruct (do_reduce_inl H) as (ri & nst & c' & v & _ & _ & _ & _ & H5 & _) end.
      subst. simp_ps. auto.
  Qed.

  (* a final iteration never answers OutOfFuel *)
  Lemma step_not_oof s : match fst (stepx s) with inl _ => True | inr (r, _) => r <> OutOfFuel end.
  Proof.
    apply (step_cases V C g tbl opts buf cap lexer term_f err_f rule_f
             (fun x => match fst x with inl _ => True | inr (r, _) => r <> OutOfFuel end)); cbn [fst]; try discriminate.
    intros cursor cs s1 t ev1 r ev2 _ _ Ha. inversion Ha; subst; auto; try discriminate.
    destruct r0; cbn in *; try discriminate. tauto.
  Qed.

  (* state invariants of runs from the initial configuration *)
  Lemma run_state_inv (Inv : pst -> Prop) fuel c :
    (forall s, Inv s -> match fst (stepx s) with inl s' => Inv s' | inr (r, s') => True end) ->
    Inv (init c) ->
    let '(r, s', _, vis) := run_ghx fuel (init c) [] [] in Forall Inv vis /\ (r = OutOfFuel -> Inv s').
  Proof.
    intros Hst Hi.
    pose proof (run_gh_sinv V C g tbl opts buf cap lexer term_f err_f rule_f Inv
                  (fun r s' => r = OutOfFuel -> Inv s')) as X.
    specialize (X (fun s H _ => H)).
    assert (Hstep : forall s, Inv s ->
              match fst (stepx s) with inl s' => Inv s' | inr (r, s') => r = OutOfFuel -> Inv s' end).
    { intros s Hm. pose proof (Hst s Hm) as Y. pose proof (step_not_oof s) as Z.
      destruct (fst (stepx s)) as [s'|[r s']]; [exact Y|]. intros E. congruence. }
    specialize (X Hstep fuel (init c) [] []).
    destruct (run_ghx fuel (init c) [] []) as [[[r s'] out] vis].
    destruct X as [X1 X2]; [exact Hi|constructor|]. split; assumption.
  Qed.

  Theorem run_modes_ok fuel c :
    let '(r, s', _, vis) := run_ghx fuel (init c) [] [] in Forall modes_ok vis /\ (r = OutOfFuel -> modes_ok s').
  Proof. apply run_state_inv; [exact step_modes_ok|left; reflexivity]. Qed.

  (* a configuration has a pending lexeme (it <> end) only with a pending term *)
  Definition pending_ok (s : pst) : Prop := ps_it s = ps_end s \/ ps_term s <> None.

  Lemma step_pending_ok s : pending_ok s -> match fst (stepx s) with inl s' => pending_ok s' | inr (r, s') => True end.
  Proof.
    intros Hm. apply step_cases; cbn [fst]; auto.
    intros cursor cs s1 t ev1 r ev2 Hcs Hg Ha.
    assert (H1 : pending_ok s1).
    { inversion Hg; subst; auto; unfold pending_ok; simp_ps; right; discriminate. }
    inversion Ha; subst; cbn [fst]; auto; unfold pending_ok in *; simp_ps; auto.
    match goal with H : reducex _ _ = inl _ |- _ => destruct (do_reduce_inl H) as (ri & nst & c' & v & _ & _ & _ & _ & H5 & _) end.
    subst. simp_ps. auto.
  Qed.

  Theorem run_pending_ok fuel c :
    let '(r, s', _, vis) := run_ghx fuel (init c) [] [] in Forall pending_ok vis /\ (r = OutOfFuel -> pending_ok s').
  Proof. apply run_state_inv; [exact step_pending_ok|left; reflexivity]. Qed.

  (* ================================================================================================ *)
  (* T5 -- one report per error                                                                        *)
  (* ================================================================================================ *)
  Notation track := err_track.

  Definition neutral (e : event) : bool :=
    match e with EvSyntaxError _ _ | EvShiftErr _ _ => false | _ => true end.

  Lemma track_app b l1 l2 :
    track b (l1 ++ l2) = match track b l1 with Some b' => track b' l2 | None => None end.
  Proof.
    revert b; induction l1 as [|x l1 IH]; intros b; cbn [app err_track]; [reflexivity|].
    destruct x; try apply IH. destruct b; [reflexivity|apply IH].
  Qed.

  Lemma track_neutral b l : forallb neutral l = true -> track b l = Some b.
  Proof.
    induction l as [|x l IH]; cbn [forallb err_track]; [reflexivity|].
    intros H. apply andb_true_iff in H as [H1 H2]. destruct x; try discriminate; auto.
  Qed.

  Lemma neutral_lex lx : forallb neutral (map EvLex lx) = true.
  Proof. induction lx; cbn [map forallb neutral andb]; auto. Qed.

  Lemma gct_neutral s s1 ot ev1 : gct_spec V C g opts buf lexer s (s1, ot, ev1) -> forallb neutral ev1 = true.
  Proof.
    intros H; inversion H; subst; try reflexivity; rewrite forallb_app, neutral_lex; reflexivity.
  Qed.

  Lemma neutral_lc (s1 : pst) : forallb neutral (lc s1) = true.
  Proof. unfold lc. destruct (ps_cons s1); reflexivity. Qed.

  Lemma track_plain (s1 : pst) ev b : Forall (plain_ev s1) ev -> exists b', track b ev = Some b'.
  Proof.
    intros H; revert b; induction H as [|x l Hx _ IH]; intros b; cbn [err_track]; [eauto|].
    destruct Hx as [E|[[n E]|[E|[E|[n E]]]]]; subst x; apply IH.
  Qed.

  (* one iteration: the bit "an error is open" is the recovery-mode flag, before and after *)
  Lemma step_track s :
    match fst (stepx s) with
    | inl s' => track (ps_rec s) (snd (stepx s)) = Some (ps_rec s')
    | inr (r, s') => exists b, track (ps_rec s) (snd (stepx s)) = Some b
    end.
  Proof.
    apply step_cases; cbn [fst snd].
    - intros _. cbn [err_track]. eauto.
    - intros s1 ev1 Hg. rewrite (track_neutral _ _ (gct_neutral _ _ _ _ Hg)). eauto.
    - intros cursor cs s1 t ev1 r ev2 Hcs Hg Ha.
      destruct (gct_stacks Hg) as (_ & _ & _ & Hr1 & _).
      rewrite track_app, (track_neutral _ _ (gct_neutral _ _ _ _ Hg)), <- Hr1.
      inversion Ha; subst.
      + destruct r0 as [| | | |]; eapply track_plain; eassumption.
      + cbn [err_track]. simp_ps. reflexivity.
      + match goal with H : ps_rec s1 = false |- _ => rewrite H end. reflexivity.
      + cbn [err_track]. simp_ps. reflexivity.
      + cbn [err_track]. eauto.
      + rewrite track_app, (track_neutral _ _ (neutral_lc s1)). cbn [err_track]. simp_ps. reflexivity.
      + rewrite !track_app, (track_neutral _ _ (neutral_lc s1)). cbn [err_track]. simp_ps. reflexivity.
      + match goal with H : reducex _ _ = inl _ |- _ => destruct (do_reduce_inl H) as (ri & nst & c' & v & _ & _ & _ & _ & H5 & H6) end.
        subst. rewrite !track_app, (track_neutral _ _ (neutral_lc s1)).
        assert (Hp : track (ps_rec s1) pre = Some (ps_rec s1)).
        { match goal with H : pre = [] \/ _ |- _ => destruct H; subst pre; reflexivity end. }
        rewrite track_app, Hp. cbn [err_track]. simp_ps. reflexivity.
  Qed.

  (* Reading all lines of a run (the ghost [all_events], which is the output itself when verbose is on):
     a SyntaxError line never occurs while an earlier one is unanswered by a ShiftErr line; and at every loop
     head "an error is open" is exactly "recovery mode is on" -- so recovery mode is entered only by a report
     and left only by shifting the error symbol. *)
  Theorem C08_track_invariant fuel c :
    let '(r, s', _, vis) := run_ghx fuel (init c) [] [] in
    exists b, track false (all_eventsx vis) = Some b /\ (r = OutOfFuel -> b = ps_rec s').
  Proof.
    pose proof (run_gh_inv V C g tbl opts buf cap lexer term_f err_f rule_f
                  (fun vis s => track false (all_eventsx vis) = Some (ps_rec s))
                  (fun vis r s' => exists b, track false (all_eventsx vis) = Some b /\ (r = OutOfFuel -> b = ps_rec s'))) as X.
    assert (H1 : forall vis (s : pst), track false (all_eventsx vis) = Some (ps_rec s) ->
                 exists b, track false (all_eventsx vis) = Some b /\ (@OutOfFuel V = OutOfFuel -> b = ps_rec s)) by eauto.
    specialize (X H1). clear H1.
    assert (H2 : forall vis (s : pst), track false (all_eventsx vis) = Some (ps_rec s) ->
              match fst (stepx s) with
              | inl s' => track false (all_eventsx (vis ++ [s])) = Some (ps_rec s')
              | inr (r, s') => exists b, track false (all_eventsx (vis ++ [s])) = Some b /\ (r = OutOfFuel -> b = ps_rec s')
              end).
    { intros vis s Hi. pose proof (step_track s) as Y.
      assert (E : all_eventsx (vis ++ [s]) = all_eventsx vis ++ snd (stepx s)).
      { rewrite all_events_app. unfold all_events at 2. cbn [flat_map]. now rewrite app_nil_r. }
      rewrite E, track_app, Hi.
      pose proof (step_not_oof s) as Z'.
      destruct (fst (stepx s)) as [s'|[r s']]; [exact Y|]. destruct Y as [b Y]. exists b. split; [exact Y|congruence]. }
    specialize (X H2 fuel (init c) [] []).
    destruct (run_ghx fuel (init c) [] []) as [[[r s'] out] vis]. apply X. reflexivity.
  Qed.

  (* the list form: between two SyntaxError lines there is a ShiftErr line *)
  Lemma track_open_closed mid : track true mid = Some false -> exists q n, In (EvShiftErr q n) mid.
  Proof.
    induction mid as [|x mid IH]; cbn [err_track]; [discriminate|].
    destruct x; try (intros H; destruct (IH H) as (q & n & Hin); exists q, n; right; exact Hin).
    - intros _. eexists _, _. left. reflexivity.
    - discriminate.
  Qed.

  Lemma track_between b b' evs e1 p a mid p' a' e2 :
    track b evs = Some b' ->
    evs = e1 ++ [EvSyntaxError p a] ++ mid ++ [EvSyntaxError p' a'] ++ e2 ->
    exists q n, In (EvShiftErr q n) mid.
  Proof.
    intros H E. subst evs. rewrite track_app in H.
    destruct (track b e1) as [b1|]; [|discriminate].
    cbn [app err_track] in H. destruct b1; [discriminate|].
    rewrite track_app in H. destruct (track true mid) as [b2|] eqn:Hm; [|discriminate].
    cbn [app err_track] in H. destruct b2; [discriminate|]. now apply track_open_closed.
  Qed.

  Theorem C08_one_report_per_error fuel c r s' out vis e1 p a mid p' a' e2 :
    run_ghx fuel (init c) [] [] = (r, s', out, vis) ->
    all_eventsx vis = e1 ++ [EvSyntaxError p a] ++ mid ++ [EvSyntaxError p' a'] ++ e2 ->
    exists q n, In (EvShiftErr q n) mid.
  Proof.
    intros H E. pose proof (C08_track_invariant fuel c) as T. rewrite H in T. destruct T as (b & T & _).
    eapply track_between; eassumption.
  Qed.

  (* with verbose on, the ghost is the output stream *)
  Lemma run_out_verbose fuel c r s' out vis :
    o_verbose opts = true -> run_ghx fuel (init c) [] [] = (r, s', out, vis) -> out = all_eventsx vis.
  Proof.
    intros Hv H.
    pose proof (run_gh_out V C g tbl opts buf cap lexer term_f err_f rule_f fuel (init c) [] [] [] eq_refl) as X.
    rewrite H in X. cbn [app] in X. subst out.
    assert (E : forall l, filter visiblex l = l); [|apply E].
    intros l. induction l as [|x l IH]; cbn [filter]; [reflexivity|]. unfold visible at 1. rewrite Hv. cbn [orb]. now rewrite IH.
  Qed.

  Corollary C08_one_report_per_error_output fuel c r s' out e1 p a mid p' a' e2 :
    o_verbose opts = true ->
    run V C g tbl opts buf cap lexer term_f err_f rule_f fuel c = (r, s', out) ->
    out = e1 ++ [EvSyntaxError p a] ++ mid ++ [EvSyntaxError p' a'] ++ e2 ->
    exists q n, In (EvShiftErr q n) mid.
  Proof.
    intros Hv H E. unfold run in H. rewrite (run_gh_run V C g tbl opts buf cap lexer term_f err_f rule_f fuel (init c) [] []) in H.
    destruct (run_ghx fuel (init c) [] []) as [[[r0 s0] out0] vis] eqn:G. injection H as -> -> ->.
    rewrite (run_out_verbose _ _ _ _ _ _ Hv G) in E. eapply C08_one_report_per_error; eassumption.
  Qed.

  (* ================================================================================================ *)
  (* T4 -- why a run ends with Reject                                                                  *)
  (* ================================================================================================ *)
  Notation exhausted := (stack_exhausted V C g tbl).
  Notation eof_discarding := (eof_while_discarding V C g tbl opts buf lexer).
  Notation lexfail := (lexical_failure V C g opts buf lexer).

  Lemma plain_action_not_reject s t e s' : e_kind e <> KError -> fst (plain_action s t e) <> inr (Reject, s').
  Proof.
    intros Hk. unfold plain_action. destruct (e_kind e); try congruence.
    - destruct (rev (ps_values s)); cbn [fst]; discriminate.
    - destruct (e_arg e); [|cbn [fst]; discriminate].
      destruct (fullx _); [cbn [fst]; discriminate|]. destruct (Nat.ltb _ _); cbn [fst]; discriminate.
    - destruct (e_arg e); [|cbn [fst]; discriminate]. destruct (fullx _); cbn [fst]; discriminate.
    - destruct (e_arg e); [|cbn [fst]; discriminate].
      destruct (reducex s n) as [[s3 ev]|res] eqn:Hred; cbn [fst]; [discriminate|].
      apply do_reduce_inr in Hred. intros E. inversion E; subst. exact Hred.
    - destruct (e_arg e); [|cbn [fst]; discriminate].
      destruct (reducex s n) as [[s3 ev]|res] eqn:Hred; cbn [fst]; [discriminate|].
      apply do_reduce_inr in Hred. intros E. inversion E; subst. exact Hred.
  Qed.

  (* [act] answers Reject in two places only *)
  Lemma act_reject_inv s1 cursor t s' ev :
    actx s1 cursor t = (inr (Reject, s'), ev) ->
    exists e, cell tbl cursor (nterm_count g + t) = inl e /\ e_kind e = KError /\
      ((ps_cons s1 = true /\ ps_term s1 = Some (eof_idx g) /\ s' = s1 /\ ev = []) \/
       (ps_cons s1 = false /\ ps_rec s1 = true /\ tl (ps_cursors s1) = [] /\
        s' = set_stacks s1 [] (tl (ps_values s1)) /\ ev = [EvCouldNotRecover (ps_sp s1)])).
  Proof.
    intros H. destruct (cell tbl cursor (nterm_count g + t)) as [e|c] eqn:Hcell.
    2:{ rewrite (act_nocell _ _ _ _ Hcell) in H. discriminate. }
    destruct (kind_eqb (e_kind e) KError) eqn:Hke.
    - assert (Hk : e_kind e = KError) by (destruct (e_kind e); (reflexivity || discriminate)).
      exists e. split; [reflexivity|]. split; [exact Hk|].
      rewrite (act_error _ _ _ _ Hcell Hk) in H.
      destruct (ps_cons s1) eqn:Hc.
      + left. destruct (ps_term s1) as [x|]; [|discriminate].
        destruct (Nat.eqb x (eof_idx g)) eqn:Hx; [|discriminate]. apply Nat.eqb_eq in Hx. subst x.
        inversion H; subst. auto.
      + right. destruct (ps_rec s1); cbn [negb] in H; [|discriminate].
        unfold pop_stacks in H. destruct (tl (ps_cursors s1)) eqn:Htl; [|discriminate].
        inversion H; subst. auto.
    - assert (Hk : e_kind e <> KError) by (intros E; rewrite E in Hke; discriminate).
      exfalso. destruct (ps_cons s1) eqn:Hc.
      + rewrite (act_leaves_consume _ _ _ _ Hcell Hk Hc) in H.
        eapply plain_action_not_reject; [exact Hk|]. inversion H. eassumption.
      + rewrite (act_plain _ _ _ _ Hcell Hk Hc) in H.
        eapply plain_action_not_reject; [exact Hk|]. rewrite H. reflexivity.
  Qed.

  Lemma gct_rec s : ps_rec s = true -> gctx s = (s, Some (err_idx g), []).
  Proof. intros H. unfold get_current_term. now rewrite H. Qed.

  Lemma gct_fail_last s s1 ev1 :
    pending_ok s -> gctx s = (s1, None, ev1) -> exists ev0 p ch, ev1 = ev0 ++ [EvUnexpectedChar p ch].
  Proof.
    intros Hp Hg. pose proof (gct_spec_holds V C g opts buf lexer s) as Hsp. rewrite Hg in Hsp.
    inversion Hsp; subst; [destruct Hp; congruence|]. do 3 eexists; reflexivity.
  Qed.

  (* one iteration: Reject has exactly the three documented causes (and names its last lines) *)
  Theorem step_reject_inv s s' ev :
    modes_ok s -> pending_ok s -> stepx s = (inr (Reject, s'), ev) ->
    (exhausted s /\ ev = [EvCouldNotRecover (ps_sp s)] /\ s' = set_stacks s [] (tl (ps_values s))) \/
    (eof_discarding s /\ gctx s = (s', Some (eof_idx g), ev)) \/
    (lexfail s /\ gctx s = (s', None, ev) /\ exists ev0 p ch, ev = ev0 ++ [EvUnexpectedChar p ch]).
  Proof.
    intros Hm Hp H. destruct (ps_cursors s) as [|cursor cs] eqn:Hcs.
    { unfold step in H. rewrite Hcs in H. discriminate. }
    pose proof (gct_spec_holds V C g opts buf lexer s) as Hsp.
    destruct (gctx s) as [[s1 ot] ev1] eqn:Hg.
    destruct ot as [t|].
    2:{ rewrite (step_lexfail _ _ _ _ _ Hcs Hg) in H. inversion H; subst. right; right.
        split; [split; [congruence|eauto]|]. split; [reflexivity|]. eapply gct_fail_last; eassumption. }
    rewrite (step_gct _ _ _ _ _ _ Hcs Hg) in H.
    destruct (actx s1 cursor t) as [r ev2] eqn:Ha. cbn [fst snd] in H. inversion H; subst r ev. clear H.
    destruct (gct_stacks Hsp) as (Hcs1 & Hvs1 & _ & Hr1 & Hc1).
    destruct (act_reject_inv _ _ _ _ _ Ha) as (e & Hcell & Hk & [(Hc & Ht & -> & ->)|(Hc & Hr & Htl & -> & ->)]).
    - (* <eof> while discarding *)
      right; left. assert (Hrs : ps_rec s = false) by (destruct Hm as [Hm|Hm]; congruence).
      destruct (gct_term Hsp) as [[H6 _]|[_ Ht']]; [congruence|]. assert (t = eof_idx g) by congruence. subst t.
      rewrite app_nil_r. split; [|reflexivity].
      split; [exact Hrs|]. split; [congruence|]. split; [congruence|]. exists s1, ev1. split; [exact Hg|].
      unfold top_state, cell_kind, term_col. rewrite Hcs. cbn [hd]. now rewrite Hcell, Hk.
    - (* the stack is exhausted *)
      left. assert (Hrs : ps_rec s = true) by congruence. rewrite (gct_rec s Hrs) in Hg. inversion Hg; subst s1 t ev1.
      cbn [app]. split; [|split; reflexivity].
      split; [exact Hrs|]. split; [exact Hc|]. rewrite Hcs in Htl. cbn [tl] in Htl. subst cs. exists cursor.
      split; [exact Hcs|]. unfold rejects_err, cell_kind, err_col, term_col. now rewrite Hcell, Hk.
  Qed.

  (* conversely, each cause ends the run with Reject in that very iteration *)
  Theorem step_reject_intro s :
    exhausted s \/ eof_discarding s \/ lexfail s -> exists s' ev, stepx s = (inr (Reject, s'), ev).
  Proof.
    intros [(Hr & Hc & st & Hcs & Hj)|[(Hr & Hc & Hne & s1 & ev1 & Hg & Hk)|(Hne & s1 & ev1 & Hg)]].
    - eexists _, _. rewrite (step_pop s st [] Hr Hc Hcs Hj). reflexivity.
    - destruct (ps_cursors s) as [|top cs] eqn:Hcs; [congruence|].
      unfold top_state in Hk. rewrite Hcs in Hk. cbn [hd] in Hk.
      eexists _, _. apply (C08_eof_while_discarding_fails s top cs s1 ev1 Hr Hc Hcs Hg Hk).
    - destruct (ps_cursors s) as [|top cs] eqn:Hcs; [congruence|].
      eexists _, _. apply (step_lexfail _ _ _ _ _ Hcs Hg).
  Qed.

  Theorem step_reject_iff s :
    modes_ok s -> pending_ok s ->
    ((exists s' ev, stepx s = (inr (Reject, s'), ev)) <-> (exhausted s \/ eof_discarding s \/ lexfail s)).
  Proof.
    intros Hm Hp. split; [|apply step_reject_intro].
    intros (s' & ev & H). destruct (step_reject_inv _ _ _ Hm Hp H) as [(X & _)|[(X & _)|(X & _)]]; auto.
  Qed.

  (* the three causes exclude each other *)
  Lemma reject_reasons_exclusive s :
    (exhausted s -> ~ eof_discarding s /\ ~ lexfail s) /\ (eof_discarding s -> ~ lexfail s).
  Proof.
    split.
    - intros (Hr & Hc & _). split.
      + intros (Hr' & _). congruence.
      + intros (_ & s1 & ev1 & Hg). rewrite (gct_rec s Hr) in Hg. discriminate.
    - intros (_ & _ & _ & s1 & ev1 & Hg & _) (_ & s2 & ev2 & Hg'). congruence.
  Qed.

  (* T4. A run (from the initial configuration, any fuel) that ends with Reject ended, at the configuration sl
     at the head of its last iteration, for one of exactly three reasons:
       (A) pop phase, stack exhausted: sl is recovering, its only stacked state rejects the error symbol; the
           trace ends with CouldNotRecover, the reported error is still open, the final cursor stack is empty;
       (B) <eof> is the pending term while discarding and the top state has an error cell for it;
       (C) the lexer failed (the trace ends with UnexpectedChar) -- while discarding if sl is in consume mode,
           otherwise in normal mode, where every error reported earlier has been answered by a shift of the
           error symbol ("after recovery"); never in recovery mode. *)
  Theorem C08_fails_iff fuel c s' out vis :
    run_ghx fuel (init c) [] [] = (Reject, s', out, vis) ->
    exists vis0 sl,
      vis = vis0 ++ [sl] /\ modes_ok sl /\
      track false (all_eventsx vis0) = Some (ps_rec sl) /\
      ( (exhausted sl /\ ps_cursors s' = [] /\
         exists ev0, all_eventsx vis = ev0 ++ [EvCouldNotRecover (ps_sp sl)])
        \/ (eof_discarding sl /\ exists ev1, gctx sl = (s', Some (eof_idx g), ev1))
        \/ (lexfail sl /\ ps_rec sl = false /\
            exists ev0 p ch, all_eventsx vis = ev0 ++ [EvUnexpectedChar p ch]) ).
  Proof.
    intros H.
    destruct (run_gh_last _ _ _ _ _ _ _ _ H ltac:(discriminate)) as (vis0 & sl & ev & n & o & Hv & Hs & _ & Hn).
    pose proof (run_modes_ok n c) as M. rewrite Hn in M. destruct M as [_ M]. specialize (M eq_refl).
    pose proof (run_pending_ok n c) as P. rewrite Hn in P. destruct P as [_ P]. specialize (P eq_refl).
    pose proof (C08_track_invariant n c) as T. rewrite Hn in T. destruct T as (b & T & Tb). specialize (Tb eq_refl). subst b.
    exists vis0, sl. split; [exact Hv|]. split; [exact M|]. split; [exact T|].
    assert (E : all_eventsx vis = all_eventsx vis0 ++ ev).
    { subst vis. rewrite all_events_app. unfold all_events at 2. cbn [flat_map]. now rewrite Hs, app_nil_r. }
    destruct (step_reject_inv _ _ _ M P Hs) as [(X & -> & ->)|[(X & Hg)|(X & Hg & ev0 & p & ch & ->)]].
    - left. split; [exact X|]. split; [reflexivity|]. exists (all_eventsx vis0). exact E.
    - right; left. split; [exact X|]. eauto.
    - right; right. split; [exact X|]. split.
      + destruct (ps_rec sl) eqn:Hr; [|reflexivity]. rewrite (gct_rec sl Hr) in Hg. discriminate.
      + exists (all_eventsx vis0 ++ ev0), p, ch. now rewrite E, app_assoc.
  Qed.

  (* ... and conversely: a run that reaches a configuration with one of the three causes ends with Reject *)
  Theorem C08_fails_iff_converse s f out :
    exhausted s \/ eof_discarding s \/ lexfail s ->
    exists s' ev, run_fromx (S f) s out = (Reject, s', out ++ filter visiblex ev).
  Proof.
    intros H. destruct (step_reject_intro s H) as (s' & ev & Hs). exists s', ev. cbn [run_from]. now rewrite Hs.
  Qed.

  (* ================================================================================================ *)
  (* The whole run: the driver refines [spec_run]                                                      *)
  (* ================================================================================================ *)
  Notation srun := (spec_run V C g tbl opts buf cap lexer term_f err_f rule_f).
  Notation ordinaryx := (ordinary V C g tbl buf cap term_f err_f rule_f).

  Definition continue_with (f : nat) (x : outcome * list event) : option (result V * pst * list event) :=
    match x with
    | (inl s', ev) => prepend ev (srun f s')
    | (inr (r, s'), ev) => Some (r, s', ev)
    end.

  Lemma prepend_prepend a b (x : option (result V * pst * list event)) : prepend a (prepend b x) = prepend (a ++ b) x.
  Proof. destruct x as [[[r s] ev]|]; cbn [prepend]; [now rewrite app_assoc|reflexivity]. Qed.

  Lemma prepend_some a (x : option (result V * pst * list event)) r s ev :
    prepend a x = Some (r, s, ev) -> exists ev', x = Some (r, s, ev') /\ ev = a ++ ev'.
  Proof. destruct x as [[[r0 s0] ev0]|]; cbn [prepend]; [|discriminate]. intros H; inversion H; subst. eauto. Qed.

  Lemma steps_modes_ok k : forall s s' ev, modes_ok s -> steps k s = (inl s', ev) -> modes_ok s'.
  Proof.
    induction k as [|k IH]; intros s s' ev Hm H; cbn [steps] in H.
    - inversion H; subst; assumption.
    - pose proof (step_modes_ok s Hm) as Y. destruct (stepx s) as [[s1|x] ev1]; [|discriminate]. cbn [fst] in Y.
      destruct (steps k s1) as [r ev2] eqn:E. inversion H; subst. eapply IH; eassumption.
  Qed.

  Section WholeRun.
    Variable f : nat.
    Hypothesis IH : forall s r s' ev, modes_ok s -> srun f s = Some (r, s', ev) -> r <> OutOfFuel ->
                                       exists m, steps m s = (inr (r, s'), ev).

    (* after k iterations the driver has performed x, preceded by the lines evA; the specification goes on from x *)
    Lemma continue_sound s k evA x r s' ev :
      modes_ok s -> steps k s = (fst x, evA ++ snd x) ->
      prepend evA (continue_with f x) = Some (r, s', ev) -> r <> OutOfFuel ->
      exists m, steps m s = (inr (r, s'), ev).
    Proof.
      intros Hm Hk H Hr. destruct x as [[s2|[r0 s0]] ev2]; cbn [fst snd continue_with] in *.
      - rewrite prepend_prepend in H. apply prepend_some in H as (ev3 & H & ->).
        destruct (IH s2 r s' ev3 (steps_modes_ok _ _ _ _ Hm Hk) H Hr) as (m & Hs).
        exists (k + m). rewrite (steps_add _ _ _ _ _ Hk), Hs. reflexivity.
      - cbn [prepend] in H. inversion H; subst. exists k. exact Hk.
    Qed.

    Lemma srun_step_sound s r s' ev :
      modes_ok s -> srun (S f) s = Some (r, s', ev) -> r <> OutOfFuel -> exists m, steps m s = (inr (r, s'), ev).
    Proof.
      intros Hm H Hr. cbn [spec_run] in H.
      destruct (ps_cursors s) as [|top cs] eqn:Hcs.
      { inversion H; subst. exists 1. rewrite steps_1. unfold step. rewrite Hcs. reflexivity. }
      destruct (ps_cons s) eqn:Hc.
      - (* consume phase, then the ordinary action *)
        assert (Hrec : ps_rec s = false) by (destruct Hm; congruence).
        pose proof (consume_phase_refines (S f) s top cs Hrec Hc Hcs) as R.
        destruct (sconsume (S f) s) as [[s1|s1|s1|s1] evc].
        + destruct R as (m & t & e & _ & _ & Ht & He & Hk & _ & Hc1 & Hcs1 & _ & _ & Hst).
          assert (E : ordinaryx s1 (term_or0 s1) = plain_action s1 t e).
          { unfold ordinary, top_state, term_or0. rewrite Hcs1, Hcs, Ht. cbn [hd]. now apply act_plain. }
          rewrite E in H. eapply (continue_sound s (S m) evc (plain_action s1 t e)); eassumption.
        + inversion H; subst. destruct R as (m & _ & Hst). eauto.
        + discriminate.
        + inversion H; subst. congruence.
      - destruct (ps_rec s) eqn:Hrec.
        + (* recovering: drop to an accepting state, then its action on the error symbol *)
          rewrite <- Hcs in H.
          destruct (popdef (ps_cursors s)) eqn:Hdef; [|discriminate].
          assert (Hne : ps_cursors s <> []) by congruence.
          pose proof (drop_refines s Hrec Hc Hne Hdef) as D.
          unfold spec_drop in *. destruct (dropc (ps_cursors s)) as [k|] eqn:Hd; cbn [as_outcome] in D.
          * destruct (C08_pops_only_rejecting_states _ _ Hd) as (_ & _ & st & _ & Hhd & Ha).
            set (s1 := set_stacks s (skipn k (ps_cursors s)) (skipn k (ps_values s))) in *.
            destruct (skipn k (ps_cursors s)) as [|st' below] eqn:Hsk; [discriminate|]. cbn [hd_error] in Hhd.
            inversion Hhd; subst st'.
            assert (Hs1 : stepx s1 = ordinaryx s1 (err_idx g)).
            { unfold ordinary, top_state. apply (step_rec s1 st below); [exact Hrec|reflexivity]. }
            rewrite <- Hs1 in H.
            eapply (continue_sound s (pop_steps (ps_cursors s) + 1) _ (stepx s1)); try eassumption.
            rewrite (steps_add _ 1 _ _ _ D), steps_1. reflexivity.
          * inversion H; subst. eauto.
        + (* normal mode *)
          destruct (gctx s) as [[s1 ot] ev1] eqn:Hg.
          destruct ot as [a|].
          2:{ inversion H; subst. exists 1. rewrite steps_1, (step_lexfail _ _ _ _ _ Hcs Hg). reflexivity. }
          destruct (gct_facts _ _ _ _ Hrec Hg) as (_ & Hcs1 & _).
          unfold is_error_cell, cell_kind in H.
          destruct (cell tbl top (tcol a)) as [e|c] eqn:He.
          2:{ eapply (continue_sound s 1 ev1 (ordinaryx s1 a)); try eassumption.
              unfold ordinary, top_state. rewrite Hcs1, Hcs. cbn [hd].
              rewrite steps_1, (step_gct _ _ _ _ _ _ Hcs Hg). reflexivity. }
          destruct (kind_eqb (e_kind e) KError) eqn:Hke.
          * assert (Hk : e_kind e = KError) by (destruct (e_kind e); (reflexivity || discriminate)).
            rewrite Hk in H. rewrite <- Hcs in H.
            destruct (popdef (ps_cursors s)) eqn:Hdef; [|discriminate].
            destruct (pop_phase_refines _ _ _ _ _ _ _ Hrec Hc Hcs Hg He Hk Hdef) as [P _].
            destruct (spop s1) as [[s2 ev2]|[s2 ev2]]; cbn [as_outcome fst snd] in P.
            -- eapply (continue_sound s _ (ev1 ++ ev2) (inl s2, [])); try eassumption.
               ++ cbn [fst snd]. rewrite app_nil_r. exact P.
               ++ cbn [continue_with]. rewrite prepend_prepend, app_nil_r. exact H.
            -- inversion H; subst. eauto.
          * assert (Hx : (if match e_kind e with KError => true | _ => false end then
                           (if popdef (top :: cs) then match spop s1 with
                                                        | inl (s'0, ev0) => prepend (ev1 ++ ev0) (srun f s'0)
                                                        | inr (s'0, ev0) => Some (Reject, s'0, ev1 ++ ev0)
                                                        end else None)
                          else prepend ev1 (continue_with f (ordinaryx s1 a)))
                         = prepend ev1 (continue_with f (ordinaryx s1 a))).
            { destruct (e_kind e); try reflexivity. discriminate. }
            unfold continue_with in Hx. rewrite Hx in H.
            eapply (continue_sound s 1 ev1 (ordinaryx s1 a)); try eassumption.
            unfold ordinary, top_state. rewrite Hcs1, Hcs. cbn [hd].
            rewrite steps_1, (step_gct _ _ _ _ _ _ Hcs Hg). reflexivity.
    Qed.
  End WholeRun.

  (* C08_refines. Whenever the big-step specification predicts a result (i.e. it stays in its domain and the
     fuel suffices), the driver reaches exactly that result, in exactly that final configuration, having
     written exactly those lines. No assumption on grammar, table, lexer, options, buffer, algebra; s is any
     configuration in which recovery mode and consume mode are not both on (the initial one, in particular). *)
  Theorem C08_refines n : forall s r s' ev,
    modes_ok s -> srun n s = Some (r, s', ev) -> r <> OutOfFuel ->
    exists m, steps m s = (inr (r, s'), ev).
  Proof.
    induction n as [|n IH]; intros s r s' ev Hm H Hr.
    - cbn [spec_run] in H. inversion H; subst. congruence.
    - eapply srun_step_sound; eassumption.
  Qed.

  Corollary C08_refines_run n c r s' ev :
    srun n (init c) = Some (r, s', ev) -> r <> OutOfFuel ->
    exists m, forall fuel, m <= fuel ->
      run V C g tbl opts buf cap lexer term_f err_f rule_f fuel c = (r, s', filter visiblex ev).
  Proof.
    intros H Hr. destruct (C08_refines n (init c) r s' ev (or_introl eq_refl) H Hr) as (m & Hs).
    exists m. intros fuel Hf. unfold run. replace fuel with (m + (fuel - m)) by lia.
    now rewrite (steps_run_final _ _ _ _ _ _ _ Hs).
  Qed.

  (* ---------- the converse: the specification predicts every finished run (inside its domain) ---------- *)
  Lemma steps_final_unique a b s x y e1 e2 :
    steps a s = (inr x, e1) -> steps b s = (inr y, e2) -> x = y /\ e1 = e2.
  Proof.
    intros Ha Hb. pose proof (steps_stop a b s x e1 Ha) as H1. pose proof (steps_stop b a s y e2 Hb) as H2.
    rewrite Nat.add_comm in H2. rewrite H1 in H2. inversion H2; auto.
  Qed.

  Lemma steps_split a m s s2 e1 x e :
    steps a s = (inl s2, e1) -> steps m s = (inr x, e) ->
    a < m /\ exists e2, steps (m - a) s2 = (inr x, e2) /\ e = e1 ++ e2.
  Proof.
    intros Ha Hm. destruct (Nat.le_gt_cases m a) as [Hle|Hlt].
    - pose proof (steps_stop m (a - m) s x e Hm) as H. replace (m + (a - m)) with a in H by lia. congruence.
    - split; [exact Hlt|]. pose proof (steps_add a (m - a) s s2 e1 Ha) as H.
      replace (a + (m - a)) with m in H by lia. rewrite Hm in H.
      destruct (steps (m - a) s2) as [r2 e2]. cbn [fst snd] in H. inversion H; subst. eauto.
  Qed.

  Section WholeRunConverse.
    Variable m : nat.
    Hypothesis IH : forall m', m' < m -> forall s n r s' ev,
      modes_ok s -> steps m' s = (inr (r, s'), ev) -> m' <= n -> srun n s = None \/ srun n s = Some (r, s', ev).

    Lemma continue_complete f s k evA x r s' ev :
      modes_ok s -> 1 <= k -> steps k s = (fst x, evA ++ snd x) ->
      steps m s = (inr (r, s'), ev) -> m <= S f ->
      prepend evA (continue_with f x) = None \/ prepend evA (continue_with f x) = Some (r, s', ev).
    Proof.
      intros Hm Hk1 Hk Hs Hle. destruct x as [[s2|[r0 s0]] ev2]; cbn [fst snd continue_with] in *.
      - destruct (steps_split _ _ _ _ _ _ _ Hk Hs) as (Hlt & e2 & H2 & ->).
        destruct (IH (m - k) ltac:(lia) s2 f r s' e2 (steps_modes_ok _ _ _ _ Hm Hk) H2 ltac:(lia)) as [E|E]; rewrite E.
        + left. reflexivity.
        + right. cbn [prepend]. now rewrite !app_assoc.
      - destruct (steps_final_unique _ _ _ _ _ _ _ Hk Hs) as [E1 E2]. inversion E1; subst. right. reflexivity.
    Qed.

    Lemma srun_step_complete f s r s' ev :
      modes_ok s -> steps m s = (inr (r, s'), ev) -> m <= S f ->
      srun (S f) s = None \/ srun (S f) s = Some (r, s', ev).
    Proof.
      intros Hm Hs Hle. cbn [spec_run].
      destruct (ps_cursors s) as [|top cs] eqn:Hcs.
      { right. assert (H1 : steps 1 s = (inr (Crash CrEmptyStack, s), [])).
        { rewrite steps_1. unfold step. rewrite Hcs. reflexivity. }
        destruct (steps_final_unique _ _ _ _ _ _ _ H1 Hs) as [E1 E2]. inversion E1; subst. reflexivity. }
      destruct (ps_cons s) eqn:Hc.
      - assert (Hrec : ps_rec s = false) by (destruct Hm; congruence).
        pose proof (consume_phase_refines (S f) s top cs Hrec Hc Hcs) as R.
        destruct (sconsume (S f) s) as [[s1|s1|s1|s1] evc].
        + destruct R as (j & t & e & _ & _ & Ht & He & Hk & _ & Hc1 & Hcs1 & _ & _ & Hst).
          assert (E : ordinaryx s1 (term_or0 s1) = plain_action s1 t e).
          { unfold ordinary, top_state, term_or0. rewrite Hcs1, Hcs, Ht. cbn [hd]. now apply act_plain. }
          rewrite E. apply (continue_complete f s (S j) evc (plain_action s1 t e) r s' ev); auto. lia.
        + destruct R as (j & _ & Hst). destruct (steps_final_unique _ _ _ _ _ _ _ Hst Hs) as [E1 E2].
          inversion E1; subst. right. reflexivity.
        + left. reflexivity.
        + destruct R as (Hst & _). destruct (steps_split _ _ _ _ _ _ _ Hst Hs) as (Hlt & _). lia.
      - destruct (ps_rec s) eqn:Hrec.
        + rewrite <- Hcs.
          destruct (popdef (ps_cursors s)) eqn:Hdef; [|left; reflexivity].
          assert (Hne : ps_cursors s <> []) by congruence.
          pose proof (drop_refines s Hrec Hc Hne Hdef) as D.
          unfold spec_drop in *. destruct (dropc (ps_cursors s)) as [k|] eqn:Hd; cbn [as_outcome] in D.
          * destruct (C08_pops_only_rejecting_states _ _ Hd) as (_ & _ & st & _ & Hhd & Ha).
            set (s1 := set_stacks s (skipn k (ps_cursors s)) (skipn k (ps_values s))) in *.
            destruct (skipn k (ps_cursors s)) as [|st' below] eqn:Hsk; [discriminate|]. cbn [hd_error] in Hhd.
            inversion Hhd; subst st'.
            assert (Hs1 : stepx s1 = ordinaryx s1 (err_idx g)).
            { unfold ordinary, top_state. apply (step_rec s1 st below); [exact Hrec|reflexivity]. }
            rewrite <- Hs1.
            apply (continue_complete f s (pop_steps (ps_cursors s) + 1) _ (stepx s1) r s' ev); auto; try lia.
            rewrite (steps_add _ 1 _ _ _ D), steps_1. reflexivity.
          * destruct (steps_final_unique _ _ _ _ _ _ _ D Hs) as [E1 E2]. inversion E1; subst. right. reflexivity.
        + destruct (gctx s) as [[s1 ot] ev1] eqn:Hg.
          destruct ot as [a|].
          2:{ right. assert (H1 : steps 1 s = (inr (Reject, s1), ev1)).
              { rewrite steps_1, (step_lexfail _ _ _ _ _ Hcs Hg). reflexivity. }
              destruct (steps_final_unique _ _ _ _ _ _ _ H1 Hs) as [E1 E2]. inversion E1; subst. reflexivity. }
          destruct (gct_facts _ _ _ _ Hrec Hg) as (_ & Hcs1 & _).
          assert (Hord : steps 1 s = (fst (ordinaryx s1 a), ev1 ++ snd (ordinaryx s1 a))).
          { unfold ordinary, top_state. rewrite Hcs1, Hcs. cbn [hd].
            rewrite steps_1, (step_gct _ _ _ _ _ _ Hcs Hg). reflexivity. }
          unfold is_error_cell, cell_kind.
          destruct (cell tbl top (tcol a)) as [e|c] eqn:He.
          2:{ apply (continue_complete f s 1 ev1 (ordinaryx s1 a) r s' ev); auto. }
          destruct (kind_eqb (e_kind e) KError) eqn:Hke.
          * assert (Hk : e_kind e = KError) by (destruct (e_kind e); (reflexivity || discriminate)).
            rewrite Hk. rewrite <- Hcs.
            destruct (popdef (ps_cursors s)) eqn:Hdef; [|left; reflexivity].
            destruct (pop_phase_refines _ _ _ _ _ _ _ Hrec Hc Hcs Hg He Hk Hdef) as [P _].
            destruct (spop s1) as [[s2 ev2]|[s2 ev2]]; cbn [as_outcome fst snd] in P.
            -- pose proof (continue_complete f s (S (pop_steps (ps_cursors s))) (ev1 ++ ev2) (inl s2, []) r s' ev Hm ltac:(lia)) as X.
               cbn [fst snd continue_with] in X. rewrite prepend_prepend, !app_nil_r in X. now apply X.
            -- destruct (steps_final_unique _ _ _ _ _ _ _ P Hs) as [E1 E2]. inversion E1; subst. right. reflexivity.
          * assert (Hx : forall (A : Type) (x y : A),
                           (if match e_kind e with KError => true | _ => false end then x else y) = y).
            { intros A x y. destruct (e_kind e); try reflexivity. discriminate. }
            rewrite Hx. apply (continue_complete f s 1 ev1 (ordinaryx s1 a) r s' ev); auto.
    Qed.
  End WholeRunConverse.

  (* If the driver finishes within m iterations, the specification run with at least m fuel either leaves its
     domain (None: some cell it must look at does not exist -- then the driver's result is a crash) or predicts
     exactly the driver's result, final configuration and lines. *)
  Theorem C08_refines_converse m : forall s n r s' ev,
    modes_ok s -> steps m s = (inr (r, s'), ev) -> m <= n ->
    srun n s = None \/ srun n s = Some (r, s', ev).
  Proof.
    induction m as [m IH] using lt_wf_ind. intros s n r s' ev Hm Hs Hle.
    destruct n as [|f].
    - assert (m = 0) by lia. subst m. cbn [steps] in Hs. discriminate.
    - eapply srun_step_complete; eassumption.
  Qed.

  Lemma run_from_steps fuel : forall s out r s' out',
    run_fromx fuel s out = (r, s', out') -> r <> OutOfFuel ->
    exists m ev, m <= fuel /\ steps m s = (inr (r, s'), ev) /\ out' = out ++ filter visiblex ev.
  Proof.
    induction fuel as [|f IH]; intros s out r s' out' H Hr; cbn [run_from] in H.
    { inversion H; subst. congruence. }
    destruct (stepx s) as [[s1|[r1 s1]] ev1] eqn:Hs.
    - destruct (IH _ _ _ _ _ H Hr) as (m & ev & Hm & Hst & ->).
      exists (S m), (ev1 ++ ev). split; [lia|]. split.
      + rewrite (steps_S_inl _ _ _ _ Hs), Hst. reflexivity.
      + now rewrite filter_app, app_assoc.
    - inversion H; subst. exists 1, ev1. split; [lia|]. split; [|reflexivity]. rewrite steps_1, Hs. reflexivity.
  Qed.

  (* both directions, for the real entry point: a finished run (any result but OutOfFuel) is the run the
     specification predicts with the same fuel, unless the specification's domain was left *)
  Corollary C08_run_predicted fuel c r s' out :
    run V C g tbl opts buf cap lexer term_f err_f rule_f fuel c = (r, s', out) -> r <> OutOfFuel ->
    srun fuel (init c) = None \/
    exists ev, srun fuel (init c) = Some (r, s', ev) /\ out = filter visiblex ev.
  Proof.
    intros H Hr. unfold run in H. destruct (run_from_steps _ _ _ _ _ _ H Hr) as (m & ev & Hm & Hst & ->).
    destruct (C08_refines_converse m (init c) fuel r s' ev (or_introl eq_refl) Hst Hm) as [E|E]; [left; exact E|].
    right. exists ev. split; [exact E|reflexivity].
  Qed.
End Refines.

(* ---------- axioms used: none ---------- *)
Print Assumptions drop_refines.
Print Assumptions pop_phase_refines.
Print Assumptions pop_phase_refines_some.
Print Assumptions pop_phase_refines_none.
Print Assumptions pop_phase_undefined_crashes.
Print Assumptions C08_no_pop_when_top_accepts.
Print Assumptions C08_keeps_lower_values.
Print Assumptions C08_pops_only_rejecting_states.
Print Assumptions recovering_step.
Print Assumptions recovering_step_shift_err.
Print Assumptions recovering_step_reduce.
Print Assumptions recovering_step_trichotomy.
Print Assumptions consume_phase_refines.
Print Assumptions C08_consume_stops_at_first_actionable_term.
Print Assumptions C08_eof_while_discarding_fails.
Print Assumptions step_reject_iff.
Print Assumptions C08_fails_iff.
Print Assumptions C08_fails_iff_converse.
Print Assumptions C08_track_invariant.
Print Assumptions C08_one_report_per_error.
Print Assumptions C08_one_report_per_error_output.
Print Assumptions C08_refines.
Print Assumptions C08_refines_run.
Print Assumptions C08_refines_converse.
Print Assumptions C08_run_predicted.
