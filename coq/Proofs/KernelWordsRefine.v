(* State identification on words.  ctpg.hpp keeps an LR state's kernel as a cbitset over item indices
   (kernel.set(make_situation_idx(info))) and identifies states with states[i].kernel == kernel, i.e. cbitset::operator==
   on whole 64-bit words.  The generator mirror Model/LRGen.v keeps the kernel as a list of items and compares with
   same_items (mutual inclusion).  Here: for every grammar with the wfx facts and every kernel of well-formed items the
   word-level kernel is built without a throw, is well-formed and clean, its members are exactly the item indices of the
   list, and the word comparison of two such kernels is same_items of the lists.  Outside the address space the set throws. *)
From Ctpg Require Import Base.Prelude Model.Grammar Model.LRGen Model.Containers Model.LRGenWords
     Proofs.ContainersBits Proofs.LRGenWordsRefine Proofs.CellBasics Proofs.GenWf Proofs.GenClosure.
From Coq Require Import NArith Lia List Bool.
Import ListNotations.

Definition w_kernel (g : grammar) (k : list item) : res cbitset :=
  fold_left (fun acc i => match acc with Ok b => cb_set b (N.of_nat (item_idx g i)) | r => r end) k
            (Ok (cb_new (N.of_nat (address_space g)))).

(* ------------------------------------------------------------------ one set, membership form *)
Lemma set_mem : forall b k n, cb_wf b -> cb_n b = N.of_nat n -> k < n ->
  exists b', cb_set b (N.of_nat k) = Ok b' /\ cb_wf b' /\ cb_n b' = cb_n b /\ (cb_clean b -> cb_clean b') /\
             (forall j, j < n -> cb_mem b' (N.of_nat j) = Nat.eqb j k || cb_mem b (N.of_nat j)).
Proof.
  intros b k n Hwf Hn Hk.
  destruct (set_ok b k n Hwf Hn Hk) as (b' & Hs & Hwf' & Hn' & Hcl & _).
  exists b'. split; [exact Hs |]. split; [exact Hwf' |]. split; [exact Hn' |]. split; [exact Hcl |].
  intros j Hj.
  assert (Hb' : b' = cb_step b (BSet (N.of_nat k))). { unfold cb_step. cbn [cb_apply]. rewrite Hs. reflexivity. }
  rewrite Hb'. rewrite cb_step_mem by (try exact Hwf; lia). cbn [sb_step].
  assert (Hlt : (N.of_nat k <? cb_n b)%N = true) by (apply N.ltb_lt; lia).
  rewrite Hlt.
  destruct (N.eqb_spec (N.of_nat j) (N.of_nat k)) as [He | He]; destruct (Nat.eqb_spec j k) as [He' | He'];
    try reflexivity; exfalso; lia.
Qed.

Lemma fold_not_ok : forall g k r, (forall b, r <> Ok b) ->
  fold_left (fun acc i => match acc with Ok b => cb_set b (N.of_nat (item_idx g i)) | r => r end) k r = r.
Proof.
  intros g k. induction k as [| i k IH]; intros r Hr; cbn [fold_left]; [reflexivity |].
  destruct r as [b | |]; [exfalso; apply (Hr b); reflexivity | |]; apply IH; intros b; discriminate.
Qed.

Section Kernel.
  Variable g : grammar.
  Hypothesis WFX : wfx_facts g.

  Let step := fun (acc : res cbitset) (i : item) =>
                match acc with Ok b => cb_set b (N.of_nat (item_idx g i)) | r => r end.

  (* the fold, generalised over the accumulator *)
  Lemma fold_kernel : forall k b, Forall (item_okP g) k ->
    cb_wf b -> cb_clean b -> cb_n b = N.of_nat (address_space g) ->
    exists b', fold_left step k (Ok b) = Ok b' /\ cb_wf b' /\ cb_clean b' /\ cb_n b' = N.of_nat (address_space g) /\
      forall j, j < address_space g ->
        cb_mem b' (N.of_nat j) = existsb (fun i => Nat.eqb j (item_idx g i)) k || cb_mem b (N.of_nat j).
  Proof.
    intros k. induction k as [| i k IH]; intros b Hok Hwf Hcl Hn.
    - exists b. cbn [fold_left existsb orb]. split; [reflexivity |]. split; [exact Hwf |]. split; [exact Hcl |].
      split; [exact Hn |]. intros j Hj. reflexivity.
    - inversion Hok as [| i' k' Hi Hk]; subst i' k'.
      pose proof (item_idx_lt g WFX i Hi) as Hlt.
      destruct (set_mem b (item_idx g i) (address_space g) Hwf Hn Hlt) as (b1 & Hs & Hwf1 & Hn1 & Hcl1 & Hm1).
      assert (Hn1' : cb_n b1 = N.of_nat (address_space g)) by (rewrite Hn1; exact Hn).
      destruct (IH b1 Hk Hwf1 (Hcl1 Hcl) Hn1') as (b' & Hf & Hwf' & Hcl' & Hn' & Hm').
      exists b'. cbn [fold_left]. unfold step at 2. rewrite Hs.
      split; [exact Hf |]. split; [exact Hwf' |]. split; [exact Hcl' |]. split; [exact Hn' |].
      intros j Hj. rewrite (Hm' j Hj), (Hm1 j Hj). cbn [existsb].
      destruct (Nat.eqb j (item_idx g i)); destruct (existsb (fun i0 => Nat.eqb j (item_idx g i0)) k);
        destruct (cb_mem b (N.of_nat j)); reflexivity.
  Qed.

  Lemma existsb_idx_mem_item : forall k i, Forall (item_okP g) k -> item_okP g i ->
    existsb (fun i' => Nat.eqb (item_idx g i) (item_idx g i')) k = mem_item i k.
  Proof.
    intros k i Hok Hi. induction k as [| y k IH]; [reflexivity |].
    inversion Hok as [| y' k' Hy Hk]; subst y' k'. cbn [existsb mem_item]. rewrite (IH Hk).
    destruct (item_eqb i y) eqn:E.
    - apply item_eqb_eq in E. subst y. rewrite Nat.eqb_refl. reflexivity.
    - destruct (Nat.eqb_spec (item_idx g i) (item_idx g y)) as [He | He]; [| reflexivity].
      exfalso. apply item_eqb_neq in E. apply E. apply (item_idx_inj g WFX i y Hi Hy He).
  Qed.

  (* 1 *)
  Theorem w_kernel_ok : forall k, Forall (item_okP g) k ->
    exists b, w_kernel g k = Ok b /\ cb_wf b /\ cb_clean b /\ cb_n b = N.of_nat (address_space g)
      /\ (forall i, item_okP g i -> cb_mem b (N.of_nat (item_idx g i)) = mem_item i k)
      /\ (forall j, j < address_space g -> cb_mem b (N.of_nat j) = true -> exists i, In i k /\ item_idx g i = j).
  Proof.
    intros k Hok.
    destruct (fold_kernel k (cb_new (N.of_nat (address_space g))) Hok (cb_new_wf _) (cb_new_clean _) eq_refl)
      as (b & Hf & Hwf & Hcl & Hn & Hm).
    exists b. split; [exact Hf |]. split; [exact Hwf |]. split; [exact Hcl |]. split; [exact Hn |]. split.
    - intros i Hi. rewrite (Hm _ (item_idx_lt g WFX i Hi)), new_mem, orb_false_r.
      apply existsb_idx_mem_item; assumption.
    - intros j Hj Hmem. rewrite (Hm j Hj), new_mem, orb_false_r in Hmem.
      apply existsb_exists in Hmem. destruct Hmem as (i & Hin & He). apply Nat.eqb_eq in He.
      exists i. split; [exact Hin | symmetry; exact He].
  Qed.

  Lemma same_items_iff : forall a b, same_items a b = true <-> (forall x, In x a <-> In x b).
  Proof.
    intros a b. unfold same_items, subset_items. rewrite andb_true_iff, !forallb_forall. split.
    - intros [H1 H2] x. split; intros Hx; apply mem_item_In; auto.
    - intros H. split; intros x Hx; apply mem_item_In; apply H; exact Hx.
  Qed.

  Lemma abs_eq_iff_mem : forall a b n, cb_n a = N.of_nat n -> cb_n b = N.of_nat n ->
    (cb_abs a = cb_abs b <-> forall j, j < n -> cb_mem a (N.of_nat j) = cb_mem b (N.of_nat j)).
  Proof.
    intros a b n Ha Hb. split.
    - intros E j Hj. rewrite <- (abs_nth a j) by lia. rewrite <- (abs_nth b j) by lia. rewrite E. reflexivity.
    - intros H. unfold cb_abs. rewrite Ha, Hb, Nat2N.id. apply map_ext_in. intros j Hj. apply in_seq in Hj.
      apply H. lia.
  Qed.

  (* 2 *)
  Theorem kernel_equality_is_same_items : forall k1 k2 b1 b2,
    Forall (item_okP g) k1 -> Forall (item_okP g) k2 ->
    w_kernel g k1 = Ok b1 -> w_kernel g k2 = Ok b2 ->
    cb_eqb b1 b2 = same_items k1 k2.
  Proof.
    intros k1 k2 b1 b2 Hok1 Hok2 Hw1 Hw2.
    destruct (w_kernel_ok k1 Hok1) as (c1 & Hc1 & Hwf1 & Hcl1 & Hn1 & Hm1 & Hx1).
    destruct (w_kernel_ok k2 Hok2) as (c2 & Hc2 & Hwf2 & Hcl2 & Hn2 & Hm2 & Hx2).
    rewrite Hw1 in Hc1. injection Hc1 as <-. rewrite Hw2 in Hc2. injection Hc2 as <-.
    apply eq_iff_eq_true.
    rewrite (cb_eqb_iff_same_set b1 b2 Hwf1 Hwf2 (eq_trans Hn1 (eq_sym Hn2)) Hcl1 Hcl2).
    rewrite (abs_eq_iff_mem b1 b2 _ Hn1 Hn2). rewrite same_items_iff.
    rewrite Forall_forall in Hok1, Hok2. split.
    - intros H x. split; intros Hx.
      + apply mem_item_In. rewrite <- (Hm2 x (Hok1 x Hx)). rewrite <- (H _ (item_idx_lt g WFX x (Hok1 x Hx))).
        rewrite (Hm1 x (Hok1 x Hx)). apply mem_item_In. exact Hx.
      + apply mem_item_In. rewrite <- (Hm1 x (Hok2 x Hx)). rewrite (H _ (item_idx_lt g WFX x (Hok2 x Hx))).
        rewrite (Hm2 x (Hok2 x Hx)). apply mem_item_In. exact Hx.
    - intros H j Hj. apply eq_iff_eq_true. split; intros Hmem.
      + destruct (Hx1 j Hj Hmem) as (i & Hin & <-). rewrite (Hm2 i (Hok1 i Hin)). apply mem_item_In. apply H. exact Hin.
      + destruct (Hx2 j Hj Hmem) as (i & Hin & <-). rewrite (Hm1 i (Hok2 i Hin)). apply mem_item_In. apply H. exact Hin.
  Qed.

  (* the set read back through the abstraction: the kernel bitset is the characteristic list of the item indices *)
  Corollary w_kernel_abs : forall k b, Forall (item_okP g) k -> w_kernel g k = Ok b ->
    cb_abs b = map (fun j => existsb (fun i => Nat.eqb j (item_idx g i)) k) (seq 0 (address_space g)).
  Proof.
    intros k b Hok Hw.
    destruct (fold_kernel k (cb_new (N.of_nat (address_space g))) Hok (cb_new_wf _) (cb_new_clean _) eq_refl)
      as (c & Hf & _ & _ & Hn & Hm).
    change (w_kernel g k = Ok c) in Hf. rewrite Hw in Hf. injection Hf as <-.
    unfold cb_abs. rewrite Hn, Nat2N.id. apply map_ext_in. intros j Hj. apply in_seq in Hj.
    rewrite (Hm j) by lia. rewrite new_mem, orb_false_r. reflexivity.
  Qed.
End Kernel.

(* ------------------------------------------------------------------ 3: out of the address space the set throws *)
(* no hypothesis on the grammar or on the words of b *)
Theorem kernel_set_throws_out_of_range : forall g i b,
  address_space g <= item_idx g i -> cb_n b = N.of_nat (address_space g) ->
  cb_set b (N.of_nat (item_idx g i)) = Throw.
Proof.
  intros g i b Hge Hn. apply (proj1 (cb_upd_throws_iff_out_of_range b _)). rewrite Hn. lia.
Qed.

Lemma cb_set_n : forall b i b', cb_set b i = Ok b' -> cb_n b' = cb_n b.
Proof.
  intros b i b' H. unfold cb_set, cb_upd in H. destruct (i <? cb_n b)%N; [| discriminate H].
  injection H as <-. reflexivity.
Qed.

Theorem w_kernel_throws_out_of_range : forall g k,
  (exists i, In i k /\ address_space g <= item_idx g i) -> w_kernel g k = Throw.
Proof.
  intros g k (i & Hin & Hge). unfold w_kernel.
  set (st := fun (acc : res cbitset) (i : item) =>
               match acc with Ok b => cb_set b (N.of_nat (item_idx g i)) | r => r end).
  assert (H : forall k r, In i k -> (r = Throw \/ exists b, r = Ok b /\ cb_n b = N.of_nat (address_space g)) ->
                          fold_left st k r = Throw).
  { clear k Hin. intros k. induction k as [| y k IH]; intros r Hin Hr; [destruct Hin |].
    cbn [fold_left].
    destruct Hr as [-> | (b & -> & Hn)].
    - apply (fold_not_ok g k Throw). intros b; discriminate.
    - destruct Hin as [-> | Hin].
      + cbn [st]. rewrite (kernel_set_throws_out_of_range g i b Hge Hn).
        apply (fold_not_ok g k Throw). intros b'; discriminate.
      + apply (IH _ Hin). cbn [st].
        destruct (cb_set b (N.of_nat (item_idx g y))) as [b' | |] eqn:Hs.
        * right. exists b'. split; [reflexivity |]. rewrite (cb_set_n _ _ _ Hs). exact Hn.
        * left. reflexivity.
        * exfalso. exact (proj1 (cb_upd_ops_never_undef b _) Hs). }
  apply (H k _ Hin). right. exists (cb_new (N.of_nat (address_space g))). split; reflexivity.
Qed.

(* the word-level kernel never performs an unchecked access *)
Theorem w_kernel_never_undef : forall g k, w_kernel g k <> Undef.
Proof.
  intros g k. unfold w_kernel. generalize (cb_new (N.of_nat (address_space g))) as b.
  induction k as [| y k IH]; intros b; cbn [fold_left]; [discriminate |].
  destruct (cb_set b (N.of_nat (item_idx g y))) as [b' | |] eqn:Hs.
  - apply IH.
  - rewrite (fold_not_ok g k Throw) by (intros b'; discriminate). discriminate.
  - exfalso. exact (proj1 (cb_upd_ops_never_undef b _) Hs).
Qed.

(* ------------------------------------------------------------------ 4: non-vacuity on the grammar of ex_refines *)
Definition exk_1 : list item := [mkItem 0 1 3; mkItem 1 0 2; mkItem 3 1 0].
Definition exk_2 : list item := [mkItem 3 1 0; mkItem 0 1 3; mkItem 1 0 2; mkItem 0 1 3].   (* permuted, one repeated *)
Definition exk_3 : list item := [mkItem 0 1 3; mkItem 1 0 2; mkItem 3 1 1].                (* another lookahead *)
Definition exk_4 : list item := [mkItem 0 1 3; mkItem 1 0 2].                              (* a strict subset *)

Definition item_okb (g : grammar) (i : item) : bool :=
  Nat.ltb (it_r i) (rule_count g) && Nat.leb (it_d i) (ri_n (get_ri g (it_r i))) && Nat.ltb (it_t i) (term_count g).

Definition eqb_of (a b : res cbitset) : option bool :=
  match a, b with Ok x, Ok y => Some (cb_eqb x y) | _, _ => None end.

Example ex_kernels :
  grammar_wf_extra ex_g = true /\
  forallb (item_okb ex_g) (exk_1 ++ exk_2 ++ exk_3 ++ exk_4) = true /\
  address_space ex_g = 120 /\ map (item_idx ex_g) exk_1 = [8; 22; 65] /\
  res_map cb_data (w_kernel ex_g exk_1) = Ok [4194560%N; 2%N] /\
  eqb_of (w_kernel ex_g exk_1) (w_kernel ex_g exk_2) = Some true  /\ same_items exk_1 exk_2 = true /\
  eqb_of (w_kernel ex_g exk_1) (w_kernel ex_g exk_3) = Some false /\ same_items exk_1 exk_3 = false /\
  eqb_of (w_kernel ex_g exk_1) (w_kernel ex_g exk_4) = Some false /\ same_items exk_1 exk_4 = false /\
  w_kernel ex_g (exk_1 ++ [mkItem 7 0 0]) = Throw.
Proof. vm_compute. repeat split. Qed.

Example ex_wfx : wfx_facts ex_g.
Proof. apply wfx_facts_of. vm_compute. reflexivity. Qed.

Print Assumptions w_kernel_ok.
Print Assumptions kernel_equality_is_same_items.
Print Assumptions w_kernel_throws_out_of_range.
