(* Observables of the container mirror for the correspondence run (harness/containers.cpp runs the real templates on the
   same operation sequences; lib/contfam.py writes the real observations into Cases_containers.v and the kernel checks
   `obs_model = obs_real` for every case). *)
From Ctpg Require Import Base.Prelude Model.Containers.
From Coq Require Import NArith ZArith.
Local Open Scope N_scope.

Definition is_throw {A} (r : res A) : bool := match r with Throw => true | _ => false end.
Definition is_undef {A} (r : res A) : bool := match r with Undef => true | _ => false end.

(* cbitset: (per-op throw flags, final words, test(i) for i < n, `==` against the bitset rebuilt with set(i) from the tests) *)
Fixpoint cb_flags (b : cbitset) (ops : list cb_op) : list bool :=
  match ops with [] => [] | o :: t => is_throw (cb_apply b o) :: cb_flags (cb_step b o) t end.
Definition cb_rebuild (b : cbitset) : cbitset :=
  fold_left (fun acc i => if cb_mem b (N.of_nat i) then keep acc (cb_set acc (N.of_nat i)) else acc) (seq 0 (N.to_nat (cb_n b))) (cb_new (cb_n b)).
Definition cb_obs (n : N) (ops : list cb_op) : list bool * list N * list bool * bool :=
  let b := cb_run n ops in (cb_flags (cb_new n) ops, cb_data b, cb_abs b, cb_eqb b (cb_rebuild b)).

(* cvector: (per-op throw flags, final size, final contents) *)
Definition cv_apply {A} (c : cvector A) (o : cv_op A) : bool :=
  match o with
  | VPush x => is_throw (cv_push c x)
  | _ => false
  end.
Fixpoint cv_flags {A} (c : cvector A) (ops : list (cv_op A)) : list bool :=
  match ops with [] => [] | o :: t => cv_apply c o :: cv_flags (cv_step c o) t end.
Definition cv_obs (cap : N) (ops : list (cv_op N)) : list bool * N * list N :=
  let c := cv_run cap 0 ops in (cv_flags (cv_new cap 0) ops, cv_size c, cv_abs c).

(* cqueue: per op (threw?, size afterwards, top afterwards: None when top() throws), final contents by draining *)
Definition cq_top_opt {A} (q : cqueue A) : option A := match cq_top q with Ok x => Some x | _ => None end.
Definition cq_apply {A} (q : cqueue A) (o : cq_op A) : bool :=
  match o with QPush x => is_throw (cq_push q x) | QPop => is_throw (cq_pop q) end.
Fixpoint cq_trace {A} (q : cqueue A) (ops : list (cq_op A)) : list (bool * N * option A) :=
  match ops with
  | [] => []
  | o :: t => let q' := cq_step q o in (cq_apply q o, cq_size q', cq_top_opt q') :: cq_trace q' t
  end.
Fixpoint cq_drain {A} (q : cqueue A) (fuel : nat) : list A :=
  match fuel with
  | O => []
  | S f => match cq_top q with
           | Ok x => x :: cq_drain (keep q (cq_pop q)) f
           | _ => []
           end
  end.
Definition cq_obs (cap : N) (ops : list (cq_op N)) : list (bool * N * option N) * list N :=
  let q := cq_run cap 0 ops in (cq_trace (cq_new cap 0) ops, cq_drain q (S (N.to_nat cap))).

(* stdex::sort of (key, id) pairs by key *)
Definition sort_obs (l : list (N * N)) : option (list N) :=
  match stdex_sort (fun a b => fst a <? fst b) l with Ok r => Some (map snd r) | _ => None end.

(* ---- boolean comparison of observations (the kernel decides `model observation = real observation`) *)
Definition opt_eqb {A} (e : A -> A -> bool) (a b : option A) : bool :=
  match a, b with Some x, Some y => e x y | None, None => true | _, _ => false end.
Definition cb_obs5 (n : N) (ops : list cb_op) : list bool * list N * list bool * bool * bool :=
  let b := cb_run n ops in (cb_obs n ops, is_throw (cb_test b n)).
Definition cb_case_ok (c : N * list cb_op * (list bool * list N * list bool * bool * bool)) : bool :=
  let '(n, ops, (ef, ew, et, ee, eo)) := c in
  let '(f, w, t, e, o) := cb_obs5 n ops in
  list_eqb Bool.eqb f ef && list_eqb N.eqb w ew && list_eqb Bool.eqb t et && Bool.eqb e ee && Bool.eqb o eo.
Definition cv_ends (c : cvector N) : option (N * N) :=
  match cv_get c 0, cv_back c with Ok a, Ok b => if cv_size c =? 0 then None else Some (a, b) | _, _ => None end.
Definition cv_case_ok (c : N * list (cv_op N) * (list bool * N * list N * option (N * N))) : bool :=
  let '(cap, ops, (ef, es, ec, ee)) := c in
  let '(f, s, l) := cv_obs cap ops in
  list_eqb Bool.eqb f ef && (s =? es) && list_eqb N.eqb l ec
  && opt_eqb (fun a b => (fst a =? fst b) && (snd a =? snd b)) (cv_ends (cv_run cap 0 ops)) ee.
Definition cq_case_ok (c : N * list (cq_op N) * (list (bool * N * option N) * list N)) : bool :=
  let '(cap, ops, (et, ed)) := c in
  let '(t, d) := cq_obs cap ops in
  list_eqb (fun a b => let '(a1, a2, a3) := a in let '(b1, b2, b3) := b in Bool.eqb a1 b1 && (a2 =? b2) && opt_eqb N.eqb a3 b3) t et
  && list_eqb N.eqb d ed.
Definition sort_case_ok (c : list (N * N) * option (list N)) : bool :=
  let '(l, e) := c in opt_eqb (list_eqb N.eqb) (sort_obs l) e.
(* indices of the cases that disagree (for the replay) *)
Fixpoint bad_idx {A} (ok : A -> bool) (l : list A) (i : N) : list N :=
  match l with [] => [] | c :: t => if ok c then bad_idx ok t (i + 1) else i :: bad_idx ok t (i + 1) end.
