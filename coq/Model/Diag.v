(* Mirror of write_state_diag_str: the action lines of one state, as structured lines
   (the text rendering is done by the extraction driver and compared byte for byte with the real text). *)
Require Import Ctpg.Base.Prelude Ctpg.Model.Grammar Ctpg.Model.LRGen.

Inductive diag_line :=
| DlGoto (nt st : option nat)                 (* "On <nterm> go to <st>" ; nt as index *)
| DlSuccess (t : nat)
| DlSRReduce (t : nat) (rule : option nat)    (* " S/R CONFLICT, prefer reduce(<r_idx>) over shift" *)
| DlSRShift (t : nat) (rule : option nat)     (* " S/R CONFLICT, prefer shift over reduce(<r_idx>)" *)
| DlShift (t : nat) (st : option nat)
| DlReduce (t : nat) (rule : option nat)
| DlRR (t : nat).

Definition is_shift_kind (k : kind) : bool := match k with KShift | KShiftErr => true | _ => false end.

(* items of a state in the order of the bit-set scan (increasing situation index) *)
Fixpoint insert_item (g : grammar) (x : item) (l : list item) : list item :=
  match l with
  | [] => [x]
  | y :: t => if Nat.ltb (item_idx g x) (item_idx g y) then x :: y :: t else y :: insert_item g x t
  end.
Definition sort_items (g : grammar) (l : list item) : list item := fold_right (insert_item g) [] l.

(* get_reduction_rule_idx(state, term): r_idx of the first completed item with that lookahead *)
Definition reduction_rule (g : grammar) (items : list item) (t : nat) : option nat :=
  match filter (fun i => is_complete g i && Nat.eqb (it_t i) t) (sort_items g items) with
  | i :: _ => Some (ri_r (get_ri g (it_r i)))
  | [] => None
  end.

Definition r_idx_of (g : grammar) (a : option nat) : option nat :=
  match a with Some i => option_map ri_r (nth_error (rule_infos g) i) | None => None end.

Definition state_lines (g : grammar) (items : list item) (row : list entry) : list diag_line :=
  flat_map (fun nt =>
              let e := nth nt row entry_default in
              if is_shift_kind (e_kind e) then [DlGoto (Some nt) (e_arg e)] else [])
           (seq 0 (nterm_count g))
  ++ flat_map (fun t =>
              let e := nth (nterm_count g + t) row entry_default in
              match e_kind e with
              | KError => []
              | KSuccess => [DlSuccess t]
              | KReduce => if e_sr e then [DlSRReduce t (r_idx_of g (e_arg e))] else [DlReduce t (r_idx_of g (e_arg e))]
              | KShift | KShiftErr => if e_sr e then [DlSRShift t (reduction_rule g items t)] else [DlShift t (e_arg e)]
              | KRR => [DlRR t]
              end)
           (seq 0 (term_count g)).

Definition is_conflict_line (l : diag_line) : bool :=
  match l with DlSRReduce _ _ | DlSRShift _ _ | DlRR _ => true | _ => false end.
