(* Mirror of the pattern front end: regex::regex_lexer::match (a custom lexer), regex_char,
   string_view_to_subset, the grammar of regex_parser_object, and the functors that turn reductions into
   builder calls (here: into a regex syntax tree whose post-order is the order of builder calls). No proofs here. *)
Require Import Ctpg.Base.Prelude Ctpg.Model.Grammar Ctpg.Model.LRGen Ctpg.Model.Driver Ctpg.Model.Dfa.
From Coq Require Import NArith.

(* ---------- character classes of utils:: ---------- *)
Definition is_printable (c : nat) : bool := Nat.leb 32 c && Nat.leb c 126.      (* 0x20 .. 0x7e; bytes >= 0x80 are negative chars *)
Definition is_dec_digit (c : nat) : bool := Nat.leb 48 c && Nat.leb c 57.
Definition is_hex_digit (c : nat) : bool :=
  is_dec_digit c || (Nat.leb 97 c && Nat.leb c 102) || (Nat.leb 65 c && Nat.leb c 70).

(* specials table of regex_lexer:  * + ? | ( ) { }  ->  term 2..9 *)
Definition special (c : nat) : option nat :=
  match c with
  | 42 => Some 2 | 43 => Some 3 | 63 => Some 4 | 124 => Some 5
  | 40 => Some 6 | 41 => Some 7 | 123 => Some 8 | 125 => Some 9
  | _ => None
  end.

(* ---------- regex_lexer over a checked read: index e (the terminator) is readable, beyond is not ---------- *)
Section Lexer.
  Variable p : list nat.                       (* the pattern without its terminator *)
  Definition e := length p.
  (* read at absolute index i: Some byte, the terminator 0 at e, None beyond (an over-read) *)
  Definition rd (i : nat) : option nat :=
    if Nat.ltb i e then nth_error p i else if Nat.eqb i e then Some 0 else None.

  Inductive lres := LOk (ok : bool) (len : nat) | LOver.   (* (return value, len out-parameter) or over-read *)

  (* match_escaped(start, end, len): len is only written on some paths; l0 is its incoming value *)
  Definition match_escaped (i l0 : nat) : lres :=
    match rd i with
    | None => LOver
    | Some c =>
        if Nat.eqb c 92 then
          if Nat.eqb (S i) e then LOk false l0 else
          match rd (S i) with
          | None => LOver
          | Some c1 =>
              if Nat.eqb c1 120 then
                if Nat.eqb (i + 2) e then LOk true 2 else
                match rd (i + 2) with
                | None => LOver
                | Some c2 =>
                    if negb (is_hex_digit c2) then LOk true 2 else
                    if Nat.eqb (i + 3) e then LOk true 3 else
                    match rd (i + 3) with
                    | None => LOver
                    | Some c3 => if negb (is_hex_digit c3) then LOk true 3 else LOk true 4
                    end
                end
              else LOk (is_printable c1) 2
          end
        else LOk true l0
    end.

  (* match_range_item(start, end, len) *)
  Definition match_range_item (i : nat) : lres :=
    match match_escaped i 0 with
    | LOver => LOver
    | LOk false l => LOk false l
    | LOk true l =>
        let r1 := if Nat.eqb l 0
                  then match rd i with None => LOver | Some c => if is_printable c then LOk true 1 else LOk false 0 end
                  else LOk true l in
        match r1 with
        | LOver => LOver
        | LOk false l1 => LOk false l1
        | LOk true l1 =>
            let j := i + l1 in
            match rd j with
            | None => LOver
            | Some c =>
                if Nat.eqb c 45 then
                  let l2 := S l1 in
                  let k := S j in
                  if Nat.eqb k e then LOk false l2 else
                  match rd k with
                  | None => LOver
                  | Some c2 =>
                      if Nat.eqb c2 93 then LOk false l2 else
                      match match_escaped k 0 with
                      | LOver => LOver
                      | LOk false _ => LOk false l2
                      | LOk true rl =>
                          if Nat.eqb rl 0
                          then (if is_printable c2 then LOk true (S l2) else LOk false l2)
                          else LOk true (l2 + rl)
                      end
                  end
                else LOk true l1
            end
        end
    end.

  (* the while loop of match_range over items; fuel = remaining length *)
  Fixpoint range_items (fuel : nat) (i len : nat) : lres :=
    match fuel with
    | 0 => LOk false 0
    | S f =>
        if Nat.eqb i e then LOk false 0 else
        match rd i with
        | None => LOver
        | Some c =>
            if Nat.eqb c 93 then LOk true (S len) else
            match match_range_item i with
            | LOver => LOver
            | LOk false _ => LOk false 0
            | LOk true il => if Nat.eqb il 0 then LOk false 0 else range_items f (i + il) (len + il)
            end
        end
    end.

  (* match_range(start, end, len) with incoming len = 0 *)
  Definition match_range (i : nat) : lres :=
    match rd i with
    | None => LOver
    | Some c =>
        if Nat.eqb c 91 then
          if Nat.eqb (S i) e then LOk false 0 else
          match rd (S i) with
          | None => LOver
          | Some c1 =>
              let '(j, len) := if Nat.eqb c1 94 then (i + 2, 2) else (S i, 1) in
              if Nat.eqb j e then LOk false 0 else range_items (S e) j len
          end
        else LOk true 0
    end.

  (* match_primary *)
  Definition match_primary (i : nat) : lres :=
    match match_escaped i 0 with
    | LOver => LOver
    | LOk false l => LOk false l
    | LOk true l =>
        if negb (Nat.eqb l 0) then LOk true l else
        match match_range i with
        | LOver => LOver
        | LOk false l2 => LOk false l2
        | LOk true l2 =>
            if negb (Nat.eqb l2 0) then LOk true l2 else
            match rd i with
            | None => LOver
            | Some c => if is_printable c then LOk true 1 else LOk false 0
            end
        end
    end.

  Inductive tok_res := TokNone | TokOver | Tok (t len : nat).

  (* regex_lexer::match at offset i *)
  Definition lex_at (i : nat) : tok_res :=
    if Nat.leb e i then TokNone else
    match rd i with
    | None => TokOver
    | Some c =>
        match special c with
        | Some t => Tok t 1
        | None =>
            if is_dec_digit c then Tok 0 1 else
            match match_primary i with
            | LOver => TokOver
            | LOk true l => Tok 1 l
            | LOk false _ => TokNone
            end
        end
    end.
End Lexer.

(* as a lexer oracle for Driver: the driver hands over the remaining input; the custom lexer is
   position independent, so it is the lexer of the suffix taken as a pattern *)
Definition regex_lexer (verbose : bool) (sp : spoint) (rest : list nat) : list lex_event * option (nat * nat) :=
  match lex_at rest 0 with
  | Tok t len => (if verbose then [LxCustom sp t] else [], Some (t, len))
  | _ => ([], None)
  end.

(* ---------- regex_char / string_view_to_subset ---------- *)
Definition hex_val (d : nat) : nat :=
  if Nat.leb 65 d && Nat.leb d 70 then 10 + d - 65
  else if Nat.leb 97 d && Nat.leb d 102 then 10 + d - 97
  else d - 48.
Definition hex_digits_to_char (d1 d2 : nat) : nat := (hex_val d1 * 16 + hex_val d2) mod 256.

(* regex_char(sv, len): (char, len); sv is given as a list, reads beyond it yield 0 here and are
   shown never to happen on lexemes the lexer delivers *)
Definition regex_char (sv : list nat) : nat * nat :=
  let at_ i := nth i sv 0 in
  if Nat.eqb (at_ 0) 92 then
    if Nat.eqb (at_ 1) 120 then
      if Nat.eqb (length sv) 2 || negb (is_hex_digit (at_ 2)) then (0, 2)
      else if Nat.eqb (length sv) 3 || negb (is_hex_digit (at_ 3)) then (hex_digits_to_char 48 (at_ 2), 3)
      else (hex_digits_to_char (at_ 2) (at_ 3), 4)
    else (at_ 1, 2)
  else (at_ 0, 1).

Fixpoint subset_items (fuel : nat) (sv : list nat) (i : nat) (cs : charset) : charset :=
  match fuel with
  | 0 => cs
  | S f =>
      if Nat.eqb (nth i sv 93) 93 then cs else
      let '(c1, len) := regex_char (skipn i sv) in
      let i1 := i + len in
      if Nat.eqb (nth i1 sv 0) 45 then
        let i2 := S i1 in
        let '(c2, _) := regex_char (skipn i2 sv) in
        subset_items f sv i2 (cs_add_range cs c1 c2)
      else subset_items f sv i1 (update cs c1 true)
  end.

Definition string_view_to_subset (sv : list nat) : charset :=
  if Nat.eqb (nth 0 sv 0) 46 then cs_flip cs_empty
  else if Nat.eqb (nth 0 sv 0) 91 then
    let flip := Nat.eqb (nth 1 sv 0) 94 in
    let cs := subset_items (S (length sv)) sv (if flip then 2 else 1) cs_empty in
    if flip then cs_flip cs else cs
  else update cs_empty (fst (regex_char sv)) true.

(* ---------- the grammar of regex_parser_object ---------- *)
Definition str (s : list nat) : ident := s.
Definition n_expr := [101;120;112;114]. Definition n_alt := [97;108;116]. Definition n_concat := [99;111;110;99;97;116].
Definition n_q_expr := [113;95;101;120;112;114]. Definition n_primary := [112;114;105;109;97;114;121].
Definition n_number := [110;117;109;98;101;114].
Definition t_digit := [114;101;103;101;120;95;100;105;103;105;116;95;48;57].      (* "regex_digit_09" *)
Definition t_primary := [114;101;103;101;120;95;112;114;105;109;97;114;121].     (* "regex_primary" *)
Definition ch (c : nat) : ident := [c].

Definition regex_raw_grammar : raw_grammar :=
  mkRG n_expr
    [mkRT t_digit 0 NoAssoc; mkRT t_primary 0 NoAssoc; mkRT (ch 42) 0 NoAssoc; mkRT (ch 43) 0 NoAssoc;
     mkRT (ch 63) 0 NoAssoc; mkRT (ch 124) 0 NoAssoc; mkRT (ch 40) 0 NoAssoc; mkRT (ch 41) 0 NoAssoc;
     mkRT (ch 123) 0 NoAssoc; mkRT (ch 125) 0 NoAssoc]
    [n_expr; n_alt; n_concat; n_q_expr; n_primary; n_number]
    [mkRR n_number [RTerm t_digit] None;
     mkRR n_number [RNterm n_number; RTerm t_digit] None;
     mkRR n_primary [RTerm t_digit] None;
     mkRR n_primary [RTerm t_primary] None;
     mkRR n_primary [RTerm (ch 40); RNterm n_expr; RTerm (ch 41)] None;
     mkRR n_q_expr [RNterm n_primary] None;
     mkRR n_q_expr [RNterm n_primary; RTerm (ch 42)] None;
     mkRR n_q_expr [RNterm n_primary; RTerm (ch 43)] None;
     mkRR n_q_expr [RNterm n_primary; RTerm (ch 63)] None;
     mkRR n_q_expr [RNterm n_primary; RTerm (ch 123); RNterm n_number; RTerm (ch 125)] None;
     mkRR n_concat [RNterm n_q_expr] None;
     mkRR n_concat [RNterm n_concat; RNterm n_q_expr] None;
     mkRR n_alt [RNterm n_concat] None;
     mkRR n_alt [RNterm n_alt; RTerm (ch 124); RNterm n_alt] None;
     mkRR n_expr [RNterm n_alt] None].

(* ---------- semantic values of the pattern parse ---------- *)
Inductive rval :=
| VTok                      (* a special character *)
| VDigit (d : N)            (* regex_digit_09 : size32_t(sv[0]) - '0' *)
| VSubset (s : charset)     (* regex_primary : string_view_to_subset *)
| VNum (n : N)              (* number, modulo 2^32 *)
| VRe (r : regex)
| VBad.

Definition regex_term_f (pat : list nat) (t start len : nat) (_ : spoint) : rval :=
  match t with
  | 0 => VDigit (N.of_nat (nth start pat 48 - 48))
  | 1 => VSubset (string_view_to_subset (slice_of pat start (start + len)))
  | _ => VTok
  end.

Definition two32 : N := 4294967296%N.

Definition regex_rule_f (r : nat) (c : unit) (args : list rval) : unit * rval :=
  (c,
   match r, args with
   | 0, [VDigit d] => VNum d
   | 1, [VNum n; VDigit d] => VNum ((n * 10 + d) mod two32)%N
   | 2, [VDigit d] => VRe (RSet (cs_single (N.to_nat d + 48)))
   | 3, [VSubset s] => VRe (RSet s)
   | 4, [_; VRe x; _] => VRe x
   | 5, [VRe x] => VRe x
   | 6, [VRe x; _] => VRe (RStar x)
   | 7, [VRe x; _] => VRe (RPlus x)
   | 8, [VRe x; _] => VRe (ROpt x)
   | 9, [VRe x; _; VNum n; _] => if (n <? 4096)%N then VRe (RRep x (N.to_nat n)) else VBad   (* model declines huge counts *)
   | 10, [VRe x] => VRe x
   | 11, [VRe a; VRe b] => VRe (RCat a b)
   | 12, [VRe x] => VRe x
   | 13, [VRe a; _; VRe b] => VRe (RAlt a b)
   | 14, [VRe x] => VRe x
   | _, _ => VBad
   end).

Definition regex_opts := mkOpt false false true.    (* parse_options{}.set_skip_whitespace(false) *)

(* parse a pattern with a given grammar/table (the table comes from LRGen.gen on regex_raw_grammar) *)
Definition parse_pattern_with (g : grammar) (tbl : table) (pat : list nat) : option regex :=
  match fst (fst (run rval unit g tbl regex_opts pat None regex_lexer (regex_term_f pat) (fun _ => VTok) regex_rule_f
                      (10 * length pat + 20) tt)) with
  | Accept (VRe r) => Some r
  | _ => None
  end.

Definition regex_grammar_table : option (grammar * table) :=
  match analyze regex_raw_grammar with
  | Some g => match gen g with
              | inl (_, tb) => Some (g, tb)
              | inr _ => None
              end
  | None => None
  end.

Definition parse_pattern (pat : list nat) : option regex :=
  match regex_grammar_table with
  | Some (g, tb) => parse_pattern_with g tb pat
  | None => None
  end.
