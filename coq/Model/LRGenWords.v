(* Word-level twins of the nullable / FIRST fixpoints of Model/LRGen.v (compute_nterm_empty_and_first, ctpg.hpp):
   the same loops, but on cbitset objects (Model/Containers.v: 64-bit words, checked test()/set(), add(), operator==)
   instead of Prelude.bset. nterm_empty is one cbitset of nterm_count bits, nterm_first a table of cbitsets of term_count
   bits each. test()/set() check the index (check_idx throws "Index access out of range"), so every twin returns `res`.
   Only cb_new / cb_set / cb_test / cb_add / cb_eqb are used. Proofs/LRGenWordsRefine.v proves that, for grammars whose
   symbol indices are in range, the twins never throw and compute exactly the abstract tables. No proofs here. *)
From Ctpg Require Import Base.Prelude Model.Grammar Model.LRGen Model.Containers.
From Coq Require Import NArith.

Definition rbind {A B} (r : res A) (f : A -> res B) : res B :=
  match r with Ok a => f a | Throw => Throw | Undef => Undef end.

Notation "'do' x <- r ;; k" := (rbind r (fun x => k))
  (at level 200, x name, r at level 100, k at level 200, right associativity).

(* term_subset{} : a value-initialised cbitset<term_count> *)
Definition w_empty_terms (g : grammar) : cbitset := cb_new (N.of_nat (term_count g)).

(* all_empty = !s.term && nterm_empty.test(s.idx), the loop stops at the first false *)
Fixpoint w_all_nullable (ne : cbitset) (r : list symbol) : res bool :=
  match r with
  | [] => Ok true
  | T _ :: _ => Ok false
  | NT n :: t => do b <- cb_test ne (N.of_nat n) ;;
                 if b then w_all_nullable ne t else Ok false
  end.

(* one pass over rule_infos in order, updating in place *)
Fixpoint w_empty_pass (g : grammar) (ris : list rule_info) (ne : cbitset) (changed : bool) : res (cbitset * bool) :=
  match ris with
  | [] => Ok (ne, changed)
  | ri :: t =>
      do b <- cb_test ne (N.of_nat (ri_l ri)) ;;
      if b then w_empty_pass g t ne changed
      else do a <- w_all_nullable ne (firstn (ri_n ri) (get_rhs g (ri_r ri))) ;;
           if a then do ne' <- cb_set ne (N.of_nat (ri_l ri)) ;; w_empty_pass g t ne' true
           else w_empty_pass g t ne changed
  end.

Fixpoint w_empty_iter (fuel : nat) (g : grammar) (ne : cbitset) : res cbitset :=
  match fuel with
  | 0 => Ok ne
  | S f => do p <- w_empty_pass g (rule_infos g) ne false ;;
           let '(ne', ch) := p in
           if ch then w_empty_iter f g ne' else Ok ne'
  end.

Definition w_nterm_empty (g : grammar) : res cbitset :=
  w_empty_iter (S (nterm_count g)) g (cb_new (N.of_nat (nterm_count g))).

(* the inner loop of the FIRST pass: set(s.idx) and stop on a term; add(nterm_first[s.idx]) and go on while nullable *)
Fixpoint w_first_of_syms (g : grammar) (ne : cbitset) (nf : list cbitset) (acc : cbitset) (r : list symbol)
  : res cbitset :=
  match r with
  | [] => Ok acc
  | T i :: _ => cb_set acc (N.of_nat i)
  | NT n :: t =>
      let acc' := cb_add acc (nth n nf (w_empty_terms g)) in
      do b <- cb_test ne (N.of_nat n) ;;
      if b then w_first_of_syms g ne nf acc' t else Ok acc'
  end.

Fixpoint w_first_pass (g : grammar) (ne : cbitset) (ris : list rule_info) (nf : list cbitset) (changed : bool)
  : res (list cbitset * bool) :=
  match ris with
  | [] => Ok (nf, changed)
  | ri :: t =>
      let before := nth (ri_l ri) nf (w_empty_terms g) in
      do after <- w_first_of_syms g ne nf before (firstn (ri_n ri) (get_rhs g (ri_r ri))) ;;
      w_first_pass g ne t (update nf (ri_l ri) after) (changed || negb (cb_eqb before after))
  end.

Fixpoint w_first_iter (fuel : nat) (g : grammar) (ne : cbitset) (nf : list cbitset) : res (list cbitset) :=
  match fuel with
  | 0 => Ok nf
  | S f => do p <- w_first_pass g ne (rule_infos g) nf false ;;
           let '(nf', ch) := p in
           if ch then w_first_iter f g ne nf' else Ok nf'
  end.

Definition w_nterm_first (g : grammar) (ne : cbitset) : res (list cbitset) :=
  w_first_iter (S (nterm_count g * term_count g)) g ne
               (repeat (w_empty_terms g) (nterm_count g)).
