(* Grammar data as ctpg keeps it after rule analysis (struct grammar_info, ctpg.hpp),
   and the rule analysis itself (analyze_rules / make_nterm_rule_slices / rule precedence). No proofs here. *)
Require Import Ctpg.Base.Prelude.

Inductive symbol := T (i : nat) | NT (i : nat).
Inductive assoc := NoAssoc | Ltor | Rtol.

Definition symbol_eqb (a b : symbol) : bool :=
  match a, b with
  | T i, T j => Nat.eqb i j
  | NT i, NT j => Nat.eqb i j
  | _, _ => false
  end.

Record rule_info := mkRI { ri_l : nat; ri_r : nat; ri_n : nat }.

(* term_count includes <eof> and <error_recovery_token>; nterm_count includes the fake root ##;
   rule_count includes the root rule ## -> root, whose r_idx is rule_count - 1. *)
Record grammar := mkG {
  term_count : nat;
  nterm_count : nat;
  rule_count : nat;
  max_elems : nat;                       (* max_rule_element_count = max(1, arities) *)
  right_sides : list (list symbol);      (* indexed by r_idx *)
  rule_infos : list rule_info;           (* sorted by l_idx, stable *)
  slices : list (nat * nat);             (* per nonterminal: start, n in rule_infos *)
  term_prec : list Z;
  term_assoc : list assoc;
  rule_prec : list Z;                    (* indexed by r_idx *)
  rule_assoc : list assoc;
  rule_last_term : list (option nat)
}.

Definition eof_idx (g : grammar) : nat := term_count g - 2.
Definition err_idx (g : grammar) : nat := term_count g - 1.
Definition fake_root_idx (g : grammar) : nat := nterm_count g - 1.
Definition root_rule_idx (g : grammar) : nat := rule_count g - 1.
Definition symbol_count (g : grammar) : nat := term_count g + nterm_count g.
Definition situation_size (g : grammar) : nat := max_elems g + 1.
Definition address_space (g : grammar) : nat := rule_count g * situation_size g * term_count g.

Definition dummy_ri := mkRI 0 0 0.
Definition get_ri (g : grammar) (i : nat) : rule_info := nth i (rule_infos g) dummy_ri.
Definition get_rhs (g : grammar) (r : nat) : list symbol := nth r (right_sides g) [].
(* parse table column of a symbol: nonterminals first, then terms *)
Definition sym_col (g : grammar) (s : symbol) : nat :=
  match s with T i => nterm_count g + i | NT i => i end.

(* ---------- rule analysis from the DSL-level description ---------- *)

Definition ident := list nat.   (* a C string as bytes *)
Definition ident_eqb (a b : ident) : bool := list_eqb Nat.eqb a b.

Record raw_term := mkRT { rt_id : ident; rt_prec : Z; rt_assoc : assoc }.
Inductive raw_sym := RTerm (id : ident) | RNterm (name : ident).
Record raw_rule := mkRR { rr_l : ident; rr_r : list raw_sym; rr_prec : option Z }.
Record raw_grammar := mkRG {
  rg_root : ident;
  rg_terms : list raw_term;
  rg_nterms : list ident;
  rg_rules : list raw_rule
}.

(* utils::find_str: first index whose string equals; None = throws "string not found" *)
Fixpoint find_str (tbl : list ident) (s : ident) : option nat :=
  match tbl with
  | [] => None
  | x :: t => if ident_eqb x s then Some 0 else option_map S (find_str t s)
  end.

Definition id_fake_root : ident := [35; 35].                     (* "##" *)
Definition id_eof : ident := [60; 101; 111; 102; 62].            (* "<eof>" *)
Definition id_error : ident :=                                    (* "<error_recovery_token>" *)
  [60;101;114;114;111;114;95;114;101;99;111;118;101;114;121;95;116;111;107;101;110;62].

Fixpoint map_opt {A B} (f : A -> option B) (l : list A) : option (list B) :=
  match l with
  | [] => Some []
  | x :: t => match f x, map_opt f t with
              | Some y, Some ys => Some (y :: ys)
              | _, _ => None
              end
  end.

Definition make_symbol (term_ids nterm_names : list ident) (s : raw_sym) : option symbol :=
  match s with
  | RTerm id => option_map T (find_str term_ids id)
  | RNterm n => option_map NT (find_str nterm_names n)
  end.

(* calculate_rule_last_term: the last term of the right side, if any *)
Fixpoint last_term (r : list symbol) : option nat :=
  match r with
  | [] => None
  | s :: t => match last_term t with
              | Some x => Some x
              | None => match s with T i => Some i | NT _ => None end
              end
  end.

(* stable insertion sort of rule_infos by l_idx (stdex::sort is a bubble sort swapping only on strict <, hence stable:
   rules of one nonterminal keep their order of appearance in rules(...)). fold_right inserts the last rule first, so an
   element goes BEFORE the elements that are not smaller. *)
Fixpoint insert_ri (x : rule_info) (l : list rule_info) : list rule_info :=
  match l with
  | [] => [x]
  | y :: t => if Nat.leb (ri_l x) (ri_l y) then x :: y :: t else y :: insert_ri x t
  end.
Definition sort_ris (l : list rule_info) : list rule_info :=
  fold_right insert_ri [] l.

(* make_nterm_rule_slices, as coded: nt starts at 0; a change of l_idx starts a new slice *)
Fixpoint make_slices_aux (ris : list rule_info) (i nt : nat) (sl : list (nat * nat)) : list (nat * nat) :=
  match ris with
  | [] => sl
  | ri :: t =>
      if Nat.eqb nt (ri_l ri)
      then make_slices_aux t (S i) nt (update sl nt (fst (nth nt sl (0,0)), S (snd (nth nt sl (0,0)))))
      else make_slices_aux t (S i) (ri_l ri) (update sl (ri_l ri) (i, 1))
  end.
Definition make_slices (nterm_cnt : nat) (ris : list rule_info) : list (nat * nat) :=
  make_slices_aux ris 0 0 (repeat (0, 0) nterm_cnt).

Definition max_list (l : list nat) : nat := fold_right Nat.max 0 l.

Definition analyze (rg : raw_grammar) : option grammar :=
  let term_ids := map rt_id (rg_terms rg) ++ [id_eof; id_error] in
  let nterm_names := rg_nterms rg ++ [id_fake_root] in
  let tprec := map rt_prec (rg_terms rg) ++ [0%Z; 0%Z] in
  let tassoc := map rt_assoc (rg_terms rg) ++ [NoAssoc; NoAssoc] in
  let all_rules := rg_rules rg ++ [mkRR id_fake_root [RNterm (rg_root rg)] None] in
  match map_opt (fun r => find_str nterm_names (rr_l r)) all_rules,
        map_opt (fun r => map_opt (make_symbol term_ids nterm_names) (rr_r r)) all_rules with
  | Some ls, Some rs =>
      let ris := map (fun p => mkRI (fst (snd p)) (fst p) (length (snd (snd p))))
                     (combine (seq 0 (length all_rules)) (combine ls rs)) in
      let lasts := map last_term rs in
      let precs := map (fun p =>
                         match rr_prec (fst p) with
                         | Some z => z
                         | None => match snd p with
                                   | Some t => nth t tprec 0%Z
                                   | None => 0%Z
                                   end
                         end) (combine all_rules lasts) in
      let assocs := map (fun l => match l with Some t => nth t tassoc NoAssoc | None => NoAssoc end) lasts in
      let sorted := sort_ris ris in
      Some (mkG (length term_ids) (length nterm_names) (length all_rules)
                (Nat.max 1 (max_list (map (fun r => length (rr_r r)) (rg_rules rg))))
                rs sorted (make_slices (length nterm_names) sorted)
                tprec tassoc precs assocs lasts)
  | _, _ => None
  end.
