(* Mirror of the helper functors of namespace ftors (ctpg.hpp): which argument positions they read.
   The C++ selects positions with "skip lists" of ignore<I> parameters whose lengths come from the template arguments:
   element<X>: X-1 ignored, then the argument; construct<T,I>: I-1 ignored; push_back/emplace_back<C,A>:
   min(C,A)-1 ignored, first pick, max(C,A)-min(C,A)-1 ignored, second pick; container_first = C < A. *)
Require Import Ctpg.Base.Prelude.

Section Helpers.
  Variable V : Type.

  (* drop the skip list, take the next argument *)
  Definition pick_after (skip : nat) (args : list V) : option (V * list V) :=
    match skipn skip args with
    | x :: rest => Some (x, rest)
    | [] => None          (* not callable: too few arguments (a compile error in C++) *)
    end.

  (* element<X> : _e1 .. _e9 *)
  Definition element (x : nat) (args : list V) : option V := option_map fst (pick_after (x - 1) args).

  (* construct<T, I>(args) = T{arg_I} *)
  Definition construct (mk : V -> V) (i : nat) (args : list V) : option V := option_map mk (element i args).

  (* push_back<C,A> / emplace_back<C,A>: append the A-th value to the C-th and return that container *)
  Definition append_to (app : V -> V -> V) (c a : nat) (args : list V) : option V :=
    let lo := Nat.min c a in let hi := Nat.max c a in
    match pick_after (lo - 1) args with
    | None => None
    | Some (first, rest) =>
        match pick_after (hi - lo - 1) rest with
        | None => None
        | Some (second, _) => if Nat.ltb c a then Some (app first second) else Some (app second first)
        end
    end.

  Definition val (v : V) (_ : list V) : V := v.
  Definition create (dflt : V) (_ : list V) : V := dflt.
End Helpers.
