(* Word-level mirror of namespace stdex of ctpg.hpp: cbitset<N> (64-bit words, shifts and masks), cvector<T,N>
   (array + size, unchecked except push_back/emplace_back), cqueue<T,N> (ring buffer) and stdex::sort (bubble sort).
   The rest of the model uses their abstractions (Prelude.bset = list bool, lists, Grammar.sort_ris); Proofs/Containers*.v
   prove that these representations refine the abstractions for every sequence of operations, and the correspondence
   harness harness/containers.cpp runs the real templates on the same operation sequences.
   The constants word_bits / word_count are tied to the source text by SourceFacts (cbitset_underlying_bits, ..). *)
From Ctpg Require Import Base.Prelude.
From Coq Require Import NArith ZArith.
Local Open Scope N_scope.

(* outcome of an operation: value, C++ exception (check_idx, check_not_full, cqueue range errors), or an access the
   C++ code performs outside the object's array / on an indeterminate element (undefined behaviour, never checked) *)
Inductive res (A : Type) : Type := Ok (a : A) | Throw | Undef.
Arguments Ok {A} a. Arguments Throw {A}. Arguments Undef {A}.

(* ------------------------------------------------------------------ cbitset<N> *)
Definition word_bits : N := 64.                    (* underlying_size = sizeof(std::uint64_t) * 8 *)
Definition word_mask : N := N.ones 64.             (* underlying_type(-1) *)
Definition word_count (n : N) : N :=               (* underlying_count = N / underlying_size + ((N % underlying_size) ? 1 : 0) *)
  n / word_bits + (if n mod word_bits =? 0 then 0 else 1).

Record cbitset : Type := { cb_n : N; cb_data : list N }.

Definition cb_new (n : N) : cbitset := {| cb_n := n; cb_data := repeat 0 (N.to_nat (word_count n)) |}.

Definition cb_wi (idx : N) : nat := N.to_nat (idx / word_bits).          (* idx / underlying_size *)
Definition cb_bit (idx : N) : N := N.shiftl 1 (idx mod word_bits).       (* underlying_type(1) << (idx % underlying_size) *)
Definition cb_word (b : cbitset) (idx : N) : N := nth (cb_wi idx) (cb_data b) 0.

Definition cb_upd (b : cbitset) (idx : N) (f : N -> N) : res cbitset :=
  if idx <? cb_n b                                                        (* check_idx *)
  then Ok {| cb_n := cb_n b; cb_data := update (cb_data b) (cb_wi idx) (f (cb_word b idx)) |}
  else Throw.

(* data[w] |= bit *)
Definition cb_set (b : cbitset) (idx : N) : res cbitset := cb_upd b idx (fun w => N.lor w (cb_bit idx)).
(* data[w] ^= (-!!value ^ data[w]) & bit *)
Definition cb_set_val (b : cbitset) (idx : N) (v : bool) : res cbitset :=
  cb_upd b idx (fun w => N.lxor w (N.land (N.lxor (if v then word_mask else 0) w) (cb_bit idx))).
(* data[w] &= ~bit   (the complement is taken in 64 bits) *)
Definition cb_reset (b : cbitset) (idx : N) : res cbitset :=
  cb_upd b idx (fun w => N.land w (N.lxor (cb_bit idx) word_mask)).
(* data[w] ^= bit *)
Definition cb_flip (b : cbitset) (idx : N) : res cbitset := cb_upd b idx (fun w => N.lxor w (cb_bit idx)).
(* (data[w] >> (idx % 64)) & 1 *)
Definition cb_test (b : cbitset) (idx : N) : res bool :=
  if idx <? cb_n b then Ok (negb (N.land (N.shiftr (cb_word b idx) (idx mod word_bits)) 1 =? 0)) else Throw.

Definition cb_flip_all (b : cbitset) : cbitset := {| cb_n := cb_n b; cb_data := map (fun w => N.lxor w word_mask) (cb_data b) |}.
Definition cb_set_all (b : cbitset) : cbitset := {| cb_n := cb_n b; cb_data := map (fun _ => word_mask) (cb_data b) |}.
Definition cb_reset_all (b : cbitset) : cbitset := {| cb_n := cb_n b; cb_data := map (fun _ => 0) (cb_data b) |}.

Fixpoint words_or (a b : list N) : list N :=
  match a, b with
  | x :: a', y :: b' => N.lor x y :: words_or a' b'
  | _, _ => a
  end.
Definition cb_add (b other : cbitset) : cbitset := {| cb_n := cb_n b; cb_data := words_or (cb_data b) (cb_data other) |}.
Definition cb_eqb (a b : cbitset) : bool := list_eqb N.eqb (cb_data a) (cb_data b).

(* operations as data, for runs of arbitrary operation sequences *)
Inductive cb_op : Type :=
| BSet (i : N) | BSetVal (i : N) (v : bool) | BReset (i : N) | BFlip (i : N)
| BFlipAll | BSetAll | BResetAll | BAddSelfShift (k : N).   (* BAddSelfShift k: other = {}; other.set(k); this->add(other) *)

Definition keep {A} (old : A) (r : res A) : A := match r with Ok a => a | _ => old end.

Definition cb_apply (b : cbitset) (o : cb_op) : res cbitset :=
  match o with
  | BSet i => cb_set b i
  | BSetVal i v => cb_set_val b i v
  | BReset i => cb_reset b i
  | BFlip i => cb_flip b i
  | BFlipAll => Ok (cb_flip_all b)
  | BSetAll => Ok (cb_set_all b)
  | BResetAll => Ok (cb_reset_all b)
  | BAddSelfShift k => match cb_set (cb_new (cb_n b)) k with Ok o' => Ok (cb_add b o') | Throw => Throw | Undef => Undef end
  end.
Definition cb_step (b : cbitset) (o : cb_op) : cbitset := keep b (cb_apply b o).

Definition cb_run (n : N) (ops : list cb_op) : cbitset := fold_left cb_step ops (cb_new n).

(* the abstraction used by the rest of the model: Prelude.bset *)
Definition cb_mem (b : cbitset) (idx : N) : bool := match cb_test b idx with Ok v => v | _ => false end.
Definition cb_abs (b : cbitset) : bset := map (fun i => cb_mem b (N.of_nat i)) (seq 0 (N.to_nat (cb_n b))).

(* ------------------------------------------------------------------ cvector<T,N> *)
Record cvector (A : Type) : Type := { cv_cap : N; cv_data : list A; cv_size : N }.
Arguments cv_cap {A} c. Arguments cv_data {A} c. Arguments cv_size {A} c.

Definition size_max : N := N.ones 64.              (* std::size_t is 64 bits on the platforms the checks run on *)

Definition cv_new {A} (cap : N) (d : A) : cvector A := {| cv_cap := cap; cv_data := repeat d (N.to_nat cap); cv_size := 0 |}.

(* check_not_full(); the_data[current_size++] = v *)
Definition cv_push {A} (c : cvector A) (x : A) : res (cvector A) :=
  if cv_cap c <=? cv_size c then Throw
  else Ok {| cv_cap := cv_cap c; cv_data := update (cv_data c) (N.to_nat (cv_size c)) x; cv_size := cv_size c + 1 |}.
(* current_size--  (unchecked: wraps on an empty vector) *)
Definition cv_pop {A} (c : cvector A) : cvector A :=
  {| cv_cap := cv_cap c; cv_data := cv_data c; cv_size := if cv_size c =? 0 then size_max else cv_size c - 1 |}.
Definition cv_clear {A} (c : cvector A) : cvector A := {| cv_cap := cv_cap c; cv_data := cv_data c; cv_size := 0 |}.
(* the_data[idx] : unchecked *)
Definition cv_get {A} (c : cvector A) (idx : N) : res A :=
  match nth_error (cv_data c) (N.to_nat idx) with Some x => Ok x | None => Undef end.
(* the_data[current_size - 1] *)
Definition cv_back {A} (c : cvector A) : res A :=
  if cv_size c =? 0 then Undef else cv_get c (cv_size c - 1).

(* erase(first, last), iterators given as offsets from the_data (may lie outside [0, size]: the code clamps) *)
Fixpoint cv_move {A} (data : list A) (from it : nat) (n : nat) : list A :=      (* n = end - it elements are moved down *)
  match n with
  | O => data
  | S n' => match nth_error data it with
            | Some x => cv_move (update data from x) (S from) (S it) n'
            | None => data
            end
  end.
Definition cv_erase {A} (c : cvector A) (first last : Z) : res (cvector A) :=
  if negb (first <? last)%Z then Ok c
  else
    let from := (if first <? 0 then 0 else first)%Z in
    let to := (if Z.of_N (cv_size c) <? last then Z.of_N (cv_size c) else last)%Z in
    if (to <? from)%Z then Undef                         (* size_type(to - from) wraps; elements are moved from before `from` *)
    else
      let diff := Z.to_N (to - from) in
      Ok {| cv_cap := cv_cap c;
            cv_data := cv_move (cv_data c) (Z.to_nat from) (Z.to_nat to) (N.to_nat (cv_size c) - Z.to_nat to);
            cv_size := cv_size c - diff |}.

Definition cv_abs {A} (c : cvector A) : list A := firstn (N.to_nat (cv_size c)) (cv_data c).
Definition cv_wf {A} (c : cvector A) : Prop := length (cv_data c) = N.to_nat (cv_cap c) /\ cv_size c <= cv_cap c.

Inductive cv_op (A : Type) : Type := VPush (x : A) | VPop | VClear | VEraseLast (n : N) | VErase (f l : Z).
Arguments VPush {A} x. Arguments VPop {A}. Arguments VClear {A}. Arguments VEraseLast {A} n. Arguments VErase {A} f l.

(* a stack user that never pops an empty vector (the driver's discipline); erase(end() - n, end()) is reduce()'s call *)
Definition cv_step {A} (c : cvector A) (o : cv_op A) : cvector A :=
  match o with
  | VPush x => keep c (cv_push c x)
  | VPop => if cv_size c =? 0 then c else cv_pop c
  | VClear => cv_clear c
  | VEraseLast n => keep c (cv_erase c (Z.of_N (cv_size c) - Z.of_N n) (Z.of_N (cv_size c)))
  | VErase f l => keep c (cv_erase c f l)
  end.
Definition cv_run {A} (cap : N) (d : A) (ops : list (cv_op A)) : cvector A := fold_left cv_step ops (cv_new cap d).

(* the list-level specification of the same operations *)
Definition lv_step {A} (cap : N) (l : list A) (o : cv_op A) : list A :=
  match o with
  | VPush x => if cap <=? N.of_nat (length l) then l else l ++ [x]
  | VPop => removelast l
  | VClear => []
  | VEraseLast n => firstn (length l - N.to_nat n) l
  | VErase f t =>
      if negb (f <? t)%Z then l
      else let from := Z.to_nat f in
           let to := Nat.min (length l) (Z.to_nat t) in
           if (to <? from)%nat then l else firstn from l ++ skipn to l
  end.

(* ------------------------------------------------------------------ cqueue<T,N> *)
Record cqueue (A : Type) : Type := { cq_cap : N; cq_data : list A; cq_start : N; cq_end : N; cq_size : N }.
Arguments cq_cap {A} c. Arguments cq_data {A} c. Arguments cq_start {A} c. Arguments cq_end {A} c. Arguments cq_size {A} c.

Definition cq_new {A} (cap : N) (d : A) : cqueue A :=
  {| cq_cap := cap; cq_data := repeat d (N.to_nat cap); cq_start := 0; cq_end := 0; cq_size := 0 |}.
Definition cq_push {A} (q : cqueue A) (x : A) : res (cqueue A) :=
  if cq_cap q <=? cq_size q then Throw
  else let e := cq_end q + 1 in
       Ok {| cq_cap := cq_cap q; cq_data := update (cq_data q) (N.to_nat (cq_end q)) x; cq_start := cq_start q;
             cq_end := if e =? cq_cap q then 0 else e; cq_size := cq_size q + 1 |}.
Definition cq_pop {A} (q : cqueue A) : res (cqueue A) :=
  if cq_size q =? 0 then Throw
  else let s := cq_start q + 1 in
       Ok {| cq_cap := cq_cap q; cq_data := cq_data q; cq_start := if s =? cq_cap q then 0 else s;
             cq_end := cq_end q; cq_size := cq_size q - 1 |}.
Definition cq_top {A} (q : cqueue A) : res A :=
  if cq_size q =? 0 then Throw
  else match nth_error (cq_data q) (N.to_nat (cq_start q)) with Some x => Ok x | None => Undef end.

Inductive cq_op (A : Type) : Type := QPush (x : A) | QPop.
Arguments QPush {A} x. Arguments QPop {A}.
Definition cq_step {A} (q : cqueue A) (o : cq_op A) : cqueue A :=
  match o with QPush x => keep q (cq_push q x) | QPop => keep q (cq_pop q) end.
Definition cq_run {A} (cap : N) (d : A) (ops : list (cq_op A)) : cqueue A := fold_left cq_step ops (cq_new cap d).

(* the FIFO specification: oldest first *)
Definition lq_step {A} (cap : N) (l : list A) (o : cq_op A) : list A :=
  match o with
  | QPush x => if cap <=? N.of_nat (length l) then l else l ++ [x]
  | QPop => tl l
  end.
(* contents of the ring, oldest first *)
Fixpoint cq_take {A} (data : list A) (cap : nat) (start : nat) (n : nat) : list A :=
  match n with
  | O => []
  | S n' => match nth_error data start with
            | Some x => x :: cq_take data cap (if Nat.eqb (S start) cap then 0%nat else S start) n'
            | None => []
            end
  end.
Definition cq_abs {A} (q : cqueue A) : list A :=
  cq_take (cq_data q) (N.to_nat (cq_cap q)) (N.to_nat (cq_start q)) (N.to_nat (cq_size q)).

(* ------------------------------------------------------------------ stdex::sort *)
(* one pass of `for (i = 0; i < size - 1; i++) if (p(c[i+1], c[i])) swap(c[i], c[i+1])`: x is c[i] as it stands when the
   loop reaches i (the larger of a swapped pair travels on); the boolean is `swap` *)
Fixpoint bubble_pass {A} (p : A -> A -> bool) (x : A) (t : list A) : list A * bool :=
  match t with
  | [] => ([x], false)
  | y :: t' => if p y x
               then let (r, _) := bubble_pass p x t' in (y :: r, true)
               else let (r, s) := bubble_pass p y t' in (x :: r, s)
  end.
(* while (swap) { ... } with explicit fuel; None = fuel exhausted *)
Fixpoint bubble_loop {A} (p : A -> A -> bool) (fuel : nat) (l : list A) : option (list A) :=
  match fuel with
  | O => None
  | S f => match l with
           | [] => Some []
           | x :: t => let (l', s) := bubble_pass p x t in if s then bubble_loop p f l' else Some l'
           end
  end.
(* std::size(c) - 1 is computed in unsigned arithmetic: on an empty container the loop bound is huge and c[1], c[0] are
   read outside the container *)
Definition stdex_sort {A} (p : A -> A -> bool) (l : list A) : res (list A) :=
  match l with
  | [] => Undef
  | _ => match bubble_loop p (S (length l)) l with Some r => Ok r | None => Undef end
  end.
