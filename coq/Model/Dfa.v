(* Mirror of regex::dfa_state, dfa_size_analyzer, dfa_builder (in-place merging), the term-set lexer
   construction (add_term_data_to_dfa) and dfa_match. No proofs here. *)
Require Import Ctpg.Base.Prelude Ctpg.Model.Driver.
From Coq Require Import NArith.

Definition charset := list bool.                    (* 256 entries: char_subset *)
Definition cs_empty : charset := repeat false 256.
Definition cs_single (c : nat) : charset := update cs_empty c true.
Definition cs_flip (s : charset) : charset := map negb s.
(* add_range: for i = c1 .. c2 inclusive *)
Definition cs_add_range (s : charset) (c1 c2 : nat) : charset :=
  fold_left (fun acc i => update acc i true) (seq c1 (S c2 - c1)) s.

Record dstate := mkD {
  d_start : bool; d_end : bool; d_unreach : bool;
  d_rec : list nat;                 (* filled slots of conflicted_recognition, at most 4, in slot order *)
  d_trans : list (option nat);      (* 256 entries; None = uninitialized16 *)
  d_merged : list nat               (* merged_from bits that are set *)
}.
Definition dstate0 := mkD false false false [] (repeat None 256) [].
Definition dfa := list dstate.

Record slice := mkSl { sl_start : nat; sl_n : nat }.

(* ---------- dfa_size_analyzer ---------- *)
Inductive regex :=
| RSet (s : charset)
| RStar (r : regex) | RPlus (r : regex) | ROpt (r : regex)
| RRep (r : regex) (n : nat)
| RCat (a b : regex) | RAlt (a b : regex).

(* returns (slice, new size) from the running size; post-order like the reductions *)
Fixpoint analyze_size (r : regex) (size : nat) : slice * nat :=
  match r with
  | RSet _ => (mkSl size 2, size + 2)
  | RStar a | RPlus a | ROpt a => analyze_size a size
  | RRep a n =>
      let '(s, sz) := analyze_size a size in
      match n with
      | 0 => (s, sz)
      | S m => (mkSl (sl_start s) (sl_n s * n), sz + sl_n s * m)
      end
  | RCat a b | RAlt a b =>
      let '(s1, sz1) := analyze_size a size in
      let '(s2, sz2) := analyze_size b sz1 in
      (mkSl (sl_start s1) (sl_n s1 + sl_n s2), sz2)
  end.

(* ---------- dfa_builder ---------- *)
Definition get (sm : dfa) (i : nat) : dstate := nth i sm dstate0.
Definition set_start (d : dstate) (b : bool) := mkD b (d_end d) (d_unreach d) (d_rec d) (d_trans d) (d_merged d).
Definition set_end (d : dstate) (b : bool) := mkD (d_start d) b (d_unreach d) (d_rec d) (d_trans d) (d_merged d).
Definition set_unreach (d : dstate) (b : bool) := mkD (d_start d) (d_end d) b (d_rec d) (d_trans d) (d_merged d).
Definition set_rec (d : dstate) (r : list nat) := mkD (d_start d) (d_end d) (d_unreach d) r (d_trans d) (d_merged d).
Definition set_trans (d : dstate) (t : list (option nat)) := mkD (d_start d) (d_end d) (d_unreach d) (d_rec d) t (d_merged d).
Definition set_merged (d : dstate) (m : list nat) := mkD (d_start d) (d_end d) (d_unreach d) (d_rec d) (d_trans d) m.
Definition upd (sm : dfa) (i : nat) (f : dstate -> dstate) : dfa := update sm i (f (get sm i)).

(* add_conflicted_term: first free slot of four *)
Definition add_conflicted (r : list nat) (t : nat) : list nat := if Nat.ltb (length r) 4 then r ++ [t] else r.
(* mark_end_state *)
Definition mark_end_state (d : dstate) (t : nat) : dstate := if d_end d then set_rec d (add_conflicted (d_rec d) t) else d.

(* primary_subset *)
Definition primary_subset (sm : dfa) (s : charset) : dfa * slice :=
  let old := length sm in
  let st0 := set_trans (set_start dstate0 true) (map (fun b : bool => if b then Some (S old) else None) s) in
  (sm ++ [st0; set_end dstate0 true], mkSl old 2).

(* merge(to, from, keep_end_state, mark_from_as_unreachable); fuel bounds the recursion depth *)
Fixpoint merge (fuel : nat) (sm : dfa) (to from : nat) (keep mark : bool) : option dfa :=
  match fuel with
  | 0 => None
  | S f =>
      if Nat.eqb to from then Some sm else
      if mem_nat from (d_merged (get sm to)) then Some sm else
      let sm1 := upd sm to (fun d => set_merged d (from :: d_merged d)) in
      let sm2 := upd sm1 from (fun d => set_start d false) in
      let e := if keep then d_end (get sm2 to) || d_end (get sm2 from) else d_end (get sm2 from) in
      let sm3 := upd sm2 to (fun d => set_end d e) in
      let sm4 := upd sm3 from (fun d => set_unreach d mark) in
      let after_loop :=
        fold_left (fun (acc : option dfa) (i : nat) =>
                     match acc with
                     | None => None
                     | Some s =>
                         match nth i (d_trans (get s from)) None with
                         | None => Some s
                         | Some trf =>
                             match nth i (d_trans (get s to)) None with
                             | None =>
                                 let s1 := upd s to (fun d => set_trans d (update (d_trans d) i (Some trf))) in
                                 Some (upd s1 trf (fun d => set_unreach d false))
                             | Some trt => merge f s trt trf keep mark
                             end
                         end
                     end) (seq 0 256) (Some sm4) in
      match after_loop with
      | None => None
      | Some s =>
          Some (fold_left (fun acc t => upd acc to (fun d => mark_end_state d t)) (d_rec (get s from)) s)
      end
  end.

Definition merge_fuel (sm : dfa) : nat := S (length sm * length sm).

(* loops "for i in slice: if sm[i].end_state: merge(i, b, ...)" observe the updated automaton *)
Fixpoint merge_ends (sm : dfa) (idxs : list nat) (b : nat) (keep mark : bool) : option dfa :=
  match idxs with
  | [] => Some sm
  | i :: t =>
      if d_end (get sm i)
      then match merge (merge_fuel sm) sm i b keep mark with
           | Some sm' => merge_ends sm' t b keep mark
           | None => None
           end
      else merge_ends sm t b keep mark
  end.

Definition slice_idxs (s : slice) : list nat := seq (sl_start s) (sl_n s).

Definition b_star (sm : dfa) (s : slice) : option (dfa * slice) :=
  let sm1 := upd sm (sl_start s) (fun d => set_end d true) in
  option_map (fun x => (x, s)) (merge_ends sm1 (slice_idxs s) (sl_start s) false false).
Definition b_plus (sm : dfa) (s : slice) : option (dfa * slice) :=
  option_map (fun x => (x, s)) (merge_ends sm (slice_idxs s) (sl_start s) true false).
Definition b_opt (sm : dfa) (s : slice) : option (dfa * slice) :=
  Some (upd sm (sl_start s) (fun d => set_end d true), s).
Definition b_cat (sm : dfa) (s1 s2 : slice) : option (dfa * slice) :=
  option_map (fun x => (x, mkSl (sl_start s1) (sl_n s1 + sl_n s2)))
             (merge_ends sm (slice_idxs s1) (sl_start s2) false true).
Definition b_alt (sm : dfa) (s1 s2 : slice) : option (dfa * slice) :=
  option_map (fun x => (x, mkSl (sl_start s1) (sl_n s1 + sl_n s2)))
             (merge (merge_fuel sm) sm (sl_start s1) (sl_start s2) true true).

(* rep(s, n) *)
Definition rep0_state (d : dstate) : dstate :=
  if d_start d then set_start (set_end (set_trans d (repeat None 256)) true) false
  else set_unreach d true.
Definition shift_trans (k : nat) (d : dstate) : dstate :=
  set_trans d (map (fun t => match t with Some x => Some (x + k) | None => None end) (d_trans d)).
(* the copying loop: for i < n-1: for j in slice: push_back(sm[j] shifted by s.n*(i+1)) *)
Fixpoint rep_copies (sm : dfa) (s : slice) (i cnt : nat) : dfa :=
  match cnt with
  | 0 => sm
  | S c => rep_copies (sm ++ map (fun j => shift_trans (sl_n s * S i) (get sm j)) (slice_idxs s)) s (S i) c
  end.
Fixpoint rep_cats (sm : dfa) (whole : slice) (n : nat) (cnt : nat) : option (dfa * slice) :=
  match cnt with
  | 0 => Some (sm, whole)
  | S c => match b_cat sm whole (mkSl (sl_start whole + sl_n whole) n) with
           | Some (sm', _) => rep_cats sm' (mkSl (sl_start whole) (sl_n whole + n)) n c
           | None => None
           end
  end.
Definition b_rep (sm : dfa) (s : slice) (n : nat) : option (dfa * slice) :=
  match n with
  | 0 => Some (fold_left (fun acc j => upd acc j rep0_state) (slice_idxs s) sm, s)
  | S m => rep_cats (rep_copies sm s 0 m) s (sl_n s) m
  end.

(* the whole pattern, in reduction (post-) order *)
Fixpoint build (r : regex) (sm : dfa) : option (dfa * slice) :=
  match r with
  | RSet s => Some (primary_subset sm s)
  | RStar a => match build a sm with Some (sm1, s) => b_star sm1 s | None => None end
  | RPlus a => match build a sm with Some (sm1, s) => b_plus sm1 s | None => None end
  | ROpt a => match build a sm with Some (sm1, s) => b_opt sm1 s | None => None end
  | RRep a n => match build a sm with Some (sm1, s) => b_rep sm1 s n | None => None end
  | RCat a b => match build a sm with
                | Some (sm1, s1) => match build b sm1 with
                                    | Some (sm2, s2) => b_cat sm2 s1 s2
                                    | None => None
                                    end
                | None => None
                end
  | RAlt a b => match build a sm with
                | Some (sm1, s1) => match build b sm1 with
                                    | Some (sm2, s2) => b_alt sm2 s1 s2
                                    | None => None
                                    end
                | None => None
                end
  end.

Definition mark_end_states (sm : dfa) (s : slice) (t : nat) : dfa :=
  fold_left (fun acc i => upd acc i (fun d => mark_end_state d t)) (slice_idxs s) sm.

(* regex::expr<Pattern>: build, then mark_end_states(slice, 0) *)
Definition build_expr (r : regex) : option dfa :=
  match build r [] with
  | Some (sm, s) => Some (mark_end_states sm s 0)
  | None => None
  end.

(* ---------- term-set lexer: add_term_data_to_dfa overloads ---------- *)
Inductive term_data := TChar (c : nat) | TString (s : list nat) | TRegex (r : regex).

Definition regex_of_string (s : list nat) : regex :=
  match s with
  | [] => RSet (cs_single 0)              (* string_term(""): str[0] is the terminator *)
  | c :: t => fold_left (fun acc x => RCat acc (RSet (cs_single x))) t (RSet (cs_single c))
  end.
Definition regex_of_term (t : term_data) : regex :=
  match t with
  | TChar c => RSet (cs_single c)
  | TString s => regex_of_string s
  | TRegex r => r
  end.

Definition add_term (sm : dfa) (t : term_data) (idx : nat) : option dfa :=
  let prev := mkSl 0 (length sm) in
  match build (regex_of_term t) sm with
  | Some (sm1, s) => option_map fst (b_alt (mark_end_states sm1 s idx) prev s)
  | None => None
  end.

Fixpoint create_lexer_aux (ts : list term_data) (idx : nat) (sm : dfa) : option dfa :=
  match ts with
  | [] => Some sm
  | t :: rest => match add_term sm t idx with
                 | Some sm' => create_lexer_aux rest (S idx) sm'
                 | None => None
                 end
  end.
Definition create_lexer (ts : list term_data) : option dfa := create_lexer_aux ts 0 [].

(* ---------- dfa_match ---------- *)
(* returns trace lines (when verbose), the last recognition (term, len), and whether sm[state] was out of range *)
Fixpoint dfa_match_aux (sm : dfa) (verbose : bool) (st : nat) (p : spoint) (len : nat) (inp : list nat)
         (rt : option (nat * nat)) (ev : list lex_event) : list lex_event * option (nat * nat) * bool :=
  match nth_error sm st with
  | None => (rev ev, rt, true)
  | Some d =>
      let '(rt1, ev1) :=
        match d_rec d with
        | t :: _ => (Some (t, len), if verbose then LxRecognized p t :: ev else ev)
        | [] => (rt, ev)
        end in
      match inp with
      | [] => (rev ev1, rt1, false)
      | c :: rest =>
          match nth c (d_trans d) None with
          | None => (rev ev1, rt1, false)
          | Some nx =>
              let ev2 := if verbose then LxNewState p nx :: LxChar p c :: ev1 else ev1 in
              dfa_match_aux sm verbose nx (sp_update p [c]) (S len) rest rt1 ev2
          end
      end
  end.

Definition dfa_match (sm : dfa) (verbose : bool) (p : spoint) (inp : list nat) : list lex_event * option (nat * nat) :=
  let '(ev, rt, _) := dfa_match_aux sm verbose 0 p 0 inp None [] in (ev, rt).
Definition dfa_match_oob (sm : dfa) (inp : list nat) : bool :=
  let '(_, _, oob) := dfa_match_aux sm false 0 sp0 0 inp None [] in oob.

(* regex::expr::match *)
Definition expr_match (sm : dfa) (inp : list nat) : bool :=
  match snd (dfa_match sm false sp0 inp) with
  | Some (0, len) => Nat.eqb len (length inp)
  | _ => false
  end.
