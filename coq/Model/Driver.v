(* Mirror of parser::context_parse and its helpers (ctpg.hpp): the table-driven LR driver with lazy lexing,
   source-point tracking, error recovery (recovery_mode / consume_mode) and the verbose trace.
   Generic in the semantic algebra (value type V, context type C) and in the lexer (an oracle).
   Unchecked accesses of the C++ are checked here and end the run with Crash. No proofs here. *)
Require Import Ctpg.Base.Prelude Ctpg.Model.Grammar Ctpg.Model.LRGen.

Record spoint := mkSp { sp_line : nat; sp_col : nat }.
Definition sp0 := mkSp 1 1.

(* source_point::update over a byte string; 10 = '\n' *)
Fixpoint sp_update (p : spoint) (bs : list nat) : spoint :=
  match bs with
  | [] => p
  | b :: t => sp_update (if Nat.eqb b 10 then mkSp (S (sp_line p)) 1 else mkSp (sp_line p) (S (sp_col p))) t
  end.

Definition slice_of (buf : list nat) (a b : nat) : list nat := firstn (b - a) (skipn a buf).

Record options := mkOpt { o_verbose : bool; o_skip_ws : bool; o_skip_nl : bool }.

(* skip_whitespace: the two character sets of the source *)
Definition ws_newline : list nat := [9; 10; 11; 12; 13; 32].
Definition ws_no_newline : list nat := [9; 11; 12; 13; 32].
Definition is_ws (o : options) (b : nat) : bool := mem_nat b (if o_skip_nl o then ws_newline else ws_no_newline).
Fixpoint count_ws (o : options) (bs : list nat) : nat :=
  match bs with
  | b :: t => if is_ws o b then S (count_ws o t) else 0
  | [] => 0
  end.

Inductive lex_event :=
| LxRecognized (p : spoint) (t : nat)          (* "<sp> REGEX MATCH: Recognized <t>" *)
| LxChar (p : spoint) (c : nat)                (* "<sp> REGEX MATCH: Current char <name>" *)
| LxNewState (p : spoint) (s : nat)            (* "<sp> REGEX MATCH: New state <s>" *)
| LxCustom (p : spoint) (t : nat).             (* "<sp> LEXER MATCH: Recognized <t> " (regex_lexer) *)

Inductive event :=
| EvLex (e : lex_event)
| EvRecognized (p : spoint) (t : nat)
| EvShift (p : spoint) (st : nat) (lex_start lex_len : nat)
| EvShiftErr (p : spoint) (st : nat)
| EvReduce (p : spoint) (r_idx rule_info_idx : nat)
| EvGoto (p : spoint) (st : option nat)
| EvRR (p : spoint)
| EvSyntaxError (p : spoint) (t : nat)
| EvUnexpectedChar (p : spoint) (c : nat)
| EvEnterRecovery (p : spoint) | EvLeaveRecovery (p : spoint)
| EvEnterConsume (p : spoint) | EvLeaveConsume (p : spoint)
| EvRecoveringTo (p : spoint) (st : nat)
| EvCouldNotRecover (p : spoint)
| EvConsuming (p : spoint) (t : nat)
| EvSuccess (p : spoint).

(* messages written regardless of options.verbose *)
Definition is_nonverbose (e : event) : bool :=
  match e with EvSyntaxError _ _ | EvUnexpectedChar _ _ => true | _ => false end.

Inductive crash :=
| CrTableRow | CrTableCol | CrRuleInfo | CrStackUnderflow | CrEmptyStack | CrGotoUninit | CrNoValue | CrBufferOverrun | CrRRArg.

Inductive result (V : Type) :=
| Accept (v : V) | Reject | Crash (c : crash) | Throw | OutOfFuel.
Arguments Accept {V} v. Arguments Reject {V}. Arguments Crash {V} c. Arguments Throw {V}. Arguments OutOfFuel {V}.

Section Driver.
  Variables V C : Type.
  Variable g : grammar.
  Variable tbl : table.
  Variable opts : options.
  Variable buf : list nat.
  Variable stack_cap : option nat.               (* Some (N + EmptyRulesCount + 1) for cvector stacks *)
  (* lexer oracle: verbose flag, current source point, remaining input -> trace lines, (term, length) *)
  Variable lexer : bool -> spoint -> list nat -> list lex_event * option (nat * nat).
  Variable term_f : nat -> nat -> nat -> spoint -> V.      (* term index, lexeme start, lexeme length, position *)
  Variable err_f : spoint -> V.                            (* the value pushed for <error_recovery_token> *)
  Variable rule_f : nat -> C -> list V -> C * V.           (* rule r_idx, context, children left to right *)

  (* parse_state plus the stacks. The output stream is not part of the state: every helper returns the
     lines it would write with verbose on; [run] keeps those the options let through. *)
  Record pstate := mkPS {
    ps_cursors : list nat;        (* top first *)
    ps_values : list V;           (* top first *)
    ps_sp : spoint;
    ps_it : nat; ps_end : nat;
    ps_term : option nat;
    ps_rec : bool; ps_cons : bool;
    ps_ctx : C
  }.

  Definition full (n : nat) : bool := match stack_cap with Some c => Nat.leb c n | None => false end.

  Definition init (c : C) : pstate := mkPS [0] [] sp0 0 0 None false false c.

  Definition set_pos (s : pstate) (p : spoint) (i e : nat) (t : option nat) : pstate :=
    mkPS (ps_cursors s) (ps_values s) p i e t (ps_rec s) (ps_cons s) (ps_ctx s).
  Definition set_modes (s : pstate) (r c : bool) : pstate :=
    mkPS (ps_cursors s) (ps_values s) (ps_sp s) (ps_it s) (ps_end s) (ps_term s) r c (ps_ctx s).
  Definition set_stacks (s : pstate) (cs : list nat) (vs : list V) : pstate :=
    mkPS cs vs (ps_sp s) (ps_it s) (ps_end s) (ps_term s) (ps_rec s) (ps_cons s) (ps_ctx s).
  Definition set_ctx (s : pstate) (c : C) : pstate :=
    mkPS (ps_cursors s) (ps_values s) (ps_sp s) (ps_it s) (ps_end s) (ps_term s) (ps_rec s) (ps_cons s) c.

  (* get_current_term: new state, the term index (None = lexical failure), lines written *)
  Definition get_current_term (s : pstate) : pstate * option nat * list event :=
    if ps_rec s then (s, Some (err_idx g), []) else
    if negb (Nat.eqb (ps_it s) (ps_end s)) then (s, ps_term s, []) else
    let rest0 := skipn (ps_it s) buf in
    let k := if o_skip_ws opts then count_ws opts rest0 else 0 in
    let sp1 := sp_update (ps_sp s) (firstn k rest0) in
    let it1 := ps_it s + k in
    match skipn k rest0 with
    | [] => (set_pos s sp1 it1 (ps_end s) (Some (eof_idx g)), Some (eof_idx g), [EvRecognized sp1 (eof_idx g)])
    | c :: rest =>
        let '(lx, res) := lexer (o_verbose opts) sp1 (c :: rest) in
        match res with
        | None => (set_pos s sp1 it1 (ps_end s) None, None, map EvLex lx ++ [EvUnexpectedChar sp1 c])
        | Some (t, len) => (set_pos s sp1 it1 (it1 + len) (Some t), Some t, map EvLex lx ++ [EvRecognized sp1 t])
        end
    end.

  (* consume_term *)
  Definition consume_term (s : pstate) : pstate :=
    set_pos s (sp_update (ps_sp s) (slice_of buf (ps_it s) (ps_end s))) (ps_end s) (ps_end s) (ps_term s).

  Definition cell (st col : nat) : (entry + crash) :=
    match nth_error tbl st with
    | None => inr CrTableRow
    | Some row => match nth_error row col with
                  | None => inr CrTableCol
                  | Some e => inl e
                  end
    end.

  (* reduce(ctx, ps, rule_info_idx) *)
  Definition do_reduce (s : pstate) (rule_info_idx : nat) : (pstate * list event) + result V :=
    match nth_error (rule_infos g) rule_info_idx with
    | None => inr (Crash CrRuleInfo)
    | Some ri =>
        let n := ri_n ri in
        if Nat.ltb (length (ps_cursors s)) n then inr (Crash CrStackUnderflow) else
        let cs := skipn n (ps_cursors s) in
        match cs with
        | [] => inr (Crash CrEmptyStack)
        | top :: _ =>
            match cell top (ri_l ri) with
            | inr c => inr (Crash c)
            | inl e =>
                if full (length cs) then inr Throw else
                match e_arg e with
                | None => inr (Crash CrGotoUninit)
                | Some nst =>
                    if Nat.ltb (length (ps_values s)) n then inr (Crash CrStackUnderflow) else
                    let args := rev (firstn n (ps_values s)) in
                    let '(c', v) := rule_f (ri_r ri) (ps_ctx s) args in
                    let vs := skipn n (ps_values s) in
                    if full (length vs) then inr Throw else
                    inl (set_ctx (set_stacks s (nst :: cs) (v :: vs)) c',
                         [EvReduce (ps_sp s) (ri_r ri) rule_info_idx; EvGoto (ps_sp s) (Some nst)])
                end
            end
        end
    end.

  (* pop_stacks: inl = continue, inr = could not recover *)
  Definition pop_stacks (s : pstate) : (pstate * list event) + (pstate * list event) :=
    let cs := tl (ps_cursors s) in
    let s1 := set_stacks s cs (tl (ps_values s)) in
    match cs with
    | [] => inr (s1, [EvCouldNotRecover (ps_sp s)])
    | top :: _ => inl (s1, [EvRecoveringTo (ps_sp s) top])
    end.

  Definition term_or0 (s : pstate) : nat := match ps_term s with Some x => x | None => 0 end.

  (* the action part of one loop iteration, after the current term t is known *)
  Definition act (s1 : pstate) (cursor t : nat) : (pstate + (result V * pstate)) * list event :=
    match cell cursor (nterm_count g + t) with
    | inr c => (inr (Crash c, s1), [])
    | inl e =>
        match e_kind e with
        | KError =>
            if ps_cons s1 then
              (* consume_term_recovering *)
              if match ps_term s1 with Some x => Nat.eqb x (eof_idx g) | None => false end
              then (inr (Reject, s1), [])
              else (inl (consume_term s1), [EvConsuming (ps_sp s1) (term_or0 s1)])
            else if negb (ps_rec s1) then
              (inl (set_modes s1 true (ps_cons s1)), [EvSyntaxError (ps_sp s1) (term_or0 s1); EvEnterRecovery (ps_sp s1)])
            else
              match pop_stacks s1 with
              | inl (s2, ev) => (inl s2, ev)
              | inr (s2, ev) => (inr (Reject, s2), ev)
              end
        | k =>
            let lc := if ps_cons s1 then [EvLeaveConsume (ps_sp s1)] else [] in
            let s2 := if ps_cons s1 then set_modes s1 (ps_rec s1) false else s1 in
            match k with
            | KShift =>
                match e_arg e with
                | None => (inr (Crash CrGotoUninit, s2), lc)
                | Some nst =>
                    let ev := lc ++ [EvShift (ps_sp s2) nst (ps_it s2) (ps_end s2 - ps_it s2)] in
                    if full (length (ps_cursors s2)) then (inr (Throw, s2), ev) else
                    if Nat.ltb (length buf) (ps_end s2) then (inr (Crash CrBufferOverrun, s2), ev) else
                    let v := term_f t (ps_it s2) (ps_end s2 - ps_it s2) (ps_sp s2) in
                    (inl (consume_term (set_stacks s2 (nst :: ps_cursors s2) (v :: ps_values s2))), ev)
                end
            | KShiftErr =>
                match e_arg e with
                | None => (inr (Crash CrGotoUninit, s2), lc)
                | Some nst =>
                    let ev := lc ++ [EvShiftErr (ps_sp s2) nst] in
                    if full (length (ps_cursors s2)) then (inr (Throw, s2), ev) else
                    (inl (set_modes (set_stacks s2 (nst :: ps_cursors s2) (err_f (ps_sp s2) :: ps_values s2)) false true),
                     ev ++ [EvLeaveRecovery (ps_sp s2); EvEnterConsume (ps_sp s2)])
                end
            | KReduce =>
                match e_arg e with
                | None => (inr (Crash CrRRArg, s2), lc)
                | Some r => match do_reduce s2 r with
                            | inl (s3, ev) => (inl s3, lc ++ ev)
                            | inr res => (inr (res, s2), lc)
                            end
                end
            | KRR =>
                match e_arg e with
                | None => (inr (Crash CrRRArg, s2), lc ++ [EvRR (ps_sp s2)])
                | Some r => match do_reduce s2 r with
                            | inl (s3, ev) => (inl s3, lc ++ EvRR (ps_sp s2) :: ev)
                            | inr res => (inr (res, s2), lc ++ [EvRR (ps_sp s2)])
                            end
                end
            | KSuccess =>
                match rev (ps_values s2) with
                | [] => (inr (Crash CrNoValue, s2), lc ++ [EvSuccess (ps_sp s2)])
                | v :: _ => (inr (Accept v, s2), lc ++ [EvSuccess (ps_sp s2)])
                end
            | KError => (inr (Reject, s2), lc)   (* unreachable *)
            end
        end
    end.

  (* one iteration of the while(true) loop: inl = next state, inr = final result with final state; plus the lines *)
  Definition step (s : pstate) : (pstate + (result V * pstate)) * list event :=
    match ps_cursors s with
    | [] => (inr (Crash CrEmptyStack, s), [])
    | cursor :: _ =>
        let '(s1, ot, ev1) := get_current_term s in
        match ot with
        | None => (inr (Reject, s1), ev1)
        | Some t => let '(r, ev2) := act s1 cursor t in (r, ev1 ++ ev2)
        end
    end.

  (* what reaches the stream: everything when verbose, otherwise only the two error messages *)
  Definition visible (e : event) : bool := o_verbose opts || is_nonverbose e.

  Fixpoint run_from (fuel : nat) (s : pstate) (out : list event) : result V * pstate * list event :=
    match fuel with
    | 0 => (OutOfFuel, s, out)
    | S f => match step s with
             | (inl s', ev) => run_from f s' (out ++ filter visible ev)
             | (inr (r, s'), ev) => (r, s', out ++ filter visible ev)
             end
    end.

  Definition run (fuel : nat) (c : C) : result V * pstate * list event := run_from fuel (init c) [].
End Driver.

Arguments mkPS {V C}.
Arguments ps_cursors {V C}. Arguments ps_values {V C}. Arguments ps_sp {V C}. Arguments ps_it {V C}.
Arguments ps_end {V C}. Arguments ps_term {V C}. Arguments ps_rec {V C}. Arguments ps_cons {V C}.
Arguments ps_ctx {V C}.
Arguments set_pos {V C}. Arguments set_modes {V C}. Arguments set_stacks {V C}. Arguments set_ctx {V C}.
Arguments init {V C}. Arguments term_or0 {V C}.
