(* Mirror of parser::context_parse and its helpers (ctpg.hpp): the table-driven LR driver with lazy lexing,
   source-point tracking, error recovery (recovery_mode / consume_mode) and the verbose trace.
   Generic in the semantic algebra (value type V, context type C) and in the lexer (an oracle).
   Unchecked accesses of the C++ are checked here and end the run with Crash. No proofs here. *)
Require Import Ctpg.Base.Prelude Ctpg.Model.Grammar Ctpg.Model.LRGen.

Record spoint := mkSp { sp_line : nat; sp_col : nat }.
Definition sp0 := mkSp 1 1.

(* source_point::update over a byte string; 10 = '\n' *)
Fixpoint sp_update (p : spoint) (bs : list nat) : spoint :=
  match bs with
  | [] => p
  | b :: t => sp_update (if Nat.eqb b 10 then mkSp (S (sp_line p)) 1 else mkSp (sp_line p) (S (sp_col p))) t
  end.

Definition slice_of (buf : list nat) (a b : nat) : list nat := firstn (b - a) (skipn a buf).

Record options := mkOpt { o_verbose : bool; o_skip_ws : bool; o_skip_nl : bool }.

(* skip_whitespace: the two character sets of the source *)
Definition ws_newline : list nat := [9; 10; 11; 12; 13; 32].
Definition ws_no_newline : list nat := [9; 11; 12; 13; 32].
Definition is_ws (o : options) (b : nat) : bool := mem_nat b (if o_skip_nl o then ws_newline else ws_no_newline).
Fixpoint count_ws (o : options) (bs : list nat) : nat :=
  match bs with
  | b :: t => if is_ws o b then S (count_ws o t) else 0
  | [] => 0
  end.

Inductive lex_event :=
| LxRecognized (p : spoint) (t : nat)          (* "<sp> REGEX MATCH: Recognized <t>" *)
| LxChar (p : spoint) (c : nat)                (* "<sp> REGEX MATCH: Current char <name>" *)
| LxNewState (p : spoint) (s : nat)            (* "<sp> REGEX MATCH: New state <s>" *)
| LxCustom (p : spoint) (t : nat).             (* "<sp> LEXER MATCH: Recognized <t> " (regex_lexer) *)

Inductive event :=
| EvLex (e : lex_event)
| EvRecognized (p : spoint) (t : nat)
| EvShift (p : spoint) (st : nat) (lex_start lex_len : nat)
| EvShiftErr (p : spoint) (st : nat)
| EvReduce (p : spoint) (r_idx rule_info_idx : nat)
| EvGoto (p : spoint) (st : option nat)
| EvRR (p : spoint)
| EvSyntaxError (p : spoint) (t : nat)
| EvUnexpectedChar (p : spoint) (c : nat)
| EvEnterRecovery (p : spoint) | EvLeaveRecovery (p : spoint)
| EvEnterConsume (p : spoint) | EvLeaveConsume (p : spoint)
| EvRecoveringTo (p : spoint) (st : nat)
| EvCouldNotRecover (p : spoint)
| EvConsuming (p : spoint) (t : nat)
| EvSuccess (p : spoint).

(* messages written regardless of options.verbose *)
Definition is_nonverbose (e : event) : bool :=
  match e with EvSyntaxError _ _ | EvUnexpectedChar _ _ => true | _ => false end.

Inductive crash :=
| CrTableRow | CrTableCol | CrRuleInfo | CrStackUnderflow | CrEmptyStack | CrGotoUninit | CrNoValue | CrBufferOverrun | CrRRArg.

Inductive result (V : Type) :=
| Accept (v : V) | Reject | Crash (c : crash) | Throw | OutOfFuel.
Arguments Accept {V} v. Arguments Reject {V}. Arguments Crash {V} c. Arguments Throw {V}. Arguments OutOfFuel {V}.

Section Driver.
  Variables V C : Type.
  Variable g : grammar.
  Variable tbl : table.
  Variable opts : options.
  Variable buf : list nat.
  Variable stack_cap : option nat.               (* Some (N + EmptyRulesCount + 1) for cvector stacks *)
  (* lexer oracle: verbose flag, current source point, remaining input -> trace lines, (term, length) *)
  Variable lexer : bool -> spoint -> list nat -> list lex_event * option (nat * nat).
  Variable term_f : nat -> nat -> nat -> spoint -> V.      (* term index, lexeme start, lexeme length, position *)
  Variable err_f : spoint -> V.                            (* the value pushed for <error_recovery_token> *)
  Variable rule_f : nat -> C -> list V -> C * V.           (* rule r_idx, context, children left to right *)

  Record pstate := mkPS {
    ps_cursors : list nat;        (* top first *)
    ps_values : list V;           (* top first *)
    ps_sp : spoint;
    ps_it : nat; ps_end : nat;
    ps_term : option nat;
    ps_rec : bool; ps_cons : bool;
    ps_ctx : C;
    ps_out : list event           (* newest first *)
  }.

  Definition emit (s : pstate) (e : event) : pstate :=
    mkPS (ps_cursors s) (ps_values s) (ps_sp s) (ps_it s) (ps_end s) (ps_term s) (ps_rec s) (ps_cons s) (ps_ctx s) (e :: ps_out s).
  Definition vemit (s : pstate) (e : event) : pstate := if o_verbose opts then emit s e else s.
  Definition emit_lex (s : pstate) (l : list lex_event) : pstate :=
    mkPS (ps_cursors s) (ps_values s) (ps_sp s) (ps_it s) (ps_end s) (ps_term s) (ps_rec s) (ps_cons s) (ps_ctx s)
         (rev (map EvLex l) ++ ps_out s).

  Definition full (n : nat) : bool := match stack_cap with Some c => Nat.leb c n | None => false end.

  Definition init (c : C) : pstate := mkPS [0] [] sp0 0 0 None false false c [].

  (* get_current_term: inr = the term index (state updated), inl = lexical failure *)
  Definition get_current_term (s : pstate) : pstate * option nat :=
    if ps_rec s then (s, Some (err_idx g)) else
    if negb (Nat.eqb (ps_it s) (ps_end s)) then (s, ps_term s) else
    let rest0 := skipn (ps_it s) buf in
    let k := if o_skip_ws opts then count_ws opts rest0 else 0 in
    let sp1 := sp_update (ps_sp s) (firstn k rest0) in
    let it1 := ps_it s + k in
    let s1 := mkPS (ps_cursors s) (ps_values s) sp1 it1 (ps_end s) (ps_term s) (ps_rec s) (ps_cons s) (ps_ctx s) (ps_out s) in
    let rest := skipn k rest0 in
    match rest with
    | [] =>
        let s2 := mkPS (ps_cursors s1) (ps_values s1) sp1 it1 (ps_end s1) (Some (eof_idx g)) (ps_rec s1) (ps_cons s1) (ps_ctx s1) (ps_out s1) in
        (vemit s2 (EvRecognized sp1 (eof_idx g)), Some (eof_idx g))
    | c :: _ =>
        let '(lx, res) := lexer (o_verbose opts) sp1 rest in
        let s2 := emit_lex s1 lx in
        match res with
        | None =>
            let s3 := mkPS (ps_cursors s2) (ps_values s2) sp1 it1 (ps_end s2) None (ps_rec s2) (ps_cons s2) (ps_ctx s2) (ps_out s2) in
            (emit s3 (EvUnexpectedChar sp1 c), None)
        | Some (t, len) =>
            let s3 := mkPS (ps_cursors s2) (ps_values s2) sp1 it1 (it1 + len) (Some t) (ps_rec s2) (ps_cons s2) (ps_ctx s2) (ps_out s2) in
            (vemit s3 (EvRecognized sp1 t), Some t)
        end
    end.

  (* consume_term *)
  Definition consume_term (s : pstate) : pstate :=
    mkPS (ps_cursors s) (ps_values s) (sp_update (ps_sp s) (slice_of buf (ps_it s) (ps_end s))) (ps_end s) (ps_end s)
         (ps_term s) (ps_rec s) (ps_cons s) (ps_ctx s) (ps_out s).

  Definition set_modes (s : pstate) (r c : bool) : pstate :=
    mkPS (ps_cursors s) (ps_values s) (ps_sp s) (ps_it s) (ps_end s) (ps_term s) r c (ps_ctx s) (ps_out s).
  Definition set_stacks (s : pstate) (cs : list nat) (vs : list V) : pstate :=
    mkPS cs vs (ps_sp s) (ps_it s) (ps_end s) (ps_term s) (ps_rec s) (ps_cons s) (ps_ctx s) (ps_out s).
  Definition set_ctx (s : pstate) (c : C) : pstate :=
    mkPS (ps_cursors s) (ps_values s) (ps_sp s) (ps_it s) (ps_end s) (ps_term s) (ps_rec s) (ps_cons s) c (ps_out s).

  Definition cell (st col : nat) : (entry + crash) :=
    match nth_error tbl st with
    | None => inr CrTableRow
    | Some row => match nth_error row col with
                  | None => inr CrTableCol
                  | Some e => inl e
                  end
    end.

  (* reduce(ctx, ps, rule_info_idx) *)
  Definition do_reduce (s : pstate) (rule_info_idx : nat) : pstate + result V :=
    match nth_error (rule_infos g) rule_info_idx with
    | None => inr (Crash CrRuleInfo)
    | Some ri =>
        let s1 := vemit s (EvReduce (ps_sp s) (ri_r ri) rule_info_idx) in
        let n := ri_n ri in
        if Nat.ltb (length (ps_cursors s1)) n then inr (Crash CrStackUnderflow) else
        let cs := skipn n (ps_cursors s1) in
        match cs with
        | [] => inr (Crash CrEmptyStack)
        | top :: _ =>
            match cell top (ri_l ri) with
            | inr c => inr (Crash c)
            | inl e =>
                let s2 := vemit s1 (EvGoto (ps_sp s1) (e_arg e)) in
                if full (length cs) then inr Throw else
                match e_arg e with
                | None => inr (Crash CrGotoUninit)
                | Some nst =>
                    if Nat.ltb (length (ps_values s2)) n then inr (Crash CrStackUnderflow) else
                    let args := rev (firstn n (ps_values s2)) in
                    let '(c', v) := rule_f (ri_r ri) (ps_ctx s2) args in
                    let vs := skipn n (ps_values s2) in
                    if full (length vs) then inr Throw else
                    inl (set_ctx (set_stacks s2 (nst :: cs) (v :: vs)) c')
                end
            end
        end
    end.

  (* pop_stacks: inl = continue, inr = could not recover *)
  Definition pop_stacks (s : pstate) : pstate + pstate :=
    let cs := tl (ps_cursors s) in
    let vs := tl (ps_values s) in
    let s1 := set_stacks s cs vs in
    match cs with
    | [] => inr (vemit s1 (EvCouldNotRecover (ps_sp s1)))
    | top :: _ => inl (vemit s1 (EvRecoveringTo (ps_sp s1) top))
    end.

  (* one iteration of the while(true) loop: inl = next state, inr = final result with final state *)
  Definition step (s : pstate) : pstate + (result V * pstate) :=
    match ps_cursors s with
    | [] => inr (Crash CrEmptyStack, s)
    | cursor :: _ =>
        let '(s1, ot) := get_current_term s in
        match ot with
        | None => inr (Reject, s1)
        | Some t =>
            match cell cursor (nterm_count g + t) with
            | inr c => inr (Crash c, s1)
            | inl e =>
                match e_kind e with
                | KError =>
                    if ps_cons s1 then
                      (* consume_term_recovering *)
                      if match ps_term s1 with Some x => Nat.eqb x (eof_idx g) | None => false end
                      then inr (Reject, s1)
                      else inl (consume_term (vemit s1 (EvConsuming (ps_sp s1) (match ps_term s1 with Some x => x | None => 0 end))))
                    else if negb (ps_rec s1) then
                      let s2 := emit s1 (EvSyntaxError (ps_sp s1) (match ps_term s1 with Some x => x | None => 0 end)) in
                      let s3 := vemit s2 (EvEnterRecovery (ps_sp s2)) in
                      inl (set_modes s3 true (ps_cons s3))
                    else
                      match pop_stacks s1 with
                      | inl s2 => inl s2
                      | inr s2 => inr (Reject, s2)
                      end
                | k =>
                    let s2 := if ps_cons s1 then set_modes (vemit s1 (EvLeaveConsume (ps_sp s1))) (ps_rec s1) false else s1 in
                    match k with
                    | KShift =>
                        match e_arg e with
                        | None => inr (Crash CrGotoUninit, s2)
                        | Some nst =>
                            let s3 := vemit s2 (EvShift (ps_sp s2) nst (ps_it s2) (ps_end s2 - ps_it s2)) in
                            if full (length (ps_cursors s3)) then inr (Throw, s3) else
                            if Nat.ltb (length buf) (ps_end s3) then inr (Crash CrBufferOverrun, s3) else
                            let v := term_f t (ps_it s3) (ps_end s3 - ps_it s3) (ps_sp s3) in
                            inl (consume_term (set_stacks s3 (nst :: ps_cursors s3) (v :: ps_values s3)))
                        end
                    | KShiftErr =>
                        match e_arg e with
                        | None => inr (Crash CrGotoUninit, s2)
                        | Some nst =>
                            let s3 := vemit s2 (EvShiftErr (ps_sp s2) nst) in
                            if full (length (ps_cursors s3)) then inr (Throw, s3) else
                            let s4 := set_stacks s3 (nst :: ps_cursors s3) (err_f (ps_sp s3) :: ps_values s3) in
                            let s5 := set_modes (vemit s4 (EvLeaveRecovery (ps_sp s4))) false (ps_cons s4) in
                            inl (set_modes (vemit s5 (EvEnterConsume (ps_sp s5))) (ps_rec s5) true)
                        end
                    | KReduce =>
                        match e_arg e with
                        | None => inr (Crash CrRRArg, s2)
                        | Some r => match do_reduce s2 r with
                                    | inl s3 => inl s3
                                    | inr res => inr (res, s2)
                                    end
                        end
                    | KRR =>
                        let s3 := vemit s2 (EvRR (ps_sp s2)) in
                        match e_arg e with
                        | None => inr (Crash CrRRArg, s3)
                        | Some r => match do_reduce s3 r with
                                    | inl s4 => inl s4
                                    | inr res => inr (res, s3)
                                    end
                        end
                    | KSuccess =>
                        let s3 := vemit s2 (EvSuccess (ps_sp s2)) in
                        match rev (ps_values s3) with
                        | [] => inr (Crash CrNoValue, s3)
                        | v :: _ => inr (Accept v, s3)
                        end
                    | KError => inr (Reject, s2)   (* unreachable *)
                    end
                end
            end
        end
    end.

  Fixpoint run_from (fuel : nat) (s : pstate) : result V * pstate :=
    match fuel with
    | 0 => (OutOfFuel, s)
    | S f => match step s with
             | inl s' => run_from f s'
             | inr r => r
             end
    end.

  Definition run (fuel : nat) (c : C) : result V * pstate := run_from fuel (init c).
  Definition trace (s : pstate) : list event := rev (ps_out s).
End Driver.
