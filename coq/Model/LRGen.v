(* Mirror of parser::state_analyzer (ctpg.hpp): nullable/FIRST by fixed-point iteration, closure,
   transitions with conflict resolution, state identification by kernel equality.
   After the repairs F1-F3 the memo tables of the C++ are semantically transparent, so the mirror is pure.
   Orders (of items inside a state, of states) are kept exactly, since state numbers and cell resolution depend on them. *)
Require Import Ctpg.Base.Prelude Ctpg.Model.Grammar.

Record item := mkItem { it_r : nat; it_d : nat; it_t : nat }.   (* rule_info index, dot, lookahead term *)

Definition item_eqb (a b : item) : bool :=
  Nat.eqb (it_r a) (it_r b) && Nat.eqb (it_d a) (it_d b) && Nat.eqb (it_t a) (it_t b).

Fixpoint mem_item (x : item) (l : list item) : bool :=
  match l with [] => false | y :: t => if item_eqb x y then true else mem_item x t end.

Definition subset_items (a b : list item) : bool := forallb (fun x => mem_item x b) a.
Definition same_items (a b : list item) : bool := subset_items a b && subset_items b a.

(* make_situation_idx *)
Definition item_idx (g : grammar) (i : item) : nat :=
  it_r i * situation_size g * term_count g + it_d i * term_count g + it_t i.

Definition rhs_of (g : grammar) (i : item) : list symbol := get_rhs g (ri_r (get_ri g (it_r i))).
Definition next_sym (g : grammar) (i : item) : option symbol := nth_error (rhs_of g i) (it_d i).
Definition is_complete (g : grammar) (i : item) : bool := Nat.leb (ri_n (get_ri g (it_r i))) (it_d i).

(* ---------- compute_nterm_empty_and_first ---------- *)

Fixpoint all_nullable (ne : bset) (r : list symbol) : bool :=
  match r with
  | [] => true
  | T _ :: _ => false
  | NT n :: t => bset_test ne n && all_nullable ne t
  end.

(* one pass over rule_infos in order, updating in place *)
Fixpoint empty_pass (g : grammar) (ris : list rule_info) (ne : bset) (changed : bool) : bset * bool :=
  match ris with
  | [] => (ne, changed)
  | ri :: t =>
      if bset_test ne (ri_l ri) then empty_pass g t ne changed
      else if all_nullable ne (firstn (ri_n ri) (get_rhs g (ri_r ri)))
           then empty_pass g t (bset_set ne (ri_l ri)) true
           else empty_pass g t ne changed
  end.

Fixpoint empty_iter (fuel : nat) (g : grammar) (ne : bset) : bset :=
  match fuel with
  | 0 => ne
  | S f => let '(ne', ch) := empty_pass g (rule_infos g) ne false in
           if ch then empty_iter f g ne' else ne'
  end.

Definition nterm_empty (g : grammar) : bset :=
  empty_iter (S (nterm_count g)) g (bset_empty (nterm_count g)).

(* FIRST of a symbol string w.r.t. current tables: the loop body shared by the pass and by slice FIRST *)
Fixpoint first_of_syms (g : grammar) (ne : bset) (nf : list bset) (acc : bset) (r : list symbol) : bset :=
  match r with
  | [] => acc
  | T i :: _ => bset_set acc i
  | NT n :: t =>
      let acc' := bset_or acc (nth n nf (bset_empty (term_count g))) in
      if bset_test ne n then first_of_syms g ne nf acc' t else acc'
  end.

Fixpoint first_pass (g : grammar) (ne : bset) (ris : list rule_info) (nf : list bset) (changed : bool)
  : list bset * bool :=
  match ris with
  | [] => (nf, changed)
  | ri :: t =>
      let before := nth (ri_l ri) nf (bset_empty (term_count g)) in
      let after := first_of_syms g ne nf before (firstn (ri_n ri) (get_rhs g (ri_r ri))) in
      first_pass g ne t (update nf (ri_l ri) after) (changed || negb (bset_eqb before after))
  end.

Fixpoint first_iter (fuel : nat) (g : grammar) (ne : bset) (nf : list bset) : list bset :=
  match fuel with
  | 0 => nf
  | S f => let '(nf', ch) := first_pass g ne (rule_infos g) nf false in
           if ch then first_iter f g ne nf' else nf'
  end.

Definition nterm_first (g : grammar) (ne : bset) : list bset :=
  first_iter (S (nterm_count g * term_count g)) g ne
             (repeat (bset_empty (term_count g)) (nterm_count g)).

(* make_right_side_slice_first / make_right_side_slice_empty *)
Definition slice_first (g : grammar) (ne : bset) (nf : list bset) (ri : rule_info) (start : nat) : bset :=
  first_of_syms g ne nf (bset_empty (term_count g)) (skipn start (firstn (ri_n ri) (get_rhs g (ri_r ri)))).
Definition slice_empty (g : grammar) (ne : bset) (ri : rule_info) (start : nat) : bool :=
  all_nullable ne (skipn start (firstn (ri_n ri) (get_rhs g (ri_r ri)))).

(* ---------- closure of one item: its direct children, in generation order ---------- *)

Definition closure_children (g : grammar) (ne : bset) (nf : list bset) (i : item) : list item :=
  let ri := get_ri g (it_r i) in
  if Nat.leb (ri_n ri) (it_d i) then [] else
  match nth_error (get_rhs g (ri_r ri)) (it_d i) with
  | Some (NT nt) =>
      let after_empty := slice_empty g ne ri (S (it_d i)) in
      let first := slice_first g ne nf ri (S (it_d i)) in
      let '(st, n) := nth nt (slices g) (0, 0) in
      flat_map (fun t => if bset_test first t
                         then map (fun k => mkItem (st + k) 0 t) (seq 0 n) else [])
               (seq 0 (term_count g))
      ++ (if after_empty && negb (bset_test first (it_t i))
          then map (fun k => mkItem (st + k) 0 (it_t i)) (seq 0 n) else [])
  | _ => []
  end.

(* ---------- states ---------- *)

Record lrstate := mkSt { st_all : list item; st_kernel : list item }.

Definition add_item (l : list item) (x : item) : list item :=
  if mem_item x l then l else l ++ [x].

(* the closure loop of analyze_states: for i < |all|: closure(all[i]) ; all grows meanwhile *)
Fixpoint close_loop (fuel : nat) (g : grammar) (ne : bset) (nf : list bset) (all : list item) (i : nat) : list item :=
  match fuel with
  | 0 => all
  | S f => match nth_error all i with
           | None => all
           | Some x => close_loop f g ne nf (fold_left add_item (closure_children g ne nf x) all) (S i)
           end
  end.

(* situations_by_symbol[col]: items whose bucket is col, in insertion order *)
Definition bucket_of (g : grammar) (i : item) : nat :=
  match next_sym g i with
  | Some s => if is_complete g i then nterm_count g + it_t i else sym_col g s
  | None => nterm_count g + it_t i
  end.
Definition bucket (g : grammar) (all : list item) (col : nat) : list item :=
  filter (fun i => Nat.eqb (bucket_of g i) col) all.

Inductive kind := KError | KSuccess | KShift | KShiftErr | KReduce | KRR.
Definition kind_eqb (a b : kind) : bool :=
  match a, b with
  | KError, KError | KSuccess, KSuccess | KShift, KShift | KShiftErr, KShiftErr | KReduce, KReduce | KRR, KRR => true
  | _, _ => false
  end.
Record entry := mkE { e_kind : kind; e_arg : option nat; e_sr : bool }.
Definition entry_default := mkE KError None false.

(* solve_conflict *)
Definition solve_conflict (g : grammar) (rule_info_idx term : nat) : kind :=
  let r := ri_r (get_ri g rule_info_idx) in
  let rp := nth r (rule_prec g) 0%Z in
  let tp := nth term (term_prec g) 0%Z in
  if Z.ltb tp rp then KReduce
  else if Z.eqb rp tp
       then match nth r (rule_assoc g) NoAssoc with Ltor => KReduce | _ => KShift end
       else KShift.

(* the scan of one cell's items in transitions() *)
Record scan := mkScan {
  sc_kind : kind; sc_sr : bool; sc_has_red : bool; sc_has_shift : bool;
  sc_red : option nat; sc_kernel : list item }.
Definition scan0 := mkScan KError false false false None [].

Definition term_of_sym (s : option symbol) : nat := match s with Some (T i) => i | Some (NT i) => i | None => 0 end.

Fixpoint scan_cell (g : grammar) (its : list item) (s : scan) : scan :=
  match its with
  | [] => s
  | i :: rest =>
      let ri := get_ri g (it_r i) in
      if Nat.leb (ri_n ri) (it_d i) then
        (* reduction item *)
        if Nat.eqb (ri_r ri) (root_rule_idx g) then
          mkScan KSuccess (sc_sr s) (sc_has_red s) (sc_has_shift s) (sc_red s) (sc_kernel s)       (* break *)
        else if sc_has_red s then
          mkScan KRR (sc_sr s) (sc_has_red s) (sc_has_shift s) (sc_red s) (sc_kernel s)            (* break *)
        else
          let '(k, sr) :=
            if sc_has_shift s
            then (if sc_sr s then (sc_kind s, true) else (solve_conflict g (it_r i) (it_t i), true))
            else (KReduce, sc_sr s) in
          scan_cell g rest (mkScan k sr true (sc_has_shift s) (Some (it_r i)) (sc_kernel s))
      else
        let '(k, sr) :=
          if sc_has_red s
          then (if sc_sr s then (sc_kind s, true)
                else (solve_conflict g (match sc_red s with Some r => r | None => 0 end)
                                     (term_of_sym (nth_error (get_rhs g (ri_r ri)) (it_d i))), true))
          else (KShift, sc_sr s) in
        scan_cell g rest (mkScan k sr (sc_has_red s) true (sc_red s)
                                 (add_item (sc_kernel s) (mkItem (it_r i) (S (it_d i)) (it_t i))))
  end.

(* last index i < |sts| whose kernel equals k (the C++ loop does not break) *)
Fixpoint find_kernel (sts : list lrstate) (k : list item) (i : nat) (found : option nat) : option nat :=
  match sts with
  | [] => found
  | s :: t => find_kernel t k (S i) (if same_items (st_kernel s) k then Some i else found)
  end.

Inductive gen_error := StateCapExceeded | VectorCapExceeded | GenOutOfFuel.

Record limits := mkLim { state_cap : nat; sit_cap : nat }.
(* situation_count = sum(n_i + 1) * term_count + 2 over the user's rules (the root rule is not counted) *)
Definition situation_count (g : grammar) : nat :=
  fold_right (fun ri acc => if Nat.eqb (ri_r ri) (root_rule_idx g) then acc else S (ri_n ri) + acc) 0 (rule_infos g)
  * term_count g + 2.
Definition default_limits (g : grammar) : limits := mkLim (situation_count g) (situation_count g).

Definition table := list (list entry).
Definition set_cell (tb : table) (s c : nat) (e : entry) : table :=
  update tb s (update (nth s tb []) c e).

(* transitions(state_idx, symbol_idx, bucket) *)
Definition do_transitions (g : grammar) (lim : limits) (cur col : nat) (sts : list lrstate) (tb : table)
  : (list lrstate * table) + gen_error :=
  let its := bucket g (st_all (nth cur sts (mkSt [] []))) col in
  match its with
  | [] => inl (sts, tb)
  | _ =>
      let s := scan_cell g its scan0 in
      match sc_kind s with
      | KShift =>
          let k := sc_kernel s in
          let '(idx, sts1, err) :=
            match find_kernel sts k 0 None with
            | Some i => (i, sts, false)
            | None => (length sts, sts ++ [mkSt [] []], Nat.ltb (state_cap lim) (S (length sts)))
            end in
          if err then inr StateCapExceeded else
          let old := nth idx sts1 (mkSt [] []) in
          let new_all := fold_left add_item k (st_all old) in
          let new_ker := fold_left (fun acc x => if mem_item x (st_all old) then acc else add_item acc x) k (st_kernel old) in
          if Nat.ltb (sit_cap lim) (length new_all) then inr VectorCapExceeded else
          let kd := if Nat.eqb col (nterm_count g + err_idx g) then KShiftErr else KShift in
          inl (update sts1 idx (mkSt new_all new_ker), set_cell tb cur col (mkE kd (Some idx) (sc_sr s)))
      | KReduce => inl (sts, set_cell tb cur col (mkE KReduce (sc_red s) (sc_has_shift s)))
      | k => inl (sts, set_cell tb cur col (mkE k None (sc_sr s)))
      end
  end.

Fixpoint trans_loop (g : grammar) (lim : limits) (cur : nat) (cols : list nat) (sts : list lrstate) (tb : table)
  : (list lrstate * table) + gen_error :=
  match cols with
  | [] => inl (sts, tb)
  | c :: t => match do_transitions g lim cur c sts tb with
              | inl (sts', tb') => trans_loop g lim cur t sts' tb'
              | inr e => inr e
              end
  end.

Fixpoint states_loop (fuel : nat) (g : grammar) (lim : limits) (ne : bset) (nf : list bset)
         (cur : nat) (sts : list lrstate) (tb : table) : (list lrstate * table) + gen_error :=
  match fuel with
  | 0 => inr GenOutOfFuel
  | S f =>
      match nth_error sts cur with
      | None => inl (sts, tb)
      | Some s =>
          let all := close_loop (S (address_space g)) g ne nf (st_all s) 0 in
          if Nat.ltb (sit_cap lim) (length all) then inr VectorCapExceeded else
          let sts1 := update sts cur (mkSt all (st_kernel s)) in
          match trans_loop g lim cur (seq 0 (symbol_count g)) sts1 tb with
          | inl (sts2, tb2) => states_loop f g lim ne nf (S cur) sts2 tb2
          | inr e => inr e
          end
      end
  end.

Definition root_item (g : grammar) : item := mkItem (root_rule_idx g) 0 (eof_idx g).

(* the root rule ## -> root has the greatest l_idx, so after the stable sort it is the last rule_info
   and its rule_info index equals root_rule_idx, which is what the C++ relies on *)
Definition gen_with (g : grammar) (lim : limits) : (list lrstate * table) + gen_error :=
  let ne := nterm_empty g in
  let nf := nterm_first g ne in
  states_loop (S (state_cap lim)) g lim ne nf 0
              [mkSt [root_item g] [root_item g]]
              (repeat (repeat entry_default (symbol_count g)) (state_cap lim)).

Definition gen (g : grammar) := gen_with g (default_limits g).
