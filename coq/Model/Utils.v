(* Byte-level mirror of namespace utils of ctpg.hpp (str_equal, find_str, find_char, str_len, char classification,
   char_names, char_to_idx / idx_to_char) and of regex::hex_digits_to_char. C strings are modelled as the bytes of the
   memory the pointer points into (`list nat`, bytes 0..255): the functions walk it until a NUL; running off the list is a
   read outside the object (Undef). The rest of the model works on NUL-free identifiers and byte lists (Grammar.find_str,
   ident_eqb; Driver's whitespace sets); Proofs/UtilsCorrect.v proves these walks refine those abstractions and never read
   past the terminator. harness/utils_h.cpp runs the real functions on the same inputs (exhaustively over the 256 bytes). *)
From Ctpg Require Import Base.Prelude Model.Containers.
From Coq Require Import NArith.

(* `char` is signed on the platforms the checks run on: the value of a byte b as a char *)
Definition char_val (b : nat) : Z := if Nat.ltb b 128 then Z.of_nat b else (Z.of_nat b - 256)%Z.

(* static_cast<size_t>(static_cast<unsigned char>(c)) & 0xff, for the char whose byte is b *)
Definition char_to_idx (b : nat) : nat := Nat.modulo b 256.
(* static_cast<char>(static_cast<unsigned char>(idx & 0xff)) : the byte of the resulting char *)
Definition idx_to_char (idx : nat) : nat := Nat.modulo idx 256.

(* c >= 0x20 && c <= 0x7e  on signed chars *)
Definition is_printable (b : nat) : bool := (32 <=? char_val b)%Z && (char_val b <=? 126)%Z.
Definition is_dec_digit (b : nat) : bool := (48 <=? char_val b)%Z && (char_val b <=? 57)%Z.
Definition is_hex_digit (b : nat) : bool :=
  ((48 <=? char_val b)%Z && (char_val b <=? 57)%Z) || ((97 <=? char_val b)%Z && (char_val b <=? 102)%Z)
  || ((65 <=? char_val b)%Z && (char_val b <=? 70)%Z).

(* char_names: the name of byte i as a NUL-terminated array of name_size = 5 chars *)
Definition hex_digit_char (d : nat) : nat := if Nat.ltb d 10 then 48 + d else 55 + d.     (* d[] = {'0'..'9','A'..'F'} *)
Definition char_name (i : nat) : list nat :=
  if (32 <? char_val (idx_to_char i))%Z && (char_val (idx_to_char i) <? 127)%Z
  then [idx_to_char i; 0]
  else [92; 120; hex_digit_char (i / 16); hex_digit_char (i mod 16); 0].

(* while ( *str1 == *str2) { if ( *str1 == 0) return true; str1++; str2++; } return false; *)
Fixpoint str_equal (a b : list nat) : res bool :=
  match a, b with
  | x :: a', y :: b' => if Nat.eqb x y then (if Nat.eqb x 0 then Ok true else str_equal a' b') else Ok false
  | _, _ => Undef
  end.

(* for (n : table) { if (str_equal(n, str)) return res; res++; } throw "string not found" *)
Fixpoint find_str_c (table : list (list nat)) (s : list nat) (i : nat) : res nat :=
  match table with
  | [] => Throw
  | n :: t => match str_equal n s with
              | Ok true => Ok i
              | Ok false => find_str_c t s (S i)
              | Throw => Throw
              | Undef => Undef
              end
  end.

(* while ( *str) { if ( *str == c) return i; str++; i++; } return uninitialized;   None = uninitialized *)
Fixpoint find_char (c : nat) (s : list nat) (i : nat) : res (option nat) :=
  match s with
  | [] => Undef
  | x :: t => if Nat.eqb x 0 then Ok None else if Nat.eqb x c then Ok (Some i) else find_char c t (S i)
  end.

Fixpoint str_len (s : list nat) : res nat :=
  match s with
  | [] => Undef
  | x :: t => if Nat.eqb x 0 then Ok 0 else match str_len t with Ok n => Ok (S n) | r => r end
  end.

(* regex::hex_digits_to_char: dd(d1) * 16 + dd(d2) computed in int, converted to char; the byte of the result *)
Definition hex_dd (b : nat) : Z :=
  if (65 <=? char_val b)%Z && (char_val b <=? 70)%Z then (10 + char_val b - 65)%Z
  else if (97 <=? char_val b)%Z && (char_val b <=? 102)%Z then (10 + char_val b - 97)%Z
  else (char_val b - 48)%Z.
(* dd returns char: the int result is converted to char before the multiplication *)
Definition to_char_byte (z : Z) : nat := Z.to_nat (z mod 256).
Definition hex_digits_to_char (d1 d2 : nat) : nat :=
  to_char_byte (char_val (to_char_byte (hex_dd d1)) * 16 + char_val (to_char_byte (hex_dd d2))).

(* the abstract view: the C string stored at the start of a memory region *)
Fixpoint cstr (mem : list nat) : option (list nat) :=       (* None: no terminator inside the region *)
  match mem with
  | [] => None
  | x :: t => if Nat.eqb x 0 then Some [] else option_map (cons x) (cstr t)
  end.
Fixpoint index_of (c : nat) (s : list nat) (i : nat) : option nat :=
  match s with [] => None | x :: t => if Nat.eqb x c then Some i else index_of c t (S i) end.

(* ---- observations for the correspondence run *)
Definition res_eqb {A} (e : A -> A -> bool) (a b : res A) : bool :=
  match a, b with Ok x, Ok y => e x y | Throw, Throw => true | Undef, Undef => true | _, _ => false end.
Definition onat_eqb (a b : option nat) : bool :=
  match a, b with Some x, Some y => Nat.eqb x y | None, None => true | _, _ => false end.
Definition class_table : list (bool * bool * bool) := map (fun b => (is_printable b, is_hex_digit b, is_dec_digit b)) (seq 0 256).
Definition name_table : list (list nat) := map char_name (seq 0 256).
Definition idx_table : list (nat * nat) := map (fun b => (char_to_idx b, idx_to_char (char_to_idx b))) (seq 0 256).
Definition bbb_eqb (a b : bool * bool * bool) : bool :=
  let '(a1, a2, a3) := a in let '(b1, b2, b3) := b in Bool.eqb a1 b1 && Bool.eqb a2 b2 && Bool.eqb a3 b3.
Definition nn_eqb (a b : nat * nat) : bool := Nat.eqb (fst a) (fst b) && Nat.eqb (snd a) (snd b).
Definition streq_case_ok (c : list nat * list nat * bool) : bool :=
  let '(a, b, e) := c in res_eqb Bool.eqb (str_equal a b) (Ok e).
Definition findchar_case_ok (c : nat * list nat * option nat) : bool :=
  let '(ch, s, e) := c in res_eqb onat_eqb (find_char ch s 0) (Ok e).
Definition findstr_case_ok (c : list (list nat) * list nat * option nat) : bool :=       (* None = threw *)
  let '(t, s, e) := c in
  match find_str_c t s 0, e with Ok i, Some j => Nat.eqb i j | Throw, None => true | _, _ => false end.
Definition strlen_case_ok (c : list nat * nat) : bool := res_eqb Nat.eqb (str_len (fst c)) (Ok (snd c)).
Definition hex_case_ok (c : nat * nat * nat) : bool := let '(a, b, e) := c in Nat.eqb (hex_digits_to_char a b) e.
