(* Byte-level mirror of namespace buffers of ctpg.hpp: cstring_buffer<N> (array of N chars incl. the terminator, end() = data + N - 1),
   string_buffer (owns a std::string), string_view_buffer (views a range of somebody else's memory). Iterators are offsets into the
   memory the buffer reads; get_view(start, end) builds std::string_view(pointer, end - start). The driver model works on one abstract
   `buf : list nat` with offsets; Proofs/BuffersCorrect.v proves that the three kinds present the same text: same begin/end distance,
   same bytes under every in-range iterator, same lexeme for every 0 <= start <= end <= size - and says which dereferences fall outside. *)
From Ctpg Require Import Base.Prelude Model.Containers.

(* std::string_view(ptr, len) over the memory region [mem] with ptr = mem + off: its bytes, Undef when it reaches outside the region *)
Definition sv_make (mem : list nat) (off len : nat) : res (list nat) :=
  if Nat.leb (off + len) (length mem) then Ok (firstn len (skipn off mem)) else Undef.
(* *it for a char iterator at offset off *)
Definition deref (mem : list nat) (off : nat) : res nat :=
  match nth_error mem off with Some b => Ok b | None => Undef end.

(* cstring_buffer<N>: data[N] is the literal including its terminating NUL *)
Record cstring_buffer : Type := { cs_data : list nat }.
Definition cs_of_literal (text : list nat) : cstring_buffer := {| cs_data := text ++ [0] |}.
Definition cs_begin (b : cstring_buffer) : nat := 0.
Definition cs_end (b : cstring_buffer) : nat := length (cs_data b) - 1.                 (* data + N - 1 *)
Definition cs_deref (b : cstring_buffer) (it : nat) : res nat := deref (cs_data b) it.
(* std::string_view(start.ptr, end.ptr - start.ptr); the difference is converted to size_t: negative = huge = outside *)
Definition cs_get_view (b : cstring_buffer) (s e : nat) : res (list nat) :=
  if Nat.ltb e s then Undef else sv_make (cs_data b) s (e - s).

(* string_buffer: std::string str; begin = str.cbegin(), end = str.cend(); the string's storage is str followed by a NUL *)
Record string_buffer : Type := { sb_str : list nat }.
Definition sb_begin (b : string_buffer) : nat := 0.
Definition sb_end (b : string_buffer) : nat := length (sb_str b).
Definition sb_deref (b : string_buffer) (it : nat) : res nat := deref (sb_str b ++ [0]) it.
(* std::string_view(str.data() + (start - str.begin()), end - start) *)
Definition sb_get_view (b : string_buffer) (s e : nat) : res (list nat) :=
  if Nat.ltb e s then Undef else sv_make (sb_str b ++ [0]) (s - sb_begin b) (e - s).

(* string_view_buffer: a view [off, off + len) of a memory region it does not own; nothing is known about the bytes around it *)
Record string_view_buffer : Type := { sv_mem : list nat; sv_off : nat; sv_len : nat }.
Definition svb_begin (b : string_view_buffer) : nat := sv_off b.
Definition svb_end (b : string_view_buffer) : nat := sv_off b + sv_len b.
(* an iterator of the view may only be dereferenced inside the view *)
Definition svb_deref (b : string_view_buffer) (it : nat) : res nat :=
  if Nat.leb (sv_off b) it && Nat.ltb it (sv_off b + sv_len b) then deref (sv_mem b) it else Undef.
(* std::string_view(str.data() + (start - str.begin()), end - start) *)
Definition svb_get_view (b : string_view_buffer) (s e : nat) : res (list nat) :=
  if Nat.ltb e s then Undef
  else if Nat.leb (sv_off b) s && Nat.leb e (sv_off b + sv_len b) then sv_make (sv_mem b) (sv_off b + (s - svb_begin b)) (e - s) else Undef.
Definition svb_wf (b : string_view_buffer) : Prop := sv_off b + sv_len b <= length (sv_mem b).
Definition svb_text (b : string_view_buffer) : list nat := firstn (sv_len b) (skipn (sv_off b) (sv_mem b)).

(* observation for the correspondence run: all lexemes of a text, (start, end) in lexicographic order *)
Definition all_views (get : nat -> nat -> res (list nat)) (base n : nat) : list (res (list nat)) :=
  flat_map (fun s => map (fun e => get (base + s) (base + e)) (seq s (S n - s))) (seq 0 (S n)).
