(* Extraction of the executable model for the correspondence runs. ExtrOcamlBasic only:
   bool/option/unit/list/prod/sumbool/sumor map to OCaml's; nat, N, Z, positive stay extracted inductives.
   Compiled with the output directory as working directory (8.16 has no Extraction Output Directory). *)
Require Import Ctpg.Base.Prelude Ctpg.Model.Grammar Ctpg.Model.LRGen Ctpg.Model.Driver Ctpg.Model.Dfa
               Ctpg.Model.RegexFront Ctpg.Model.Diag Ctpg.Valid.LRValid Ctpg.Valid.DfaValid Ctpg.Valid.SpecMatch.
Require Extraction.
Require Import ExtrOcamlBasic.
Extraction Language OCaml.
Extraction "model.ml"
  analyze gen gen_with default_limits sort_items state_lines is_conflict_line item_idx
  run is_nonverbose sp0
  analyze_size build_expr create_lexer dfa_match dfa_match_oob expr_match
  lex_at regex_lexer parse_pattern parse_pattern_with regex_grammar_table regex_raw_grammar string_view_to_subset regex_term_f regex_rule_f
  bucket closure_children nterm_empty nterm_first validate validate_sound no_error_symbol lexer_ok spec_longest spec_matches scan_cell scan0 is_complete.
