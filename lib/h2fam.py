"""The H2 family: patterns and term sets through the real pattern parser / dfa_builder / dfa_match vs the extracted model."""
import json, os, sys
from common import *

TIERS = {"quick": dict(npat=250, nts=50, exl=3, mal=2), "thorough": dict(npat=4000, nts=600, exl=4, mal=3)}

def parse_h2_cases(path):
    cases = {}; cur = None
    for line in open(path):
        p = line.split()
        if not p: continue
        if p[0] == "CASE": cur = {"pattern": None, "terms": [], "inputs": []}; cases[p[1]] = cur
        elif p[0] == "PAT": n = int(p[1]); cur["pattern"] = list(map(int, p[2:2 + n]))
        elif p[0] == "TERM": n = int(p[2]); cur["terms"].append((int(p[1]), list(map(int, p[3:3 + n]))))
        elif p[0] == "STR": n = int(p[1]); cur["inputs"].append(list(map(int, p[2:2 + n])))
    return cases

def parse_model_extra(lines):
    """VALID / SPEC lines printed by the model driver in verbose-spec mode"""
    out = {"valid": None, "spec": []}
    for l in lines:
        if l.startswith("VALID "): out["valid"] = l.split()[1] == "true"
        elif l.startswith("SPEC "):
            p = l.split(); out["spec"].append((int(p[2]), int(p[3])))
    return out

class H2Run:
    def __init__(self, seed, tier):
        self.seed, self.tier = seed, tier
        self.h2dir, self.build_err = ensure_h2()
        self.mdir = ensure_model_bins()
        if self.build_err: return
        t = TIERS[tier]
        key = sha(header_hash(), seed, tier, VERIF + "/tools", VERIF + "/harness/ml", COQ + "/Model", COQ + "/Valid")
        def gen(d): return [sys.executable, VERIF + "/tools/gen_h2_cases.py", d + "/cases", str(seed), str(t["npat"]), str(t["nts"]), str(t["exl"]), str(t["mal"]), d + "/meta.json"]
        self.dir = run_family("h2", gen, self.h2dir + "/h2", self.mdir + "/h2_model", key, extra_model_args="spec")
        self.status = json.load(open(self.dir + "/status.json"))
        self.meta = json.load(open(self.dir + "/meta.json"))
        self.cases = parse_h2_cases(self.dir + "/cases")
        rc = split_cases(read(self.dir + "/real.out")); mc = split_cases(read(self.dir + "/model.out"))
        self.real_lines = rc
        self.model_lines = {k: [l for l in v if not l.startswith("VALID ") and not l.startswith("SPEC ")] for k, v in mc.items()}
        self.extra = {k: parse_model_extra(v) for k, v in mc.items()}
        self.real = {k: parse_h2_case(v) for k, v in rc.items()}
        self.model = {k: parse_h2_case(v) for k, v in self.model_lines.items()}

    def same_block(self, cid):
        """the ADS line (regex::analyze_dfa_size, judged separately by C12) is not part of the automaton correspondence"""
        return [l for l in self.real_lines.get(cid) or [] if not l.startswith("ADS ")] == self.model_lines.get(cid)
    def crashed(self): return [k for k in self.meta if k not in self.real]
