"""Shared machinery of the checks: builds (Coq project, extraction, harnesses) tied to /repo's current tree,
case families, runners, output parsers, evidence."""
import hashlib, json, os, subprocess, sys, time, shutil, re

# the two roots can be redirected (only tools/matrix_all.py does this, to run seeded changes in scratch copies in parallel)
VERIF = os.environ.get("CTPG_VERIF_ROOT") or os.path.dirname(os.path.dirname(os.path.abspath(__file__)))
REPO = os.environ.get("CTPG_REPO") or "/repo"; HEADER = REPO + "/include/ctpg/ctpg.hpp"
CACHE = VERIF + "/.cache"; COQ = VERIF + "/coq"
NPROC = os.cpu_count() or 8

def sh(cmd, timeout=1800, cwd=None, env=None, inp=None):
    t0 = time.time()
    try:
        p = subprocess.run(cmd, shell=isinstance(cmd, str), cwd=cwd, env=env, input=inp, stdout=subprocess.PIPE, stderr=subprocess.STDOUT, timeout=timeout)
        return p.returncode, p.stdout.decode("latin1"), time.time() - t0
    except subprocess.TimeoutExpired as e:
        return 124, (e.stdout or b"").decode("latin1") + "\nTIMEOUT", time.time() - t0

def sha(*parts):
    h = hashlib.sha256()
    for p in parts:
        if isinstance(p, str) and os.path.isfile(p): h.update(open(p, "rb").read())
        elif isinstance(p, str) and os.path.isdir(p):
            for root, _, files in sorted(os.walk(p)):
                for f in sorted(files):
                    if f.endswith((".v", ".ml", ".cpp", ".hpp", ".py")): h.update(f.encode()); h.update(open(os.path.join(root, f), "rb").read())
        else: h.update(str(p).encode())
    return h.hexdigest()[:16]

def header_hash(): return sha(HEADER)

def prune_cache(keep=8):
    """the cache is keyed by the header's hash (and the model's): keep the newest few entries of each kind"""
    for base in (CACHE, CACHE + "/runs", CACHE + "/fixed"):
        if not os.path.isdir(base): continue
        groups = {}
        for n in os.listdir(base):
            p = os.path.join(base, n)
            if not os.path.isdir(p) or n in ("runs", "fixed", "extract"): continue
            groups.setdefault(n.rsplit("-", 1)[0], []).append((os.path.getmtime(p), p))
        for k, lst in groups.items():
            for _, p in sorted(lst, reverse=True)[keep:]:
                shutil.rmtree(p, ignore_errors=True)

import contextlib, fcntl
@contextlib.contextmanager
def locked(name):
    """exclusive lock shared by concurrently running checks (builds and family runs write into shared cache directories)"""
    os.makedirs(CACHE + "/locks", exist_ok=True)
    with open(f"{CACHE}/locks/{name.replace('/', '_')}.lock", "w") as f:
        fcntl.flock(f, fcntl.LOCK_EX)
        try: yield
        finally: fcntl.flock(f, fcntl.LOCK_UN)

class Broken(Exception):
    """the machinery (not the property) is broken: build failure of our own tools etc."""

# ---------------------------------------------------------------- Coq project
def source_facts():
    rc, out, _ = sh([sys.executable, VERIF + "/tools/source_facts.py", HEADER, COQ + "/Model/SourceFacts.v"])
    return rc == 0, out.strip()

def _coq_make(targets=None):
    """full .vo build (never -vos). Returns (ok, log)."""
    if not os.path.exists(COQ + "/Makefile"):
        rc, out, _ = sh("coq_makefile -f _CoqProject -o Makefile", cwd=COQ)
        if rc: raise Broken("coq_makefile failed: " + out)
    rc, out, dt = sh(f"timeout 3000 make -k -j{NPROC} " + (" ".join(targets) if targets else ""), cwd=COQ, timeout=3100)
    return rc == 0, out

def coqc_file(path, timeout=1200):
    rc, out, dt = sh(f"timeout {timeout} coqc -Q . Ctpg {path}", cwd=COQ, timeout=timeout + 30)
    return rc == 0, out, dt

def scan_forbidden():
    """no Admitted/admit/Axiom/Parameter/Conjecture/guard tricks anywhere in the development"""
    bad = []
    pat = re.compile(r"\b(Admitted|admit|Axiom|Parameter|Parameters|Conjecture|Admit Obligations)\b|Unset Guard|bypass_check|type-in-type|impredicative-set")
    for root, _, files in os.walk(COQ):
        for f in files:
            if not f.endswith(".v") or f.startswith("Dbg_"): continue
            try: lines = open(os.path.join(root, f), errors="replace").read().split("\n")
            except FileNotFoundError: continue      # a per-run Cases_*.v of a concurrently running check, removed meanwhile
            for n, line in enumerate(lines, 1):
                code = re.sub(r"\(\*.*?\*\)", "", line)
                if pat.search(code): bad.append(f"{os.path.relpath(os.path.join(root, f), COQ)}:{n}: {line.strip()[:100]}")
    return bad

def props_check(pid):
    """compile Props/Properties_<pid>.v and return (ok, assumptions text, theorem names)"""
    path = f"Props/Properties_{pid}.v"
    if not os.path.exists(os.path.join(COQ, path)): return False, "missing " + path, []
    ok, out, dt = coqc_file(path)
    thms = re.findall(r"^Theorem (\w+)", open(os.path.join(COQ, path)).read(), re.M)
    return ok, out, thms

# ---------------------------------------------------------------- extraction + OCaml drivers
def _ensure_model_bins():
    key = sha(COQ + "/Model", COQ + "/Valid", COQ + "/Extract", VERIF + "/harness/ml")
    d = f"{CACHE}/extract-{key}"
    if os.path.exists(d + "/ok"): return d
    os.makedirs(d, exist_ok=True)
    ok_all, log_all = _coq_make()          # extraction needs the compiled model and validators, whatever property is being checked
    rc, out, _ = sh(f"coqc -Q {COQ} Ctpg {COQ}/Extract/Extract.v", cwd=d, timeout=600)
    if rc: raise Broken("extraction failed: " + out[-2000:])
    for f in os.listdir(VERIF + "/harness/ml"): shutil.copy(VERIF + "/harness/ml/" + f, d)
    for drv in ("h1_model", "h2_model", "h3_model"):
        rc, out, _ = sh(f"ocamlfind ocamlopt -w -a model.mli model.ml conv.ml h2dump.ml {drv}.ml -o {drv}", cwd=d, timeout=600)
        if rc: raise Broken(f"ocaml build of {drv} failed: " + out[-2000:])
    open(d + "/ok", "w").write("ok")
    return d

# ---------------------------------------------------------------- harness builds against /repo's current tree
def _ensure_h1():
    key = sha(HEADER, VERIF + "/harness/h1.cpp", VERIF + "/harness/gen_carriers.py", VERIF + "/harness/checked_buffer.hpp")
    d = f"{CACHE}/h1-{key}"
    if os.path.exists(d + "/ok"): return d, None
    os.makedirs(d, exist_ok=True)
    rc, out, _ = sh([sys.executable, VERIF + "/harness/gen_carriers.py", d + "/carriers.hpp", d + "/carriers.json"])
    if rc: raise Broken("gen_carriers failed: " + out)
    rc, out, _ = sh(f"g++ -std=c++17 -O1 -pthread -DCTPG_VERIF -I{REPO}/include -I{d} -I{VERIF}/harness -o {d}/h1 {VERIF}/harness/h1.cpp", timeout=1200)
    if rc: return d, out       # the header no longer compiles with the harness: reported by the caller
    open(d + "/ok", "w").write("ok")
    return d, None

def _ensure_h2():
    key = sha(HEADER, VERIF + "/harness/h2.cpp")
    d = f"{CACHE}/h2-{key}"
    if os.path.exists(d + "/ok"): return d, None
    os.makedirs(d, exist_ok=True)
    rc, out, _ = sh(f"g++ -std=c++17 -O1 -pthread -DCTPG_VERIF -I{REPO}/include -o {d}/h2 {VERIF}/harness/h2.cpp", timeout=1200)
    if rc: return d, out
    open(d + "/ok", "w").write("ok")
    return d, None

# ---------------------------------------------------------------- output parsing
def split_cases(text):
    cases = {}; cur = None; buf = []
    for line in text.split("\n"):
        if line.startswith("CASE "):
            cur = line.split()[1]; buf = []
        elif line == "ENDCASE" and cur is not None:
            cases[cur] = buf; cur = None
        elif cur is not None: buf.append(line)
    return cases

def parse_h1_case(lines):
    c = {"gen": None, "states": [], "rows": [], "diag": "", "inputs": [], "skipped": False}
    i = 0
    while i < len(lines):
        l = lines[i]
        if l.startswith("GEN "): c["gen"] = l[4:]
        elif l.startswith("NULLABLE ") or l.startswith("FIRST "): c.setdefault("first", []).append(l)
        elif re.match(r"^S\d+:", l): c["states"].append(l.split(":", 1)[1].split())
        elif re.match(r"^RC\d+:", l): c.setdefault("cellrows", []).append(l.split(":", 1)[1].split())
        elif re.match(r"^R\d+:", l): c["rows"].append([tuple(int(x) for x in e.split(",")) for e in l.split(":", 1)[1].split()])
        elif l.startswith("DIAG "):
            j = i + 1; d = []
            while j < len(lines) and lines[j] != "ENDDIAG": d.append(lines[j]); j += 1
            c["diag"] = "\n".join(d); i = j
        elif l.startswith("INPUTS skipped"): c["skipped"] = True
        elif l.startswith("IN "): c["inputs"].append({"res": None, "ctx": None, "err": "", "res2": None, "err2": "", "res3": None, "lexcalls": None})
        elif l.startswith("RES2 "): c["inputs"][-1]["res2"] = l[5:]
        elif l.startswith("RES3 "): c["inputs"][-1]["res3"] = l[5:]
        elif l.startswith("RES "): c["inputs"][-1]["res"] = l[4:]
        elif l.startswith("CTX"): c["inputs"][-1]["ctx"] = l[3:].strip()
        elif l.startswith("LEXCALLS"): c["inputs"][-1]["lexcalls"] = l[8:].strip()
        elif l.startswith("ERR2 "):
            j = i + 1; d = []
            while j < len(lines) and lines[j] != "ENDERR2": d.append(lines[j]); j += 1
            c["inputs"][-1]["err2"] = "\n".join(d); i = j
        elif l.startswith("ERR "):
            j = i + 1; d = []
            while j < len(lines) and lines[j] != "ENDERR": d.append(lines[j]); j += 1
            c["inputs"][-1]["err"] = "\n".join(d); i = j
        i += 1
    return c

def parse_h2_case(lines):
    c = {"analyze": None, "build": None, "lexer": None, "throw": None, "states": [], "matches": []}
    i = 0
    while i < len(lines):
        l = lines[i]
        if l.startswith("ANALYZE "): c["analyze"] = l[8:]
        elif l.startswith("ADS "): c["ads"] = l[4:]
        elif l.startswith("BUILD "): c["build"] = l[6:]
        elif l.startswith("LEXER "): c["lexer"] = l[6:]
        elif l.startswith("THROW "): c["throw"] = l[6:]
        elif l.startswith("ST "): c["states"].append(l)
        elif l.startswith("M "):
            p = l.split(); c["matches"].append({"t": int(p[2]), "len": int(p[3]), "flags": p[4:], "v": ""})
        elif l.startswith("V "):
            j = i + 1; d = []
            while j < len(lines) and lines[j] != "ENDV": d.append(lines[j]); j += 1
            c["matches"][-1]["v"] = "\n".join(d); i = j
        i += 1
    return c

# ---------------------------------------------------------------- family runs (cached per header+seed+tier)
def _run_family(name, gen_cmd, real_bin, model_bin, key, extra_model_args="", second_model_on_real=False):
    d = f"{CACHE}/runs/{name}-{key}"
    if os.path.exists(d + "/done"):
        return d
    os.makedirs(d, exist_ok=True)
    rc, out, _ = sh(gen_cmd(d), timeout=1200)
    if rc: raise Broken(f"case generation failed for {name}: {out[-1500:]}")
    # the case file is cut into shards (whole CASE blocks) that run in parallel; outputs are concatenated in order.
    # A shard of the real harness that does not end within 600 s is a hang (its missing blocks are reported by the checks).
    import concurrent.futures as cf
    blocks, cur = [], []
    for line in open(d + "/cases", "rb"):
        if line.startswith(b"CASE ") and cur: blocks.append(b"".join(cur)); cur = []
        cur.append(line)
    if cur: blocks.append(b"".join(cur))
    nsh = max(1, min(NPROC, len(blocks) // 8))
    per = (len(blocks) + nsh - 1) // nsh
    shards = []
    for i in range(nsh):
        part = blocks[i * per:(i + 1) * per]
        if not part: continue
        open(f"{d}/cases.{i}", "wb").write(b"".join(part)); shards.append(i)
    def one(i):
        r1 = sh(f"timeout 600 {real_bin} {d}/cases.{i} > {d}/real.out.{i} 2> {d}/real.err.{i}", timeout=700)
        r2 = sh(f"{model_bin} {d}/cases.{i} {extra_model_args} > {d}/model.out.{i} 2> {d}/model.err.{i}", timeout=3000)
        r3 = (0, "", 0)
        if second_model_on_real:
            r3 = sh(f"{model_bin} {d}/cases.{i} --tables {d}/real.out.{i} > {d}/model_rt.out.{i} 2> {d}/model_rt.err.{i}", timeout=3000)
        return r1, r2, r3
    with cf.ThreadPoolExecutor(NPROC) as ex: results = list(ex.map(one, shards))
    def cat(stem):
        with open(f"{d}/{stem}", "wb") as o:
            for i in shards:
                pth = f"{d}/{stem}.{i}"
                if os.path.exists(pth): o.write(open(pth, "rb").read()); os.remove(pth)
    for stem in ["real.out", "real.err", "model.out", "model.err"] + (["model_rt.out", "model_rt.err"] if second_model_on_real else []): cat(stem)
    for i in shards: os.remove(f"{d}/cases.{i}")
    rc1 = max(r[0][0] for r in results); rc2 = max(r[1][0] for r in results); rc3 = max(r[2][0] for r in results)
    t1 = max(r[0][2] for r in results); t2 = max(r[1][2] for r in results)
    if rc3: raise Broken(f"model driver (on real tables) failed on {name}: " + open(d + "/model_rt.err").read()[-1500:])
    json.dump({"real_rc": rc1, "model_rc": rc2, "real_s": t1, "model_s": t2, "shards": len(shards)}, open(d + "/status.json", "w"))
    if rc2: raise Broken(f"model driver failed on {name}: " + open(d + "/model.err").read()[-1500:])
    open(d + "/done", "w").write("ok")
    return d

def read(path):
    with open(path, "rb") as f: return f.read().decode("latin1")

# ---------------------------------------------------------------- evidence
def write_evidence(pid, tier, seed, wall, coverage, assumptions, violations):
    ev = {"property_id": pid, "tier": tier, "seed": seed, "level": "proof", "coverage": coverage,
          "assumptions": assumptions, "wall_s": round(wall, 2), "violations": violations}
    os.makedirs(VERIF + "/evidence", exist_ok=True)
    json.dump(ev, open(f"{VERIF}/evidence/{pid}.json", "w"), indent=1)

def known_findings():
    return json.load(open(VERIF + "/known_findings.json"))


# ---------------------------------------------------------------- the same entry points, serialised across concurrently running checks
def coq_make(targets=None):
    with locked("coq"): return _coq_make(targets)
def ensure_model_bins():
    with locked("coq"): return _ensure_model_bins()
def ensure_h1():
    with locked("h1"): return _ensure_h1()
def ensure_h2():
    with locked("h2"): return _ensure_h2()
def run_family(name, gen_cmd, real_bin, model_bin, key, extra_model_args="", second_model_on_real=False):
    with locked(f"run-{name}-{key}"): return _run_family(name, gen_cmd, real_bin, model_bin, key, extra_model_args, second_model_on_real)
