"""Writes dumps of the REAL code (grammar_info as injected, item sets and parse table as dumped through the hook)
as Coq terms, for the per-instance obligations that the kernel evaluates."""

def nat_list(xs): return "[" + "; ".join(str(x) for x in xs) + "]"

def grammar_term(case):
    """case: dict from tools/grammars.py analyse()"""
    def sym(t, i): return f"T {i}" if t else f"NT {i}"
    rs = "[" + "; ".join("[" + "; ".join(sym(t, i) for t, i in syms) + "]" for syms in case["rs"]) + "]"
    ris = "[" + "; ".join(f"mkRI {l} {r} {n}" for l, r, n in case["ri"]) + "]"
    sl = "[" + "; ".join(f"({a}, {b})" for a, b in case["sl"]) + "]"
    def z(p): return f"({p})%Z"
    assoc = {0: "NoAssoc", 1: "Ltor", 2: "Rtol"}
    tp = "[" + "; ".join(z(p) for p, _ in case["tp"]) + "]"
    ta = "[" + "; ".join(assoc[a] for _, a in case["tp"]) + "]"
    rp = "[" + "; ".join(z(p) for p, _, _ in case["rp"]) + "]"
    ra = "[" + "; ".join(assoc[a] for _, a, _ in case["rp"]) + "]"
    rl = "[" + "; ".join(("None" if l < 0 else f"Some {l}") for _, _, l in case["rp"]) + "]"
    return f"(mkG {case['tc']} {case['ntc']} {case['rc']} {case['me']} {rs} {ris} {sl} {tp} {ta} {rp} {ra} {rl})"

def states_term(states):
    """states: list of lists of 'r.d.t' strings"""
    return "[" + "; ".join("[" + "; ".join("mkItem %s %s %s" % tuple(it.split(".")) for it in st) + "]" for st in states) + "]"

KINDS = ["KError", "KSuccess", "KShift", "KShiftErr", "KReduce", "KRR"]
def table_term(rows):
    def e(k, a, s): return f"mkE {KINDS[k]} {'None' if a < 0 else '(Some %d)' % a} {'true' if s else 'false'}"
    return "[" + "; ".join("[" + "; ".join(e(*c) for c in row) + "]" for row in rows) + "]"

HEADER = """Require Import Ctpg.Base.Prelude Ctpg.Model.Grammar Ctpg.Model.LRGen Ctpg.Valid.LRValid.
Local Open Scope nat_scope.
"""
