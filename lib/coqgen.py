"""Writes dumps of the REAL code (grammar_info as injected, item sets and parse table as dumped through the hook)
as Coq terms, for the per-instance obligations that the kernel evaluates."""

def nat_list(xs): return "[" + "; ".join(str(x) for x in xs) + "]"

def grammar_term(case):
    """case: dict from tools/grammars.py analyse()"""
    def sym(t, i): return f"T {i}" if t else f"NT {i}"
    rs = "[" + "; ".join("[" + "; ".join(sym(t, i) for t, i in syms) + "]" for syms in case["rs"]) + "]"
    ris = "[" + "; ".join(f"mkRI {l} {r} {n}" for l, r, n in case["ri"]) + "]"
    sl = "[" + "; ".join(f"({a}, {b})" for a, b in case["sl"]) + "]"
    def z(p): return f"({p})%Z"
    assoc = {0: "NoAssoc", 1: "Ltor", 2: "Rtol"}
    tp = "[" + "; ".join(z(p) for p, _ in case["tp"]) + "]"
    ta = "[" + "; ".join(assoc[a] for _, a in case["tp"]) + "]"
    rp = "[" + "; ".join(z(p) for p, _, _ in case["rp"]) + "]"
    ra = "[" + "; ".join(assoc[a] for _, a, _ in case["rp"]) + "]"
    rl = "[" + "; ".join(("None" if l < 0 else f"Some {l}") for _, _, l in case["rp"]) + "]"
    return f"(mkG {case['tc']} {case['ntc']} {case['rc']} {case['me']} {rs} {ris} {sl} {tp} {ta} {rp} {ra} {rl})"

def states_term(states):
    """states: list of lists of 'r.d.t' strings"""
    return "[" + "; ".join("[" + "; ".join("mkItem %s %s %s" % tuple(it.split(".")) for it in st) + "]" for st in states) + "]"

def closure_order(case, states):
    """Untrusted preprocessing for the order-sensitive checks (closure_generatedb / lookahead_generatedb): the real code dumps a state's
    items in index order; reorder each state so that kernel items come first and every dot-0 item comes after an item that
    justifies it (dot before its left side, lookahead in FIRST of what follows). The Coq check then verifies the order; items
    that nothing justifies are put last, where the check rejects them."""
    rs = case["rs"]; ri = case["ri"]; ntc = case["ntc"]
    nullable = [False] * ntc; first = [set() for _ in range(ntc)]
    ch = True
    while ch:
        ch = False
        for (l, r, n) in ri:
            alln = True
            for (t, i) in rs[r]:
                if t:
                    if i not in first[l]: first[l].add(i); ch = True
                    alln = False; break
                new = first[i] - first[l]
                if new: first[l] |= new; ch = True
                if not nullable[i]: alln = False; break
            if alln and not nullable[l]: nullable[l] = True; ch = True
    def first_tail(beta, a):
        out = set()
        for (t, i) in beta:
            if t: out.add(i); return out
            out |= first[i]
            if not nullable[i]: return out
        out.add(a); return out
    res = []
    for sidx, st in enumerate(states):
        items = [tuple(map(int, it.split("."))) for it in st]
        root_ri = len(ri) - 1
        placed = [it for it in items if it[1] > 0 or (sidx == 0 and it[0] == root_ri)]
        rest = [it for it in items if it not in placed]
        ch = True
        while ch and rest:
            ch = False
            for it in list(rest):
                B = ri[it[0]][0]
                for p in placed:
                    rhs = rs[ri[p[0]][1]]
                    if p[1] < len(rhs) and tuple(rhs[p[1]]) == (0, B) and it[2] in first_tail(rhs[p[1] + 1:], p[2]):
                        placed.append(it); rest.remove(it); ch = True; break
        res.append(["%d.%d.%d" % it for it in placed + rest])
    return res

KINDS = ["KError", "KSuccess", "KShift", "KShiftErr", "KReduce", "KRR"]
def table_term(rows):
    def e(k, a, s): return f"mkE {KINDS[k]} {'None' if a < 0 else '(Some %d)' % a} {'true' if s else 'false'}"
    return "[" + "; ".join("[" + "; ".join(e(*c) for c in row) + "]" for row in rows) + "]"

HEADER = """Require Import Ctpg.Base.Prelude Ctpg.Model.Grammar Ctpg.Model.LRGen Ctpg.Valid.LRValid.
Local Open Scope nat_scope.
"""

# ---- automata dumps (H2) ----
import re as _re
def dfa_term(state_lines):
    """state_lines: 'ST i sef r a b c d m ... t lo-hi>tgt ...' as printed by harness/h2.cpp"""
    out = []
    for l in state_lines:
        head, rest = l.split(" r ", 1)
        flags = head.split()[2]
        rpart, rest = rest.split(" m", 1)
        mpart, tpart = rest.split(" t", 1) if " t" in rest else (rest, "")
        recs = [int(x) for x in rpart.split() if int(x) >= 0]
        merged = [int(x) for x in mpart.split()]
        runs = [tuple(map(int, _re.match(r"(\d+)-(\d+)>(\d+)", x).groups())) for x in tpart.split()]
        b = lambda ch: "true" if ch == "1" else "false"
        out.append(f"mkD {b(flags[0])} {b(flags[1])} {b(flags[2])} {nat_list(recs)} (expand_runs [" + "; ".join(f"({lo}, {hi}, {tg})" for lo, hi, tg in runs) + f"]) {nat_list(merged)}")
    return "[" + ";\n   ".join(out) + "]"

H2_HEADER = """Require Import Ctpg.Base.Prelude Ctpg.Model.Grammar Ctpg.Model.LRGen Ctpg.Model.Driver Ctpg.Model.Dfa Ctpg.Model.RegexFront
               Ctpg.Valid.DfaValid Ctpg.Valid.SpecMatch.
Local Open Scope nat_scope.
Definition rgt := Eval vm_compute in regex_grammar_table.
Definition pp (pat : list nat) : option regex := match rgt with Some (g, tb) => parse_pattern_with g tb pat | None => None end.
Definition term_of (k : nat) (s : list nat) : option term_data :=
  match k with 0 => Some (TChar (nth 0 s 0)) | 1 => Some (TString s) | _ => option_map TRegex (pp s) end.
Fixpoint terms_of (l : list (nat * list nat)) : option (list term_data) :=
  match l with [] => Some [] | (k, s) :: t => match term_of k s, terms_of t with Some x, Some xs => Some (x :: xs) | _, _ => None end end.
(* the obligation: the automaton dumped from the real builder is validated against the pattern(s) *)
Definition ob_pat (pat : list nat) (sm : dfa) : bool := match pp pat with Some r => lexer_ok sm [TRegex r] | None => false end.
Definition ob_terms (ts : list (nat * list nat)) (sm : dfa) : bool := match terms_of ts with Some l => lexer_ok sm l | None => false end.
"""
