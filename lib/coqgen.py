"""Writes dumps of the REAL code (grammar_info as injected, item sets and parse table as dumped through the hook)
as Coq terms, for the per-instance obligations that the kernel evaluates."""

def nat_list(xs): return "[" + "; ".join(str(x) for x in xs) + "]"

def grammar_term(case):
    """case: dict from tools/grammars.py analyse()"""
    def sym(t, i): return f"T {i}" if t else f"NT {i}"
    rs = "[" + "; ".join("[" + "; ".join(sym(t, i) for t, i in syms) + "]" for syms in case["rs"]) + "]"
    ris = "[" + "; ".join(f"mkRI {l} {r} {n}" for l, r, n in case["ri"]) + "]"
    sl = "[" + "; ".join(f"({a}, {b})" for a, b in case["sl"]) + "]"
    def z(p): return f"({p})%Z"
    assoc = {0: "NoAssoc", 1: "Ltor", 2: "Rtol"}
    tp = "[" + "; ".join(z(p) for p, _ in case["tp"]) + "]"
    ta = "[" + "; ".join(assoc[a] for _, a in case["tp"]) + "]"
    rp = "[" + "; ".join(z(p) for p, _, _ in case["rp"]) + "]"
    ra = "[" + "; ".join(assoc[a] for _, a, _ in case["rp"]) + "]"
    rl = "[" + "; ".join(("None" if l < 0 else f"Some {l}") for _, _, l in case["rp"]) + "]"
    return f"(mkG {case['tc']} {case['ntc']} {case['rc']} {case['me']} {rs} {ris} {sl} {tp} {ta} {rp} {ra} {rl})"

def states_term(states):
    """states: list of lists of 'r.d.t' strings"""
    return "[" + "; ".join("[" + "; ".join("mkItem %s %s %s" % tuple(it.split(".")) for it in st) + "]" for st in states) + "]"

KINDS = ["KError", "KSuccess", "KShift", "KShiftErr", "KReduce", "KRR"]
def table_term(rows):
    def e(k, a, s): return f"mkE {KINDS[k]} {'None' if a < 0 else '(Some %d)' % a} {'true' if s else 'false'}"
    return "[" + "; ".join("[" + "; ".join(e(*c) for c in row) + "]" for row in rows) + "]"

HEADER = """Require Import Ctpg.Base.Prelude Ctpg.Model.Grammar Ctpg.Model.LRGen Ctpg.Valid.LRValid.
Local Open Scope nat_scope.
"""

# ---- automata dumps (H2) ----
import re as _re
def dfa_term(state_lines):
    """state_lines: 'ST i sef r a b c d m ... t lo-hi>tgt ...' as printed by harness/h2.cpp"""
    out = []
    for l in state_lines:
        head, rest = l.split(" r ", 1)
        flags = head.split()[2]
        rpart, rest = rest.split(" m", 1)
        mpart, tpart = rest.split(" t", 1) if " t" in rest else (rest, "")
        recs = [int(x) for x in rpart.split() if int(x) >= 0]
        merged = [int(x) for x in mpart.split()]
        runs = [tuple(map(int, _re.match(r"(\d+)-(\d+)>(\d+)", x).groups())) for x in tpart.split()]
        b = lambda ch: "true" if ch == "1" else "false"
        out.append(f"mkD {b(flags[0])} {b(flags[1])} {b(flags[2])} {nat_list(recs)} (expand_runs [" + "; ".join(f"({lo}, {hi}, {tg})" for lo, hi, tg in runs) + f"]) {nat_list(merged)}")
    return "[" + ";\n   ".join(out) + "]"

H2_HEADER = """Require Import Ctpg.Base.Prelude Ctpg.Model.Grammar Ctpg.Model.LRGen Ctpg.Model.Driver Ctpg.Model.Dfa Ctpg.Model.RegexFront
               Ctpg.Valid.DfaValid Ctpg.Valid.SpecMatch.
Local Open Scope nat_scope.
Definition rgt := Eval vm_compute in regex_grammar_table.
Definition pp (pat : list nat) : option regex := match rgt with Some (g, tb) => parse_pattern_with g tb pat | None => None end.
Definition term_of (k : nat) (s : list nat) : option term_data :=
  match k with 0 => Some (TChar (nth 0 s 0)) | 1 => Some (TString s) | _ => option_map TRegex (pp s) end.
Fixpoint terms_of (l : list (nat * list nat)) : option (list term_data) :=
  match l with [] => Some [] | (k, s) :: t => match term_of k s, terms_of t with Some x, Some xs => Some (x :: xs) | _, _ => None end end.
(* the obligation: the automaton dumped from the real builder is validated against the pattern(s) *)
Definition ob_pat (pat : list nat) (sm : dfa) : bool := match pp pat with Some r => lexer_ok sm [TRegex r] | None => false end.
Definition ob_terms (ts : list (nat * list nat)) (sm : dfa) : bool := match terms_of ts with Some l => lexer_ok sm l | None => false end.
"""
