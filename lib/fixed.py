"""Hand-written programs through the public API (harness/fixed/*.cpp) and the replays of confirmed defects
(corpus/replays/D*.cpp): compiled against /repo's current header, run, and their FAIL/DEFECT lines collected."""
import os, re
from common import *

def build_and_run(src, cxx="g++", flags="", name=None, timeout=1800, run_prefix=""):
    name = name or os.path.basename(src)[:-4]
    key = sha(HEADER, src, cxx, flags, VERIF + "/harness/fixed/checked_buffer.hpp", VERIF + "/corpus/replays/common.hpp")
    d = f"{CACHE}/fixed/{name}-{key}"
    with locked(f"fixed-{name}-{key}"):
      if not os.path.exists(d + "/done"):
        os.makedirs(d, exist_ok=True)
        rc, out, dt = sh(f"{cxx} -std=c++17 {flags} -I{REPO}/include -I{os.path.dirname(src)} -o {d}/bin {src}", timeout=timeout)
        res = {"compile_rc": rc, "compile_out": out[-3000:], "run_rc": None, "run_out": ""}
        if rc == 0:
            rc2, out2, dt2 = sh(f"{run_prefix} timeout 300 {d}/bin", timeout=400)
            res["run_rc"] = rc2; res["run_out"] = out2[-6000:]
            try: os.remove(d + "/bin")
            except OSError: pass
        json.dump(res, open(d + "/res.json", "w")); open(d + "/done", "w").write("ok")
      return json.load(open(d + "/res.json"))

def run_fixed(rep, fname, cxx="g++", flags="", what="", run_prefix=""):
    """returns True when the program compiled, ran and reported no failure"""
    src = f"{VERIF}/harness/fixed/{fname}"
    r = build_and_run(src, cxx, flags, name=f"{fname[:-4]}-{cxx.replace('+','p')}", run_prefix=run_prefix)
    rep.cov["evaluations"] += 1
    if r["compile_rc"] != 0:
        rep.fail(kind="program-using-the-public-api-no-longer-compiles", program=fname, compiler=cxx, flags=flags, output=r["compile_out"][-1200:]); return False
    fails = [l for l in r["run_out"].split("\n") if l.startswith("FAIL") or "ERROR: AddressSanitizer" in l or "runtime error:" in l or "WARNING: ThreadSanitizer" in l or "DEFECT" in l]
    if r["run_rc"] != 0 or fails:
        rep.fail(kind=what or "public-api-program-failed", program=fname, compiler=cxx, flags=flags, exit=r["run_rc"], lines=fails[:8] or [r["run_out"][-600:]]); return False
    rep.notes.setdefault("fixed_programs", []).append(f"{fname} [{cxx} {flags}]: " + r["run_out"].strip().split("\n")[-1][:120])
    return True

def run_replay(rep, did, fixed=True, cxx="g++", flags=""):
    """replays of confirmed defects: fixed ones must pass; known findings must still reproduce (otherwise the finding file is stale)"""
    src = f"{VERIF}/corpus/replays/{did}.cpp"
    r = build_and_run(src, cxx, flags, name=f"replay-{did}-{cxx.replace('+','p')}")
    rep.cov["evaluations"] += 1
    ok = r["compile_rc"] == 0 and r["run_rc"] == 0
    if fixed:
        if not ok:
            rep.fail(kind="repaired-defect-is-back", replay=f"corpus/replays/{did}.cpp", compiler=cxx, output=(r["run_out"] or r["compile_out"])[-800:])
        return ok
    return not ok     # known finding: True when it still reproduces

def must_not_compile(rep, fname, cxx="g++"):
    """a program the library must refuse at compile time (malformed pattern, undeclared symbol in a constexpr parser)"""
    src = f"{VERIF}/harness/fixed/must_not_compile/{fname}"
    key = sha(HEADER, src, cxx)
    d = f"{CACHE}/fixed/mnc-{fname[:-4]}-{key}"
    if not os.path.exists(d + "/done"):
        os.makedirs(d, exist_ok=True)
        rc, out, _ = sh(f"{cxx} -std=c++17 -I{REPO}/include -fsyntax-only {src}", timeout=900)
        json.dump({"rc": rc, "out": out[-1500:]}, open(d + "/res.json", "w")); open(d + "/done", "w").write("ok")
    r = json.load(open(d + "/res.json"))
    rep.cov["evaluations"] += 1
    if r["rc"] == 0:
        rep.fail(kind="malformed-pattern-or-grammar-accepted-at-compile-time", program="harness/fixed/must_not_compile/" + fname, compiler=cxx); return False
    return True
