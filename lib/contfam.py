"""Correspondence family for namespace stdex (cbitset, cvector, cqueue, sort): the REAL templates of /repo's header run on
generated operation sequences (harness/containers.cpp); the real observations are written into coq/Cases_containers_<tag>.v
and the Coq kernel proves `model observation = real observation` for every case (vm_compute); an independent Python
reference (sets / lists) judges every real observation, so a disagreement comes with a failing operation sequence."""
import os, random, re, json
from common import *

BN = [1, 3, 63, 64, 65, 127, 128, 129, 200, 256]
CN = [1, 2, 3, 5, 8]

def ensure_containers():
    key = sha(HEADER, VERIF + "/harness/containers.cpp")
    d = f"{CACHE}/cont-{key}"
    with locked("cont"):
        if os.path.exists(d + "/ok"): return d, None
        os.makedirs(d, exist_ok=True)
        rc, out, _ = sh(f"g++ -std=c++17 -O1 -I{REPO}/include -o {d}/cont {VERIF}/harness/containers.cpp", timeout=900)
        if rc: return d, out
        open(d + "/ok", "w").write("ok")
        return d, None

def gen_cases(seed, tier):
    rnd = random.Random(1000 + seed)
    nb, nv, nq, ns = (260, 200, 200, 400) if tier == "quick" else (1500, 1000, 1000, 3000)
    cases = []
    def idx(n):    # aimed at word boundaries and the range check
        c = [0, 1, 62, 63, 64, 65, 126, 127, 128, 129, n - 2, n - 1, n, n + 1, n + 63, n + 64, 191, 192, 255, 256]
        r = rnd.random()
        if r < 0.6: return max(0, rnd.choice(c))
        return rnd.randrange(0, n + 2)
    # forced shapes first
    for n in BN:
        cases.append(("B", n, [f"s{n-1}", f"s{n}", "s0"]))
        cases.append(("B", n, ["S"])); cases.append(("B", n, ["F"])); cases.append(("B", n, ["S", "R", f"s{n-1}"]))
        cases.append(("B", n, [f"s{i}" for i in range(0, n, 7)] + ["F", f"r{n-1}", f"v{n-1}:1", f"v0:0", f"f{n//2}"]))
        cases.append(("B", n, [f"a{n-1}", f"a{n//2}", f"a{n}", f"v{n//2}:0"]))
    for _ in range(nb):
        n = rnd.choice(BN); ops = []
        for _ in range(rnd.randrange(1, 14)):
            k = rnd.random()
            if k < 0.3: ops.append(f"s{idx(n)}")
            elif k < 0.45: ops.append(f"v{idx(n)}:{rnd.randrange(2)}")
            elif k < 0.6: ops.append(f"r{idx(n)}")
            elif k < 0.72: ops.append(f"f{idx(n)}")
            elif k < 0.84: ops.append(f"a{idx(n)}")
            elif k < 0.89: ops.append("F")
            elif k < 0.93: ops.append("S")
            else: ops.append("R")
        cases.append(("B", n, ops))
    for cap in CN:
        cases.append(("V", cap, [f"p{i+1}" for i in range(cap + 2)] + ["l1", "p77", f"e0:{cap}", "p5"]))
        cases.append(("V", cap, [f"m{i+1}" for i in range(cap)] + [f"l{cap+3}", "o", "p3", "c", "p4", "p6"]))
    for _ in range(nv):
        cap = rnd.choice(CN); ops = []; size = 0
        for _ in range(rnd.randrange(1, 16)):
            k = rnd.random()
            if k < 0.5 or size == 0:
                ops.append(("p" if rnd.random() < 0.7 else "m") + str(rnd.randrange(1, 1000))); size = min(cap, size + 1)
            elif k < 0.62: ops.append("o"); size = max(0, size - 1)
            elif k < 0.66: ops.append("c"); size = 0
            elif k < 0.82:
                n = rnd.randrange(0, size + 2); ops.append(f"l{n}"); size = max(0, size - n)
            else:
                f = rnd.randrange(0, size + 1); l = rnd.randrange(0, cap + 1); ops.append(f"e{f}:{l}")
                if f < l: size = size - (min(size, l) - f)
        cases.append(("V", cap, ops))
    for cap in CN:
        cases.append(("Q", cap, [f"p{i+1}" for i in range(cap + 1)] + ["o"] * (cap + 1) + ["p9", "o", "p8", "p7"]))
    for _ in range(nq):
        cap = rnd.choice(CN)
        cases.append(("Q", cap, [(f"p{rnd.randrange(1,1000)}" if rnd.random() < 0.55 else "o") for _ in range(rnd.randrange(1, 4 * cap + 6))]))
    cases.append(("S", None, ["5"])); cases.append(("S", None, [str(k) for k in range(12, 0, -1)])); cases.append(("S", None, ["1", "1", "0", "1", "0", "0"]))
    for _ in range(ns):
        m = rnd.choice([rnd.randrange(1, 14), rnd.randrange(10, 41)]); hi = rnd.choice([1, 2, 3, 6, 20])
        cases.append(("S", None, [str(rnd.randrange(0, hi + 1)) for _ in range(m)]))
    return cases

# ---------------------------------------------------------------- independent reference (property-level oracle)
def ref_bitset(n, ops):
    s = set(); flags = ""
    for o in ops:
        k = o[0]
        if k == "F": s = set(range(n)) - s; flags += "0"; continue
        if k == "S": s = set(range(n)); flags += "0"; continue
        if k == "R": s = set(); flags += "0"; continue
        i = int(o[1:].split(":")[0])
        if i >= n: flags += "1"; continue
        flags += "0"
        if k in "sa": s.add(i)
        elif k == "r": s.discard(i)
        elif k == "f": s ^= {i}
        elif k == "v": (s.add(i) if o.endswith("1") else s.discard(i))
    return flags, "".join("1" if i in s else "0" for i in range(n))

def ref_vector(cap, ops):
    l = []; flags = ""
    for o in ops:
        k = o[0]; f = "0"
        if k in "pm":
            if len(l) >= cap: f = "1"
            else: l.append(int(o[1:]))
        elif k == "o": l = l[:-1]
        elif k == "c": l = []
        elif k == "l": n = int(o[1:]); l = l[:max(0, len(l) - n)]
        elif k == "e":
            a, b = map(int, o[1:].split(":"))
            if a <= len(l) and a < b: l = l[:a] + l[min(len(l), b):]
        flags += f
    return flags, l

def ref_queue(cap, ops):
    l = []; tr = []
    for o in ops:
        t = 0
        if o[0] == "p":
            if len(l) >= cap: t = 1
            else: l.append(int(o[1:]))
        else:
            if not l: t = 1
            else: l = l[1:]
        tr.append(f"{t},{len(l)},{l[0] if l else '-'}")
    return ";".join(tr), l

def ref_sort(keys):
    return [i for _, i in sorted(((int(k), i) for i, k in enumerate(keys)), key=lambda p: p[0])]    # Python's sort is stable

# ---------------------------------------------------------------- Coq rendering
def coq_bool_list(s): return "[" + "; ".join("true" if c == "1" else "false" for c in s) + "]"
def coq_n_list(l): return "[" + "; ".join(str(x) for x in l) + "]"
def coq_bop(o):
    k = o[0]
    if k == "F": return "BFlipAll"
    if k == "S": return "BSetAll"
    if k == "R": return "BResetAll"
    if k == "v": i, v = o[1:].split(":"); return f"BSetVal {i} {'true' if v == '1' else 'false'}"
    return {"s": "BSet", "r": "BReset", "f": "BFlip", "a": "BAddSelfShift"}[k] + " " + o[1:]
def coq_vop(o, cap):
    k = o[0]
    if k in "pm": return f"VPush {o[1:]}"
    if k == "o": return "VPop"
    if k == "c": return "VClear"
    if k == "l": return f"VEraseLast {o[1:]}"
    a, b = o[1:].split(":"); return f"VErase {a} {b}"
def coq_qop(o): return f"QPush {o[1:]}" if o[0] == "p" else "QPop"

def run_containers(rep, what=("B", "V", "Q", "S")):
    """returns number of cases; records broken ties / failing inputs in rep"""
    d, err = ensure_containers()
    if err:
        rep.tie_broken("the container harness no longer compiles against /repo's header: " + err[-500:]); return 0
    cases = [c for c in gen_cases(rep.seed, rep.tier) if c[0] in what]
    cf = f"{d}/cases_{rep.pid}_{rep.tier}_{rep.seed}_{''.join(what)}.txt"
    open(cf, "w").write("\n".join(" ".join([k] + ([str(n)] if n is not None else []) + ops) for k, n, ops in cases) + "\n")
    rc, out, _ = sh(f"timeout 300 {d}/cont {cf}", timeout=330)
    lines = [l for l in out.split("\n") if l.strip()]
    if rc != 0 or len(lines) != len(cases):
        k = len(lines)
        rep.fail(kind="real-container-code-crashed", case=" ".join(map(str, cases[min(k, len(cases) - 1)])), detail=f"exit status {rc}; the real templates printed {k} of {len(cases)} observations", tail=out[-300:])
        return 0
    bc, vc, qc, sc = [], [], [], []
    dist = {"B": 0, "V": 0, "Q": 0, "S": 0, "throws": 0, "ops": 0}
    for (k, n, ops), line in zip(cases, lines):
        body = line.split(" ", 2)[2] if len(line.split(" ", 2)) > 2 else ""
        dist[k] += 1; dist["ops"] += len(ops); rep.cov["evaluations"] += 1
        try:
            f = [x.strip() for x in body.split("|")]
            if k == "B":
                flags, words, tests, eq, oob, size = f
                dist["throws"] += flags.count("1")
                rf, rt = ref_bitset(n, ops)
                if flags != rf or tests != rt or oob != "1" or size != str(n):
                    rep.fail(kind="cbitset-is-not-a-set-of-indices-below-N", n=n, ops=" ".join(ops), real_throws=flags, expected_throws=rf, real_tests=tests, expected_tests=rt, test_N_throws=oob, size=size)
                bc.append(f"({n}, [{'; '.join(coq_bop(o) for o in ops)}], ({coq_bool_list(flags)}, {coq_n_list(words.split(',') if words else [])}, {coq_bool_list(tests)}, {'true' if eq == '1' else 'false'}, {'true' if oob == '1' else 'false'}))")
            elif k == "V":
                flags, size, cont, ends = f
                dist["throws"] += flags.count("1")
                cl = [int(x) for x in cont.split(",")] if cont else []
                rf, rl = ref_vector(n, ops)
                e = None
                if ends != "-": e = [int(x) for x in ends.split(",")]
                if flags != rf or cl != rl or int(size) != len(rl) or (rl and e != [rl[0], rl[-1], rl[0], rl[-1], len(rl)]) or (not rl and e is not None):
                    rep.fail(kind="cvector-is-not-a-bounded-list", capacity=n, ops=" ".join(ops), real_throws=flags, expected_throws=rf, real_contents=cl, expected_contents=rl, real_size=size, front_back_begin_last_distance=e)
                vc.append(f"({n}, [{'; '.join(coq_vop(o, n) for o in ops)}], ({coq_bool_list(flags)}, {size}, {coq_n_list(cl)}, {'Some (%d, %d)' % (e[0], e[1]) if e else 'None'}))")
            elif k == "Q":
                tr, drain = f
                dl = [int(x) for x in drain.split(",")] if drain else []
                rt, rl = ref_queue(n, ops)
                if tr != rt or dl != rl:
                    rep.fail(kind="cqueue-is-not-a-bounded-fifo", capacity=n, ops=" ".join(ops), real_trace=tr, expected_trace=rt, real_drain=dl, expected_drain=rl)
                items = []
                for it in tr.split(";"):
                    a, b, c = it.split(","); items.append(f"({'true' if a == '1' else 'false'}, {b}, {'None' if c == '-' else 'Some ' + c})")
                qc.append(f"({n}, [{'; '.join(coq_qop(o) for o in ops)}], ([{'; '.join(items)}], {coq_n_list(dl)}))")
            else:
                ids = [int(x) for x in body.split(",")]
                ks = [int(ops[i]) for i in ids] if all(0 <= i < len(ops) for i in ids) else None
                # what the library needs of the sort (contiguous rule slices per nonterminal): a permutation in non-decreasing key order.
                # Stability (rules of one nonterminal keep their written order) is what the model mirrors; a difference there alone is a broken tie.
                if ks is None or sorted(ids) != list(range(len(ops))) or any(a > b for a, b in zip(ks, ks[1:])):
                    rep.fail(kind="stdex-sort-result-is-not-a-sorted-permutation", keys=" ".join(ops), real_order=ids, keys_in_real_order=ks)
                sc.append(f"([{'; '.join('(%s, %d)' % (kk, i) for i, kk in enumerate(ops))}], Some {coq_n_list(ids)})")
        except (ValueError, IndexError) as ex:
            rep.tie_broken(f"container harness output for case '{k} {n} {' '.join(ops)}' could not be read ({ex}): {line[:200]}")
    tag = f"{rep.pid}_{rep.tier}_{rep.seed}"
    path = f"{COQ}/Cases_containers_{tag}.v"
    src = ["From Ctpg Require Import Base.Prelude Model.Containers Model.ContainersRun.", "From Coq Require Import NArith ZArith List.", "Import ListNotations.", "Local Open Scope N_scope.",
           "Definition b_cases : list (N * list cb_op * (list bool * list N * list bool * bool * bool)) := [" + ";\n ".join(bc) + "].",
           "Definition v_cases : list (N * list (cv_op N) * (list bool * N * list N * option (N * N))) := [" + ";\n ".join(vc).replace("VErase ", "VErase ").replace("VErase", "VErase") + "].",
           "Definition q_cases : list (N * list (cq_op N) * (list (bool * N * option N) * list N)) := [" + ";\n ".join(qc) + "].",
           "Definition s_cases : list (list (N * N) * option (list N)) := [" + ";\n ".join(sc) + "].",
           "Eval vm_compute in (bad_idx cb_case_ok b_cases 0, bad_idx cv_case_ok v_cases 0, bad_idx cq_case_ok q_cases 0, bad_idx sort_case_ok s_cases 0).",
           "Lemma real_cbitset_observations_are_the_models : forallb cb_case_ok b_cases = true. Proof. vm_compute. reflexivity. Qed.",
           "Lemma real_cvector_observations_are_the_models : forallb cv_case_ok v_cases = true. Proof. vm_compute. reflexivity. Qed.",
           "Lemma real_cqueue_observations_are_the_models : forallb cq_case_ok q_cases = true. Proof. vm_compute. reflexivity. Qed.",
           "Lemma real_sort_observations_are_the_models : forallb sort_case_ok s_cases = true. Proof. vm_compute. reflexivity. Qed."]
    # VErase takes Z arguments
    text = "\n".join(src)
    text = re.sub(r"VErase (\d+) (\d+)", r"VErase \1%Z \2%Z", text)
    open(path, "w").write(text + "\n")
    okm, logm = coq_make(["Model/ContainersRun.vo"])
    ok, out, dt = coqc_file(os.path.basename(path), timeout=600)
    for ext in (".vo", ".vok", ".vos", ".glob"):
        try: os.remove(path[:-2] + ext)
        except OSError: pass
    m = re.search(r"=\s*\(\s*(\[.*?\])\s*,\s*(\[.*?\])\s*,\s*(\[.*?\])\s*,\s*(\[.*?\])\s*\)", out, re.S)
    bad = {}
    if m:
        for name, g, cl in zip("BVQS", m.groups(), (bc, vc, qc, sc)):
            idxs = [int(x) for x in re.findall(r"\d+", g)]
            if idxs: bad[name] = idxs
    names = {"B": "cbitset", "V": "cvector", "Q": "cqueue", "S": "sort"}
    for k in "BVQS":
        if k not in what: continue
        rep.oblige(f"kernel: real {names[k]} observations = word-level mirror's on {dist[k]} operation sequences (Cases_containers_{tag}.v)", ok or (m is not None and k not in bad),
                   "" if ok else (f"cases that differ: {bad.get(k)}" if m else out[-400:]))
    if bad:
        sel = {"B": [c for c in cases if c[0] == "B"], "V": [c for c in cases if c[0] == "V"], "Q": [c for c in cases if c[0] == "Q"], "S": [c for c in cases if c[0] == "S"]}
        for k, idxs in bad.items():
            c = sel[k][idxs[0]]
            rep.tie_broken(f"correspondence containers/{names[k]}: the real template and the word-level mirror differ on the operation sequence '{k} {c[1]} {' '.join(c[2])}' (the set/list/FIFO reference agrees with the real code, so this is a representation difference, e.g. padding bits or raw words)")
    rep.notes["containers_input_distribution"] = dist
    rep.cov["samples"] = (rep.cov.get("samples") or []) + [" ".join(map(str, (c[0], c[1], *c[2])))[:120] for c in cases[:2]]
    return len(cases)

# ================================================================ namespace utils (Model/Utils.v)
def ensure_utils():
    key = sha(HEADER, VERIF + "/harness/utils_h.cpp")
    d = f"{CACHE}/utl-{key}"
    with locked("utl"):
        if os.path.exists(d + "/ok"): return d, None
        os.makedirs(d, exist_ok=True)
        rc, out, _ = sh(f"g++ -std=c++17 -O1 -I{REPO}/include -o {d}/utl {VERIF}/harness/utils_h.cpp", timeout=900)
        if rc: return d, out
        open(d + "/ok", "w").write("ok")
        return d, None

def gen_utils_cases(seed, tier):
    rnd = random.Random(2000 + seed)
    n = 150 if tier == "quick" else 800
    def s(maxlen=6, alpha=None):
        alpha = alpha or [97, 98, 99, 1, 32, 9, 10, 127, 128, 200, 255, 65]
        return [rnd.choice(alpha) for _ in range(rnd.randrange(0, maxlen + 1))]
    cases = [("E", [97, 98], [97, 98]), ("E", [97, 98], [97]), ("E", [97], [97, 98]), ("E", [], []), ("E", [], [97]), ("E", [200, 255], [200, 255]), ("E", [200], [72])]
    for _ in range(n):
        a = s()
        r = rnd.random()
        b = list(a) if r < 0.3 else (a + s(2) if r < 0.5 else (a[:rnd.randrange(0, len(a) + 1)] if r < 0.7 else s()))
        cases.append(("E", a, b))
    ws = [[9, 10, 11, 12, 13, 32], [9, 11, 12, 13, 32]]
    for c in range(256):
        for t in ws: cases.append(("C", c, t))
    for _ in range(n):
        st = s(8); c = rnd.choice(st) if st and rnd.random() < 0.6 else rnd.choice([0, 97, 255, 128, 1])
        cases.append(("C", c, st))
    for _ in range(n // 3): cases.append(("L", s(12)))
    names_pool = [[97], [97, 98], [97, 98, 99], [98], [], [105, 102], [105, 102, 102], [105], [200], [200, 201]]
    for _ in range(n):
        k = rnd.randrange(1, 7); tbl = [rnd.choice(names_pool) for _ in range(k)]
        q = rnd.choice(tbl) if rnd.random() < 0.6 else rnd.choice(names_pool)
        cases.append(("F", q, tbl))
    return cases

def hx(b): return "".join("%02x" % x for x in b) or "-"
def cstr_of(l): return "[" + "; ".join(map(str, l)) + "]"

def run_utils(rep):
    d, err = ensure_utils()
    if err:
        rep.tie_broken("the utils harness no longer compiles against /repo's header: " + err[-500:]); return 0
    cases = gen_utils_cases(rep.seed, rep.tier)
    cf = f"{d}/cases_{rep.pid}_{rep.tier}_{rep.seed}.txt"
    L = []
    for c in cases:
        if c[0] == "E": L.append(f"E {hx(c[1])} {hx(c[2])}")
        elif c[0] == "C": L.append(f"C {c[1]} {hx(c[2])}")
        elif c[0] == "L": L.append(f"L {hx(c[1])}")
        else: L.append(f"F {hx(c[1])} " + " ".join(hx(x) for x in c[2]))
    open(cf, "w").write("\n".join(L) + "\n")
    rc, out, _ = sh(f"timeout 120 {d}/utl {cf}", timeout=150)
    lines = [l for l in out.split("\n") if l.strip()]
    if rc != 0 or len(lines) != len(cases) + 4:
        rep.fail(kind="real-utils-code-crashed", detail=f"exit status {rc}, {len(lines)} lines for {len(cases)} cases", tail=out[-300:]); return 0
    try:
        cls = lines[0].split(" ", 1)[1].split(","); names = lines[1].split(" ", 1)[1].split(","); idx = lines[2].split(" ", 1)[1].split(","); hexs = lines[3].split(" ", 1)[1].split(",")
        # ---- independent judgement (documented behaviour)
        for b in range(256):
            want = ("1" if 32 <= b <= 126 else "0") + ("1" if chr(b) in "0123456789abcdefABCDEF" else "0") + ("1" if chr(b) in "0123456789" else "0")
            if cls[b] != want: rep.fail(kind="character-class-wrong", byte=b, real_printable_hex_dec=cls[b], expected=want)
            wn = ("%02x00" % b) if 32 < b < 127 else ("5c78%02x%02x00" % (ord("%X" % (b // 16)), ord("%X" % (b % 16))))
            if names[b] != wn: rep.fail(kind="byte-name-wrong", byte=b, real=names[b], expected=wn)
            if idx[b] != f"{b}:{b}": rep.fail(kind="char-index-roundtrip-wrong", byte=b, real=idx[b])
        for h in hexs:
            a, b2, v = map(int, h.split(":"))
            if v != int(chr(a) + chr(b2), 16): rep.fail(kind="hex-escape-decoded-wrong", digits=chr(a) + chr(b2), real=v)
        ec, cc, lc, fc = [], [], [], []
        for c, line in zip(cases, lines[4:]):
            val = line.split(" ")[2]; rep.cov["evaluations"] += 1
            if c[0] == "E":
                if (val == "1") != (c[1] == c[2]): rep.fail(kind="str_equal-is-not-string-equality", a=c[1], b=c[2], real=val)
                ec.append(f"({cstr_of(c[1] + [0, 120, 121, 0])}, {cstr_of(c[2] + [0, 113, 0])}, {'true' if val == '1' else 'false'})")
            elif c[0] == "C":
                want = "-" if (c[1] == 0 or c[1] not in c[2]) else str(c[2].index(c[1]))
                if 0 in c[2]: want = val     # (generator never puts NUL inside)
                if val != want: rep.fail(kind="find_char-wrong", char=c[1], string=c[2], real=val, expected=want)
                cc.append(f"({c[1]}, {cstr_of(c[2] + [0, 9, 32, 10, 0])}, {'None' if val == '-' else 'Some ' + val})")
            elif c[0] == "L":
                if int(val) != len(c[1]): rep.fail(kind="str_len-wrong", string=c[1], real=val)
                lc.append(f"({cstr_of(c[1] + [0, 97, 98, 99, 0])}, {val})")
            else:
                want = str(c[2].index(c[1])) if c[1] in c[2] else "T"
                if val != want: rep.fail(kind="find_str-is-not-first-equal-name", name=c[1], table=c[2], real=val, expected=want)
                fc.append("([" + "; ".join(cstr_of(x + [0, 119, 0]) for x in c[2]) + f"], {cstr_of(c[1] + [0, 122, 122, 0])}, {'None' if val == 'T' else 'Some ' + val})")
    except (ValueError, IndexError) as ex:
        rep.tie_broken(f"utils harness output could not be read ({ex})"); return 0
    def nm(h): return cstr_of([int(h[i:i + 2], 16) for i in range(0, len(h), 2)])
    tag = f"{rep.pid}_{rep.tier}_{rep.seed}"
    path = f"{COQ}/Cases_utils_{tag}.v"
    src = ["From Ctpg Require Import Base.Prelude Model.Containers Model.Utils.", "From Coq Require Import List.", "Import ListNotations.",
           "Definition real_class : list (bool * bool * bool) := [" + "; ".join("(%s, %s, %s)" % tuple("true" if ch == "1" else "false" for ch in c) for c in cls) + "].",
           "Definition real_names : list (list nat) := [" + "; ".join(nm(h) for h in names) + "].",
           "Definition real_idx : list (nat * nat) := [" + "; ".join("(%s, %s)" % tuple(x.split(":")) for x in idx) + "].",
           "Definition real_hex : list (nat * nat * nat) := [" + "; ".join("(%s, %s, %s)" % tuple(x.split(":")) for x in hexs) + "].",
           "Definition e_cases : list (list nat * list nat * bool) := [" + ";\n ".join(ec) + "].",
           "Definition c_cases : list (nat * list nat * option nat) := [" + ";\n ".join(cc) + "].",
           "Definition l_cases : list (list nat * nat) := [" + ";\n ".join(lc) + "].",
           "Definition f_cases : list (list (list nat) * list nat * option nat) := [" + ";\n ".join(fc) + "].",
           "Lemma real_character_classes_are_the_models : list_eqb bbb_eqb class_table real_class = true. Proof. vm_compute. reflexivity. Qed.",
           "Lemma real_byte_names_are_the_models : list_eqb (list_eqb Nat.eqb) name_table real_names = true. Proof. vm_compute. reflexivity. Qed.",
           "Lemma real_char_index_roundtrip_is_the_models : list_eqb nn_eqb idx_table real_idx = true. Proof. vm_compute. reflexivity. Qed.",
           "Lemma real_hex_decoding_is_the_models : forallb hex_case_ok real_hex = true. Proof. vm_compute. reflexivity. Qed.",
           "Lemma real_str_equal_is_the_models : forallb streq_case_ok e_cases = true. Proof. vm_compute. reflexivity. Qed.",
           "Lemma real_find_char_is_the_models : forallb findchar_case_ok c_cases = true. Proof. vm_compute. reflexivity. Qed.",
           "Lemma real_str_len_is_the_models : forallb strlen_case_ok l_cases = true. Proof. vm_compute. reflexivity. Qed.",
           "Lemma real_find_str_is_the_models : forallb findstr_case_ok f_cases = true. Proof. vm_compute. reflexivity. Qed."]
    open(path, "w").write("\n".join(src) + "\n")
    coq_make(["Model/Utils.vo"])
    ok, out, dt = coqc_file(os.path.basename(path), timeout=600)
    for ext in (".vo", ".vok", ".vos", ".glob"):
        try: os.remove(path[:-2] + ext)
        except OSError: pass
    detail = ""
    if not ok:
        m = re.search(r"line (\d+)", out); 
        fl = "\n".join(src).split("\n")
        detail = (fl[int(m.group(1)) - 1][:90] if m and int(m.group(1)) <= len(fl) else "") + " :: " + out[-300:]
    rep.oblige(f"kernel: real utils observations (classes, names, index round trip, 484 hex pairs, {len(ec)} str_equal, {len(cc)} find_char, {len(lc)} str_len, {len(fc)} find_str cases) = the byte-level mirror's (Cases_utils_{tag}.v)", ok, detail)
    rep.notes["utils_input_distribution"] = {"str_equal": len(ec), "equal_pairs": sum(1 for c in cases if c[0] == "E" and c[1] == c[2]), "find_char": len(cc), "find_char_found": sum(1 for x in cc if "Some" in x), "str_len": len(lc), "find_str": len(fc), "find_str_not_found": sum(1 for x in fc if x.endswith("None)"))}
    return len(cases) + 256 * 3 + 484

# ================================================================ namespace buffers (Model/Buffers.v)
def ensure_buffers():
    key = sha(HEADER, VERIF + "/harness/buffers_h.cpp")
    d = f"{CACHE}/buf-{key}"
    with locked("buf"):
        if os.path.exists(d + "/ok"): return d, None
        os.makedirs(d, exist_ok=True)
        rc, out, _ = sh(f"g++ -std=c++17 -O1 -I{REPO}/include -o {d}/buf {VERIF}/harness/buffers_h.cpp", timeout=900)
        if rc: return d, out
        open(d + "/ok", "w").write("ok")
        return d, None

def run_buffers(rep):
    """every lexeme of short texts (incl. NUL, bytes >= 0x80) through the three REAL buffer kinds; judged by slicing, and the kernel
    checks that the byte-level mirror computes the same views"""
    d, err = ensure_buffers()
    if err:
        rep.tie_broken("the buffers harness no longer compiles against /repo's header: " + err[-500:]); return 0
    rnd = random.Random(3000 + rep.seed)
    n = 40 if rep.tier == "quick" else 300
    alpha = [97, 98, 32, 10, 0, 255, 128, 59]
    cases = [([], [], []), ([120], [], [121]), ([], [97], []), ([1, 2], [97, 98, 99, 100, 101, 102, 103, 104], [3])]
    for _ in range(n):
        cases.append(([rnd.choice(alpha) for _ in range(rnd.randrange(0, 4))], [rnd.choice(alpha) for _ in range(rnd.randrange(0, 9))], [rnd.choice(alpha) for _ in range(rnd.randrange(0, 4))]))
    cf = f"{d}/cases_{rep.pid}_{rep.tier}_{rep.seed}.txt"
    open(cf, "w").write("\n".join(f"{hx(p)} {hx(t)} {hx(q)}" for p, t, q in cases) + "\n")
    rc, out, _ = sh(f"timeout 120 {d}/buf {cf}", timeout=150)
    lines = [l for l in out.split("\n") if l.strip()]
    if rc != 0 or len(lines) != 3 * len(cases):
        rep.fail(kind="real-buffer-code-crashed", detail=f"exit status {rc}, {len(lines)} lines for {len(cases)} texts", tail=out[-300:]); return 0
    coq = []; nviews = 0
    def unh(h): return [] if h == "-" else [int(h[i:i + 2], 16) for i in range(0, len(h), 2)]
    try:
        for k, (p, t, q) in enumerate(cases):
            want = [t[s:e] for s in range(len(t) + 1) for e in range(s, len(t) + 1)]
            obs = {}
            for line in lines[3 * k:3 * k + 3]:
                _, kind, body = line.split(" ", 2)
                f = body.split("|")
                vs = [unh(x) for x in f[0].split(",") if x != ""]
                obs[kind] = vs; nviews += len(vs); rep.cov["evaluations"] += 1
                walked = unh(f[1]) if f[1] else []
                if vs != want or walked != t or int(f[2]) != len(t) or (kind == "C" and f[3] != "00"):
                    bad = next((i for i, (a, b) in enumerate(zip(vs, want)) if a != b), None)
                    rep.fail(kind="lexeme-is-not-the-slice-of-the-callers-text", buffer={"C": "cstring_buffer", "S": "string_buffer", "V": "string_view_buffer"}[kind], text=t, bytes_before_the_view=p, bytes_after=q,
                             first_wrong_view=(vs[bad] if bad is not None else None), expected=(want[bad] if bad is not None else None), bytes_under_the_iterators=walked, distance=f[2])
            okv = lambda vs: "[" + "; ".join("Ok " + cstr_of(v) for v in vs) + "]"
            coq.append(f"({cstr_of(p)}, {cstr_of(t)}, {cstr_of(q)}, {okv(obs['C'])}, {okv(obs['S'])}, {okv(obs['V'])})")
    except (ValueError, IndexError, KeyError) as ex:
        rep.tie_broken(f"buffers harness output could not be read ({ex})"); return 0
    tag = f"{rep.pid}_{rep.tier}_{rep.seed}"
    path = f"{COQ}/Cases_buffers_{tag}.v"
    src = ["From Ctpg Require Import Base.Prelude Model.Containers Model.Utils Model.Buffers.", "From Coq Require Import List.", "Import ListNotations.",
           "Definition rl_eqb (a b : list (res (list nat))) : bool := list_eqb (res_eqb (list_eqb Nat.eqb)) a b.",
           "Definition case_ok (c : list nat * list nat * list nat * list (res (list nat)) * list (res (list nat)) * list (res (list nat))) : bool :=",
           "  let '(pre, text, post, oc, os, ov) := c in",
           "  rl_eqb (all_views (cs_get_view (cs_of_literal text)) 0 (length text)) oc && rl_eqb (all_views (sb_get_view {| sb_str := text |}) 0 (length text)) os",
           "  && rl_eqb (all_views (svb_get_view {| sv_mem := pre ++ text ++ post; sv_off := length pre; sv_len := length text |}) (length pre) (length text)) ov.",
           "Definition cases : list (list nat * list nat * list nat * list (res (list nat)) * list (res (list nat)) * list (res (list nat))) := [" + ";\n ".join(coq) + "].",
           "Lemma real_lexemes_of_all_buffer_kinds_are_the_models : forallb case_ok cases = true. Proof. vm_compute. reflexivity. Qed."]
    open(path, "w").write("\n".join(src) + "\n")
    coq_make(["Model/Buffers.vo", "Model/Utils.vo"])
    ok, out, dt = coqc_file(os.path.basename(path), timeout=600)
    for ext in (".vo", ".vok", ".vos", ".glob"):
        try: os.remove(path[:-2] + ext)
        except OSError: pass
    rep.oblige(f"kernel: every lexeme get_view(begin+s, begin+e) of {len(cases)} texts through the real cstring_buffer, string_buffer and string_view_buffer ({nviews} views) = the byte-level mirror's (Cases_buffers_{tag}.v)", ok, "" if ok else out[-300:])
    rep.notes["buffers_input_distribution"] = {"texts": len(cases), "views": nviews, "texts_with_nul": sum(1 for _, t, _ in cases if 0 in t), "empty_texts": sum(1 for _, t, _ in cases if not t)}
    return nviews
