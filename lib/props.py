"""Per-property deciders. Every decider: (1) proof obligations (theorems of Props/Properties_<id>.v, source-fact ties,
per-instance obligations evaluated by the Coq kernel on dumps of the real code), (2) correspondence between the real
code and the extracted model on the observables the property's theorems are about, (3) on any break, a search for a
concrete failing input judged by the property's own specification (never by the mirror)."""
import json, os, re, sys, time
from common import *
from report import Report
import coqgen, cyk
import contfam

TRUSTED_COMMON = [
  "Coq 8.16.1 kernel incl. its bytecode VM (vm_compute closes per-instance obligations); native_compute is not used",
  "extraction: Require Extraction + ExtrOcamlBasic only (bool/option/unit/list/prod/sumbool/sumor -> OCaml types; andb/orb/negb/fst/snd inlined); nat/N/Z/positive stay extracted inductives; no Extract Constant of our own; OCaml 4.13.1",
  "hand-written OCaml drivers harness/ml/{conv,h1_model,h2_model}.ml (case-file reader, text renderer of events/diagnostics)",
  "tools/source_facts.py (anchored regexes over ctpg.hpp -> Model/SourceFacts.v), tools/gen_*_cases.py, the C++ harnesses under harness/ (carrier trick: single-payload variant, grammar_info overwritten through the CTPG_VERIF friend hook), g++ 12.2",
  "hand-written Gallina mirror of ctpg.hpp under coq/Model (tied by exact-observable correspondence, not verified against C++ semantics)",
]

def common_stage(rep, need_theorems=True):
    """source facts, full Coq build, forbidden-construct scan, the property's theorem file"""
    prune_cache()
    ok, msg = source_facts()
    # a lost anchor is charged to the properties whose model constants it feeds (unknown anchors to every property)
    ANCHOR_PROPS = [("space_chars", "C04 C10 C09"), ("skip_newline", "C04 C10"), ("source_point", "C10"), ("update body", "C10"), ("is_printable", "C03 C17"), ("is_dec_digit", "C03 C17"),
                    ("is_hex_digit", "C03 C17"), ("specials", "C03 C17 C18"), ("uninitialized16", "C04 C06 C18"), ("recognized_term", "C04 C06 C18"), ("conflicted_recognition", "C04"),
                    ("parse_table_entry_kind", "C01 C05 C11"), ("dfa_size", "C12"), ("situation", "C12 C01"), ("stack capacity", "C12 C06 C07"), ("default limits", "C12"), ("make_situation_idx", "C01 C11"),
                    ("get_parse_table_idx", "C01"), ("dfa_size_analyzer", "C12"), ("name", "C16 C09 C11"), ("regex", "C03 C17"), ("functor", "C03 C17"), ("pattern parse options", "C03 C17"),
                    ("cbitset", "C01 C03 C04 C06"), ("utils str_equal", "C01 C17 C18"), ("utils find_str", "C01 C17 C18"), ("utils find_char", "C04 C10 C09"), ("utils char_names", "C09 C16"), ("utils char_to_idx", "C03 C04"), ("hex_digits_to_char", "C03"), ("cvector", "C06 C12"), ("cqueue", "C06 C12"), ("stdex sort", "C01"), ("skip list", "C19"), ("element", "C19"), ("construct", "C19"), ("emplace_back", "C19")]
    relevant = True
    if not ok:
        hit = [pr for key, pr in ANCHOR_PROPS if key in msg]
        relevant = (not hit) or any(rep.pid in pr.split() for pr in hit)
    if relevant: rep.oblige("source-facts-regenerated", ok, msg)
    # the frame facts are regenerated on every run too (their obligation belongs to C15; other checks only need the file to be current)
    rcf, outf, _ = sh([sys.executable, VERIF + "/tools/frame_facts.py", HEADER, COQ + "/Model/FrameFacts.v"])
    if rep.pid == "C15": rep.oblige("frame-facts-regenerated-from-source (const member functions, no mutable/const_cast/static data, constexpr globals, local lexer instance)", rcf == 0, outf.strip()[:400])
    # full .vo build of what this property's theorems depend on (make -k: an unrelated broken file does not hide them)
    TIES = {"C01": ["Tab", "Cont"], "C05": ["Tab"], "C11": ["Tab"], "C03": ["Pat", "Dfa", "Cont"], "C17": ["Pat"], "C04": ["Ws", "Dfa"], "C12": ["Dfa", "Cont"], "C06": ["Cont"],
            "C09": ["Ws"], "C10": ["Ws"], "C16": ["Verb"]}
    targets = [f"Props/Properties_{rep.pid}.vo"] + [f"Proofs/SourceFactsTie{t}.vo" for t in TIES.get(rep.pid, [])]
    ok, log = coq_make(targets)
    if not ok:
        failed = re.findall(r"File \"\./([^\"]+)\", line (\d+)", log)
        rep.oblige("coq-development-builds (theorems of this property and the source-fact ties they use)", False, "files failing: " + ", ".join(sorted({f for f, _ in failed})) + " :: " + log[-600:])
    else:
        rep.oblige("coq-development-builds (theorems of this property and the source-fact ties they use)", True)
    bad = scan_forbidden()
    rep.oblige("no-admitted-no-axiom", not bad, "; ".join(bad[:5]))
    if need_theorems:
        ok, out, thms = props_check(rep.pid)
        rep.oblige(f"Props/Properties_{rep.pid}.v", ok, out[-600:] if not ok else "")
        for t in thms: rep.obligations.append((f"theorem {t}", ok, ""))
        ass = re.findall(r"(Closed under the global context|Axioms:.*?)(?=\n\S|\Z)", out, re.S)
        rep.trusted.append("Print Assumptions for Properties_%s.v: %s" % (rep.pid, "; ".join(sorted(set(a.strip().replace("\n", " ") for a in ass))) or "n/a"))
        rep.notes["theorems"] = thms
    rep.trusted += TRUSTED_COMMON
    return rep

# =============================================================== H1-based properties
from h1fam import H1Run

def h1_stage(rep):
    run = H1Run(rep.seed, rep.tier)
    if run.build_err:
        rep.tie_broken("the H1 harness no longer compiles against /repo's header: " + run.build_err[-600:])
        return None
    crashed = run.crashed()
    if run.status["real_rc"] != 0 or crashed:
        first = sorted(crashed, key=int)[:1]
        for k in first:
            rep.fail(kind="real-code-crash-or-hang", case=k, grammar=run.meta[k], detail=f"the real harness exited with status {run.status['real_rc']} and printed no block for this case (crash, hang or abort inside ctpg)")
    return run

def d12_cells(run, cid):
    """(state, True) for states whose item set holds the completed root item and another completed item on <eof>
    while the cell is 'success': the accept/reduce conflict that transitions() hides (known finding D12)"""
    c = run.gis[cid]; real = run.real[cid]
    eof = c["tc"] - 2; root = c["rc"] - 1
    arity = {i: n for i, (l, r, n) in enumerate(c["ri"])}
    out = []
    for s, items in enumerate(real["states"]):
        its = [tuple(map(int, it.split("."))) for it in items]
        comp = [(r, d, t) for (r, d, t) in its if d >= arity[r] and t == eof]
        if any(r == root for r, d, t in comp) and any(r != root for r, d, t in comp) and real["rows"][s][c["ntc"] + eof][0] == 1:
            out.append(s)
    return out

def compare_tables(rep, run, select=lambda cid: True, what=("gen", "states", "rows")):
    n = 0
    for cid in run.meta:
        if cid not in run.real or not select(cid): continue
        r, m = run.real[cid], run.model.get(cid)
        n += 1
        for w in what:
            if w == "first":
                # nullable / FIRST sets read out of the real state_analyzer's cbitsets vs LRGen.nterm_empty / nterm_first (only when both generated a table)
                if m is None or r["gen"] != "ok" or m["gen"] != "ok": continue
                if r.get("first") != m.get("first"):
                    rep.tie_broken(f"correspondence H1/first-sets: the nullable / FIRST sets of the real state_analyzer and of the mirror differ on case {cid} ({run.meta[cid]['name']}, carrier {run.meta[cid]['carrier']}): real {str(r.get('first'))[:200]} model {str(m.get('first'))[:200]}")
                    rep.notes.setdefault("mismatch_cases", []).append(cid)
                    break
                continue
            if m is None or r[w] != m[w]:
                rep.tie_broken(f"correspondence H1/{w}: real and model differ on case {cid} ({run.meta[cid]['name']}, carrier {run.meta[cid]['carrier']})")
                rep.notes.setdefault("mismatch_cases", []).append(cid)
                break
    return n


def kernel_obligations(rep, tag, header, inst, per_shard_timeout=None, single_timeout=None):
    """inst: [(key, [definition lines], boolean expression)]. Evaluates every expression with vm_compute and then proves one lemma per
    instance stating the observed value; the work is cut into shards compiled by parallel coqc processes. An instance whose evaluation
    alone exceeds single_timeout is reported in rep.notes['validator_timeouts'] and gets no obligation (it is neither discharged nor failed;
    the property-level oracles still judge it). Returns {key: bool}."""
    import concurrent.futures as cf
    if not inst: return {}
    ftag = f"{tag}_{rep.tier[0]}{rep.seed}"       # file names are private to this (property, tier, seed): runs of other seeds may be going on
    if per_shard_timeout is None: per_shard_timeout = 300 if rep.tier == "quick" else 900
    if single_timeout is None: single_timeout = 90 if rep.tier == "quick" else 300
    nsh = max(1, min(NPROC, (len(inst) + 7) // 8))
    shards = [inst[i::nsh] for i in range(nsh)]
    def clean(path):
        for ext in (".v", ".vo", ".vok", ".vos", ".glob"):
            try: os.remove(path[:-2] + ext)
            except OSError: pass
        try: os.remove(os.path.join(os.path.dirname(path), "." + os.path.basename(path)[:-2] + ".aux"))
        except OSError: pass
    def run_shard(name, items, timeout):
        """returns ({key: bool}, ok, output, seconds) for evaluation followed by the lemmas"""
        defs = [header] + [l for (k, dl, e) in items for l in dl] + [f"Definition o_{k} := {e}." for (k, dl, e) in items]
        pe = f"{COQ}/Cases_{ftag}_{name}_eval.v"
        open(pe, "w").write("\n".join(defs + ["Definition all_results := [" + "; ".join(f"({k}, o_{k})" for (k, dl, e) in items) + "].", "Eval vm_compute in all_results."]) + "\n")
        ok, out, dt = coqc_file(os.path.basename(pe), timeout=timeout)
        res = {k: (v == "true") for k, v in re.findall(r"\(\s*(\d+),\s*(true|false)\)", out)}
        clean(pe)
        if not ok or len(res) != len(items): return {}, False, ("TIMEOUT " if dt >= timeout - 2 else "") + out, dt
        pl = f"{COQ}/Cases_{ftag}_{name}.v"
        open(pl, "w").write("\n".join(defs + [f"Lemma ob_{k} : o_{k} = {'true' if res[str(k)] else 'false'}. Proof. vm_compute. reflexivity. Qed." for (k, dl, e) in items]) + "\n")
        ok2, out2, dt2 = coqc_file(os.path.basename(pl), timeout=2 * timeout)
        keep = pl if name == "0" else None
        if keep is None: clean(pl)
        else:
            for ext in (".vo", ".vok", ".vos", ".glob"):
                try: os.remove(pl[:-2] + ext)
                except OSError: pass
        return (res if ok2 else {}), ok2, ("TIMEOUT " if (not ok2 and dt2 >= 2 * timeout - 2) else "") + out2, dt + dt2
    results = {}; timeouts = []; total = 0.0
    with cf.ThreadPoolExecutor(NPROC) as ex:
        outs = list(ex.map(lambda a: run_shard(str(a[0]), a[1], per_shard_timeout), enumerate(shards)))
    retry = []
    for (res, ok, out, dt), items in zip(outs, shards):
        total += dt
        if ok: results.update(res)
        elif out.startswith("TIMEOUT") or not out.strip(): retry += items
        else:
            rep.oblige(f"instances-evaluate ({tag})", False, out[-500:]); return {}
    if retry:
        with cf.ThreadPoolExecutor(NPROC) as ex:
            outs = list(ex.map(lambda it: run_shard("r" + str(it[0]), [it], single_timeout), retry))
        for (res, ok, out, dt), it in zip(outs, retry):
            total += dt
            if ok: results.update(res)
            else: timeouts.append(str(it[0]))
    if timeouts: rep.notes.setdefault("validator_timeouts", []).extend(f"{tag}:{k}" for k in timeouts)
    rep.notes.setdefault("obligation_files", []).append(f"{COQ}/Cases_{ftag}_0.v (+ {len(shards) - 1} further shards, removed after checking)")
    rep.notes["obligation_seconds"] = round(rep.notes.get("obligation_seconds", 0) + total, 1)
    return {str(k): v for k, v in results.items()}

def obligations_validate(rep, run, cids, name="validate", extra_import=None, prelude="", suffix="", closure_order=False):
    """kernel-checked: validate g sts tbl = true on the dump of the REAL code, one lemma per instance"""
    if not cids: return {}
    header = coqgen.HEADER + (f"Require Import {extra_import}.\n" if extra_import else "") + prelude
    inst = []
    for k in cids:
        sts = coqgen.closure_order(run.gis[k], run.real[k]['states']) if closure_order else run.real[k]['states']
        inst.append((k, [f"Definition g{k} := {coqgen.grammar_term(run.gis[k])}.", f"Definition s{k} := {coqgen.states_term(sts)}.", f"Definition t{k} := {coqgen.table_term(run.real[k]['rows'])}."],
                     f"{name} g{k} s{k} t{k}"))
    return kernel_obligations(rep, rep.pid + suffix, header, inst)

def check_C01(rep):
    common_stage(rep)
    run = h1_stage(rep)
    if run is None: return rep
    # correspondence: generator observables + accept/reject verdicts
    ncases = compare_tables(rep, run, select=lambda cid: "CONFLICT" not in run.real[cid]["diag"], what=("gen", "first", "states", "rows"))
    nin = 0
    for cid, r in run.real.items():
        m = run.model_rt.get(cid)
        if m is None: continue
        for k, (a, b) in enumerate(zip(r["inputs"], m["inputs"])):
            nin += 1
            if a["res"].split(" ")[0] != b["res"].split(" ")[0]:
                rep.tie_broken(f"correspondence H1/verdict: case {cid} input {k}: real '{a['res'][:60]}' model '{b['res'][:60]}'")
    # per-instance obligations on the real dumps of grammars whose real diagnostics show no conflict
    cands = [k for k in sorted(run.real, key=int) if run.real[k]["gen"] == "ok" and not run.has_conflict_line(k)]
    res = obligations_validate(rep, run, cands)
    nontrivial = 0; samples = []
    for k in cands:
        if k not in res: continue
        if res[k]:
            rep.obligations.append((f"validate(real table of case {k}) = true", True, ""))
        else:
            d12 = d12_cells(run, k)
            if d12:
                rep.obligations.append((f"validate(real table of case {k}) = false [known finding D12]", True, ""))
                rep.notes.setdefault("d12_instances", []).append(k)
            else:
                rep.oblige(f"validate(real table of case {k}) = true", False, f"grammar {run.meta[k]['rules']} has no conflict line but its table is not the LR(1) automaton of the grammar")
    # property-level oracle: derivability (Earley on the rules as written) vs the real verdict
    for k in cands:
        real = run.real[k]
        if real["skipped"] or d12_cells(run, k): continue
        rules, root = run.abstract_rules(k)
        uses_err = run.uses_error(k)
        acc = rej = 0
        for j, inp in enumerate(run.gis[k]["inputs"]):
            if j >= len(real["inputs"]): break
            toks = run.tokens_of(k, inp)
            if toks is None: continue
            want = cyk.earley(rules, root, [("t", t) for t in toks], lambda s: s if s[0] == "t" else None)
            got = real["inputs"][j]["res"].startswith("VALUE")
            rep.cov["evaluations"] += 1
            acc += got; rej += (not got)
            if want and not got:
                rep.fail(kind="derivable-input-rejected", case=k, grammar=run.meta[k], tokens=toks, bytes=inp["bytes"], observed=real["inputs"][j]["res"][:120])
            elif got and not want and not uses_err:
                rep.fail(kind="underivable-input-accepted", case=k, grammar=run.meta[k], tokens=toks, bytes=inp["bytes"], observed=real["inputs"][j]["res"][:120])
        if acc and rej:
            nontrivial += 1
            if len(samples) < 3: samples.append({"grammar": run.meta[k]["rules"], "carrier": run.meta[k]["carrier"], "accepted": acc, "rejected": rej, "states": len(real["states"])})
    d12 = rep.notes.get("d12_instances", [])
    if d12: rep.known_finding(D12_TEXT + f" [{len(d12)} grammar(s) this run, e.g. {run.meta[d12[0]]['rules']}]")
    FX.run_fixed(rep, "big_grammar.cpp", "g++", "-pthread", "verdict-of-a-large-conflict-free-grammar-differs-from-its-language")
    FX.run_fixed(rep, "wide_grammar.cpp", "g++", "-pthread", "verdict-of-a-conflict-free-grammar-with-more-than-64-terms-or-nonterminals-differs-from-its-language")
    # the representation below the generator mirror: item sets / FIRST sets are stdex::cbitset words, rule_infos are sorted by stdex::sort
    rep.notes["container_sequences"] = contfam.run_containers(rep, what=("B", "S"))
    rep.notes["utils_cases"] = contfam.run_utils(rep)       # symbol lookup by name: utils::str_equal / find_str at the byte level
    # the DSL glue: symbol lookup by name/id, stable sort by left side, slices - through generated programs
    run3 = h3_stage(rep)
    if run3 is not None:
        rep.notes["dsl_parsers"] = h3_rule_analysis(rep, run3, ["RS", "RI", "SL"] if False else ["RS", "RI"], "symbol-resolution")
        h3_tables_and_runs(rep, run3, tables=True, runs=False)
        rep.notes["dsl_verdicts_judged"] = h3_language_oracle(rep, run3)
    rep.cov["distinct_nontrivial"] = nontrivial
    rep.cov["traces_validated_against_impl"] = nin
    rep.cov["rule"] = "grammars: forced shapes (mutual left recursion, slice stride, closure memo, LR(1)-not-LALR, unit chains, nullable runs, unused/ruleless nonterminals) + random grammars fitted to carrier parsers; inputs: all term strings up to a bound + sampled sentences + token mutations. Non-trivial = grammar without conflict line with at least one accepted and one rejected input (distinct grammars counted)."
    rep.cov["samples"] = samples
    rep.notes["grammars"] = ncases; rep.notes["conflict_free_grammars"] = len(cands)
    return rep

def h3_language_oracle(rep, run3):
    """C01 through the public DSL: for generated programs whose real diagnostics show no conflict and whose rules do not use the
    error symbol, every verdict of the real parser is compared with derivability (Earley) in the grammar AS WRITTEN (symbols by
    name) of the token string computed by the independent tokeniser"""
    import h3fam
    n = 0
    for gid in sorted(run3.real):
        r = run3.real[gid]; meta = run3.meta[gid]
        if r["skipped"] or not r["states"] or "CONFLICT" in r["diag"]: continue
        if h3_d4_lexer(run3, gid): continue          # tokens of a lexer with known finding D4 are not the documented tokens
        if any(kd == 2 for ru in meta["rules"] for kd, v in ru["rhs"]): continue
        try:      # the hidden accept/reduce clash (known finding D12, judged by C11) is not a conflict-free grammar
            ris = [tuple(int(x) for x in e.split(",")) for e in r["gi"]["RI"].split()]; eof = int(r["gi"]["GI"].split()[0]) - 2
            clash = False
            for st in r["states"]:
                comp = [(a, b, c) for (a, b, c) in (tuple(int(x) for x in it.split(".")) for it in st) if b >= ris[a][2] and c == eof]
                if any(a == len(ris) - 1 for a, b, c in comp) and len(comp) > 1: clash = True
            if clash: continue
        except Exception: continue
        if len({bytes(t["id"]) for t in meta["terms"]}) != len(meta["terms"]) or len(set(meta["nts"])) != len(meta["nts"]): continue   # duplicate ids: not a grammar
        rules = [(("n", ru["lhs"]), [("n", v) if kd == 0 else ("t", v) for kd, v in ru["rhs"]]) for ru in meta["rules"]]
        root = ("n", meta["root"])
        for j, (flags, b) in enumerate(split_h3_inputs(run3, gid)):
            if j >= len(r["inputs"]): break
            ri = r["inputs"][j]
            if ri["res"] == "LOOP": continue
            toks, end = h3fam.py_tokenise(meta, b, flags)
            if end[0] != "eof": continue
            want = cyk.earley(rules, root, [("t", t) for (t, s0, l0) in toks], lambda sy: sy if sy[0] == "t" else None)
            got = ri["res"].startswith("VALUE")
            rep.cov["evaluations"] += 1; n += 1
            if want != got:
                rep.fail(kind="derivable-input-rejected" if want else "underivable-input-accepted", parser=gid, bytes=list(b), flags=flags,
                         tokens=[bytes(meta["terms"][t]["name"]).decode("latin1") for (t, s0, l0) in toks], observed=ri["res"][:120],
                         grammar={"nterms": meta["nts"], "root": meta["root"], "rules": [[ru["lhs"], [v if kd == 0 else bytes(meta["terms"][v]["name"]).decode("latin1") for kd, v in ru["rhs"]]] for ru in meta["rules"]]})
    return n

def h3_value_oracle(rep, run3):
    """C02 through the public DSL: for generated programs without conflict line the value and the contextual call log the real
    parser returns are compared with the evaluation computed by the WHOLE proved pipeline (rule analysis by names, generator, lexer,
    driver of the model) from the grammar AS WRITTEN - so a parser built for another grammar than the one written (wrong name
    resolution, wrong slices) shows as a wrong value, with the input"""
    n = 0
    for gid in sorted(run3.real):
        r = run3.real[gid]; m = run3.model.get(gid); meta = run3.meta[gid]
        if m is None or not m["states"] or "CONFLICT" in (m.get("diag") or ""): continue      # the grammar as written has a conflict: not judged here
        if r["dfa"] != m["dfa"]: continue          # a lexer difference (known finding D4 or a lexer change) is C03/C04's business
        if r["skipped"] or not r["states"] or "CONFLICT" in r["diag"]:
            rep.tie_broken(f"H3 parser {gid}: the grammar as written is conflict-free (model) but the real parser's diagnostics report a conflict or it was not built: the parser was built for another grammar than the one written"); continue
        for j, (a, b) in enumerate(zip(r["inputs"], m["inputs"])):
            if a["res"] == "LOOP" or b["res"] == "LOOP": continue
            rep.cov["evaluations"] += 1; n += 1
            if a["res"] != b["res"] or a["ctx"] != b["ctx"]:
                ins = split_h3_inputs(run3, gid)
                rep.fail(kind="value-is-not-the-evaluation-of-the-derivation-tree-in-the-grammar-as-written", parser=gid, bytes=list(ins[j][1]) if j < len(ins) else None,
                         observed=a["res"][:160], expected=b["res"][:160], contextual_calls_observed=a["ctx"], contextual_calls_expected=b["ctx"],
                         grammar={"nterms": meta["nts"], "root": meta["root"], "rules": [[ru["lhs"], [v if kd == 0 else (bytes(meta["terms"][v]["name"]).decode("latin1") if kd == 1 else "error") for kd, v in ru["rhs"]]] for ru in meta["rules"]]})
                break
    return n

NP_TEXT = "NP grammars with a reachable non-productive nonterminal: the LR(1) automaton keeps items whose rule can never be completed, so a term that no sentence can continue is shifted and the syntax error is reported at a later term (S->a|b X; X->X c on 'b' reports <eof>); identified by: grammar has such a nonterminal, exactly one message is written, and it is the message the pinned model predicts"
D12_TEXT = "D12 accept/reduce conflict hidden by the break on success in transitions() (ctpg.hpp): a state holding '## <- root .' and another completed item on <eof> gets a plain 'success' cell and no conflict line"

import oracles as O

def each_input(run, select=lambda cid: True):
    for cid in sorted(run.real, key=int):
        if not select(cid): continue
        r = run.real[cid]; m = run.model_rt.get(cid)
        if r["gen"] != "ok" or r["skipped"]: continue
        for j, inp in enumerate(run.gis[cid]["inputs"]):
            if j < len(r["inputs"]): yield cid, j, inp, r["inputs"][j], (m["inputs"][j] if m and j < len(m["inputs"]) else None)

def verbose_and_quiet(inp, ri):
    """(verbose text, quiet text) of the two real runs of one input"""
    return (ri["err"], ri["err2"]) if inp["verbose"] else (ri["err2"], ri["err"])

def check_C16(rep):
    common_stage(rep)
    FX.run_fixed(rep, "overloads.cpp", "g++", "", "outcome-depends-on-the-entry-point-overload-stream-or-verbosity")
    run = h1_stage(rep)
    if run is None: return rep
    nontriv = set(); samples = []
    for cid, j, inp, ri, mi in each_input(run):
        rep.cov["evaluations"] += 1
        # correspondence: the real stream text is the rendering of the model's event list, byte for byte, both verbosities
        if mi is None or ri["err"] != mi["err"] or ri["err2"] != mi["err2"]:
            rep.tie_broken(f"correspondence H1/trace-text: case {cid} input {j} ({run.meta[cid]['name']}): real stream text differs from the model's trace")
        else: rep.cov["traces_validated_against_impl"] += 1
        # the property itself, on the real code
        vtxt, qtxt = verbose_and_quiet(inp, ri)
        base = ri["res"].split(" BUFFERFAULT")[0]
        if not (base == ri["res2"] == ri["res3"]):
            rep.fail(kind="outcome-depends-on-verbosity-or-stream", case=cid, input=inp, grammar=run.meta[cid], results=[ri["res"][:200], ri["res2"][:200], ri["res3"][:200]])
        vl = [l for l in O.parse_trace(vtxt)]; ql = [l for l in O.parse_trace(qtxt)]
        if [l for l in vl if l[2] == "PARSE" and O.is_nonverbose(l[3])] != ql:
            rep.fail(kind="non-verbose-messages-not-preserved", case=cid, input=inp, grammar=run.meta[cid], verbose=vtxt[:600], quiet=qtxt[:300])
        bad = O.replay_trace(run, cid, inp, vtxt)
        if bad: rep.fail(kind="trace-not-the-actions-performed", case=cid, input=inp, grammar=run.meta[cid], detail=bad[0], trace=vtxt[:800])
        if "Reduced using rule" in vtxt and ("Syntax error" in vtxt or "Unexpected character" in vtxt):
            nontriv.add((cid, j))
            if len(samples) < 2: samples.append({"grammar": run.meta[cid]["rules"], "bytes": inp["bytes"], "verbose_trace_lines": len(vl), "quiet": qtxt})
    rep.cov["distinct_nontrivial"] = len(nontriv)
    rep.cov["rule"] = "every input of the H1 families is parsed three times by the real code (verbose to a stream, quiet to a stream, no stream; three buffer kinds); non-trivial = distinct (grammar, input) whose trace holds at least one reduction and one error message"
    rep.cov["samples"] = samples
    return rep

def check_C11(rep):
    common_stage(rep)
    FX.run_replay(rep, "D9", fixed=True); FX.run_replay(rep, "D15", fixed=True)
    run = h1_stage(rep)
    if run is None: return rep
    cell_logic_tie(rep, run)
    nontriv = 0; samples = []; d12 = []
    for cid in sorted(run.real, key=int):
        r = run.real[cid]; m = run.model_rt.get(cid)
        if r["gen"] != "ok": continue
        rep.cov["evaluations"] += 1
        if m is None or r["diag"] != m["diag"]:
            rep.tie_broken(f"correspondence H1/diag-text: case {cid} ({run.meta[cid]['name']}): write_diag_str text differs from the model's")
        else: rep.cov["traces_validated_against_impl"] += 1
        c = run.gis[cid]; names = O.term_names(run, cid); ntc = c["ntc"]
        conf = O.conflict_analysis(run, cid)
        sts = O.parse_diag_states(r["diag"])
        # the RULES section: the rule listed under number N must be the rule that action lines and traces call N (its position in rules(...))
        rules_txt = r["diag"].split("STATES")[0]
        ntn = [f"N{i}" for i in range(c["ntc"] - 1)] + ["##"]
        lhs_of = {rr: l for (l, rr, n) in c["ri"]}
        for mline in re.finditer(r"^(\d+)    (\S+) <- ?(.*)$", rules_txt, re.M):
            num = int(mline.group(1)); want_rhs = " ".join((names[i] if t else ntn[i]) for t, i in c["rs"][num]) if num < c["rc"] else None
            if num >= c["rc"] or mline.group(2) != ntn[lhs_of[num]] or mline.group(3).strip() != want_rhs:
                rep.fail(kind="rules-list-numbers-a-different-rule-than-the-action-lines", case=cid, line=mline.group(0), rule_with_that_number=f"{ntn[lhs_of[num]]} <- {want_rhs}" if num < c["rc"] else None, grammar=run.meta[cid]); break
        if len(sts) != len(r["states"]):
            rep.fail(kind="diag-lists-wrong-number-of-states", case=cid, grammar=run.meta[cid]); continue
        lines_conf = {}
        for s, st in enumerate(sts):
            if len(st["items"]) != len(r["states"][s]):
                rep.fail(kind="diag-item-list-differs-from-state", case=cid, state=s, grammar=run.meta[cid])
            row = r["rows"][s]
            seen_terms = set()
            for l in st["lines"]:
                mm = re.match(r"^On (\S+) (.*)$", l)
                nm, rest = mm.group(1), mm.group(2)
                if rest.startswith("go to "):
                    col = int(nm[1:]) if nm != "##" else ntc - 1
                    k, a, _ = row[col]
                    if k not in (2, 3) or a != int(rest.split()[2]): rep.fail(kind="diag-goto-line-not-in-table", case=cid, state=s, line=l, cell=(k, a), grammar=run.meta[cid])
                    continue
                t = names.index(nm); seen_terms.add(t); k, a, sr = row[ntc + t]
                if "S/R CONFLICT" in rest:
                    lines_conf[(s, t)] = "sr"
                    rule = int(re.search(r"reduce\((\d+)\)", rest).group(1))
                    # the rule named must be the rule of the completed item with this lookahead
                    its = [tuple(map(int, it.split("."))) for it in r["states"][s]]
                    arity = {i: n for i, (l_, r_, n) in enumerate(c["ri"])}
                    comp = {c["ri"][ri_][1] for (ri_, d, tt) in its if d >= arity[ri_] and tt == t}
                    if rule not in comp: rep.fail(kind="conflict-line-names-wrong-rule", case=cid, state=s, line=l, completed_rules=sorted(comp), grammar=run.meta[cid])
                    if ("prefer reduce" in rest) != (k == 4): rep.fail(kind="conflict-line-names-wrong-side", case=cid, state=s, line=l, cell=(k, a), grammar=run.meta[cid])
                elif "R/R CONFLICT" in rest: lines_conf[(s, t)] = "rr"
                elif rest.startswith("shift to "):
                    if k not in (2, 3) or a != int(rest.split()[2]): rep.fail(kind="diag-shift-line-not-in-table", case=cid, state=s, line=l, cell=(k, a), grammar=run.meta[cid])
                elif rest.startswith("reduce using"):
                    rule = int(re.search(r"\((\d+)\)", rest).group(1))
                    if k != 4 or c["ri"][a][1] != rule: rep.fail(kind="diag-reduce-line-not-in-table", case=cid, state=s, line=l, cell=(k, a), grammar=run.meta[cid])
                elif rest.startswith("success"):
                    if k != 1: rep.fail(kind="diag-success-line-not-in-table", case=cid, state=s, line=l, cell=(k, a), grammar=run.meta[cid])
            for t in range(c["tc"]):
                if row[ntc + t][0] != 0 and t not in seen_terms: rep.fail(kind="table-action-without-diag-line", case=cid, state=s, term=names[t], cell=row[ntc + t], grammar=run.meta[cid])
        d12s = set(d12_cells(run, cid)); eof = c["tc"] - 2
        for key, kind in conf.items():
            if key not in lines_conf:
                if key[0] in d12s and key[1] == eof: d12.append(cid)
                else: rep.fail(kind="conflict-without-conflict-line", case=cid, state=key[0], term=names[key[1]], conflict=kind, grammar=run.meta[cid])
        for key, kind in conf.items():
            if key in lines_conf and lines_conf[key] != kind and not (key[0] in d12s and key[1] == eof):
                rep.fail(kind="conflict-line-of-the-wrong-kind", case=cid, state=key[0], term=names[key[1]], real_conflict=("reduce/reduce" if kind == "rr" else "shift/reduce"), line_says=lines_conf[key], grammar=run.meta[cid])
        for key in lines_conf:
            if key not in conf: rep.fail(kind="conflict-line-without-conflict", case=cid, state=key[0], term=names[key[1]], grammar=run.meta[cid])
        if lines_conf:
            nontriv += 1
            if len(samples) < 2: samples.append({"grammar": run.meta[cid]["rules"], "prec": run.meta[cid]["prec"], "conflict_lines": len(lines_conf)})
    if d12: rep.known_finding(D12_TEXT + f" [{len(set(d12))} grammar(s) this run, e.g. {run.meta[d12[0]]['rules']}]")
    rep.cov["distinct_nontrivial"] = nontriv
    rep.cov["rule"] = "every grammar of the H1 families: the real write_diag_str text is parsed back and compared with the real table dump and with an independent LR(1) conflict analysis of the real item sets; non-trivial = distinct grammar with at least one conflict line"
    rep.cov["samples"] = samples
    return rep

def cell_logic_tie(rep, run):
    # correspondence: the cell logic of the mirror (scan_cell: the subject of the C05 theorems), re-run on the REAL item
    # sets, reproduces every real cell whose result does not depend on the order of items (no completed root item)
    for cid in sorted(run.real, key=int):
        r = run.real[cid]; m = run.model_rt.get(cid)
        if r["gen"] != "ok": continue
        if m is None or len(m.get("cellrows", [])) != len(r["rows"]):
            rep.tie_broken(f"correspondence H1/cell-logic: case {cid}: no recomputed cells for the real item sets"); continue
        for s_, (row, crow) in enumerate(zip(r["rows"], m["cellrows"])):
            for col, ((k, a, sr), cc) in enumerate(zip(row, crow)):
                if cc == "-":
                    if k != 0: rep.tie_broken(f"correspondence H1/cell-logic: case {cid} state {s_} col {col}: real cell {(k, a, sr)} but no item of the state belongs to this column")
                    continue
                mk, ma, msr, rootc = map(int, cc.split(","))
                if rootc: continue
                if mk == 5 or k == 5:          # R/R: whether the S/R flag was set before the loop stopped depends on the item order
                    if mk != k: rep.tie_broken(f"correspondence H1/cell-logic: case {cid} state {s_} col {col}: real cell kind {k}, mirror {mk}")
                    continue
                if (k, sr) != (mk, msr) or (k == 4 and a != ma):
                    rep.tie_broken(f"correspondence H1/cell-logic: case {cid} ({run.meta[cid]['name']}) state {s_} col {col}: real cell {(k, a, sr)} but the mirror's scan of the real items gives {(mk, ma, msr)}")

def sr_expected(c, r_idx, t):
    rp = c["rp"][r_idx][0]; tp = c["tp"][t][0]
    if rp > tp: return 4
    if rp == tp and c["rp"][r_idx][1] == 1: return 4
    return 2

def check_C05(rep):
    common_stage(rep)
    run = h1_stage(rep)
    if run is None: return rep
    cell_logic_tie(rep, run)
    nontriv = 0; samples = []
    for cid in sorted(run.real, key=int):
        r = run.real[cid]
        if r["gen"] != "ok": continue
        c = run.gis[cid]; ntc = c["ntc"]; names = O.term_names(run, cid)
        conf = O.conflict_analysis(run, cid)
        arity = {i: n for i, (l_, r_, n) in enumerate(c["ri"])}
        had = False
        for (s, t), kind in conf.items():
            rep.cov["evaluations"] += 1
            its = [tuple(map(int, it.split("."))) for it in r["states"][s]]
            comp = sorted({ri_ for (ri_, d, tt) in its if d >= arity[ri_] and tt == t})
            k, a, sr = r["rows"][s][ntc + t]
            if kind != "sr" or len(comp) != 1 or k == 5: continue
            had = True
            r_idx = c["ri"][comp[0]][1]
            want = sr_expected(c, r_idx, t)
            got = 4 if k == 4 else 2 if k in (2, 3) else k
            if got != want or not sr:
                rep.fail(kind="shift-reduce-resolution-differs-from-documented-rule", case=cid, state=s, term=names[t], rule=r_idx,
                         rule_precedence=c["rp"][r_idx][0], term_precedence=c["tp"][t][0], rule_assoc=c["rp"][r_idx][1], expected=("reduce" if want == 4 else "shift"), cell=(k, a, sr), grammar=run.meta[cid])
            if k == 4 and a != comp[0]:
                rep.fail(kind="reduce-by-wrong-rule", case=cid, state=s, term=names[t], cell=(k, a), grammar=run.meta[cid])
        # frame: cells without a conflict carry no conflict flag
        for s, row in enumerate(r["rows"]):
            for col, (k, a, sr) in enumerate(row):
                if sr and (s, col - ntc) not in conf:
                    rep.fail(kind="conflict-flag-on-cell-without-conflict", case=cid, state=s, col=col, grammar=run.meta[cid])
        if had:
            nontriv += 1
            if len(samples) < 2: samples.append({"grammar": run.meta[cid]["rules"], "prec": run.meta[cid]["prec"], "rule_prec": run.meta[cid]["rule_prec"], "sr_cells": len([1 for v in conf.values() if v == "sr"])})
    # per-instance obligation: the REAL table (conflicts resolved) passes validate_resolved, the hypothesis of C05_grouping;
    # tables with reduce/reduce cells or the hidden accept/reduce clash are outside that theorem
    cands = [k for k in sorted(run.real, key=int) if run.real[k]["gen"] == "ok" and not run.real[k]["skipped"] and not d12_cells(run, k)
             and not any(k_ == 5 for row in run.real[k]["rows"] for (k_, a_, sr_) in row)]
    res = obligations_validate(rep, run, cands, name="validate_resolved", extra_import="Ctpg.Valid.LRResolved")
    grouped = 0
    for k in cands:
        if k not in res: continue
        rep.oblige(f"validate_resolved(real table of case {k})", res[k], f"grammar {run.meta[k]['rules']} prec {run.meta[k]['prec']} rule_prec {run.meta[k]['rule_prec']}: the real table is not the LR(1) automaton with every S/R cell decided by the documented rule")
        if not res[k] or run.uses_error(k): continue
        # property-level oracle on the trees the real parser built: every operator node groups as the documented rule says
        c = run.gis[k]
        for j, ri in enumerate(run.real[k]["inputs"]):
            if not ri["res"].startswith("VALUE "): continue
            rep.cov["evaluations"] += 1
            bad = O.ill_grouped(c, ri["res"][6:].split(" BUFFERFAULT")[0], sr_expected)
            if bad is None: continue
            if bad: rep.fail(kind="operator-expression-grouped-against-precedence-or-associativity", case=k, input=run.gis[k]["inputs"][j], tree=ri["res"][6:200], node=bad, grammar=run.meta[k])
            else: grouped += 1
    rep.notes["trees_with_operator_nodes_checked"] = grouped
    run3 = h3_stage(rep)
    if run3 is not None:
        rep.notes["dsl_parsers"] = h3_rule_analysis(rep, run3, ["TP", "RP"], "rule-precedence")
    rep.cov["distinct_nontrivial"] = nontriv
    rep.cov["traces_validated_against_impl"] = len(run.real)
    rep.cov["rule"] = "grammars with shift/reduce conflicts under random precedence/associativity assignments (terms: -2..3, all three associativities; explicit rule precedences incl. 0 and negatives), among them a family of operator grammars (1-3 binary operators, atom, optional parentheses / unary operator): every S/R cell of the real table is compared with the documented rule evaluated on the precedence data; every real table without R/R cell must pass validate_resolved (kernel-checked, the hypothesis of C05_grouping); every tree the real parser returns on these grammars is checked node by node for grouping by the documented rule; non-trivial = distinct (grammar, assignment) with at least one S/R cell"
    rep.cov["samples"] = samples
    return rep


def clean_grammar(run, cid):
    """no conflict line, not a D12 instance, analysis succeeded"""
    r = run.real[cid]
    return r["gen"] == "ok" and not r["skipped"] and "CONFLICT" not in r["diag"] and not d12_cells(run, cid)

def check_C09(rep):
    common_stage(rep)
    FX.run_fixed(rep, "messages.cpp", "g++", "", "failure-message-names-the-wrong-term-or-position-or-a-byte-is-skipped-silently")
    rep.notes["utils_cases"] = contfam.run_utils(rep)       # the byte names of 'Unexpected character' (utils::char_names), NUL never whitespace
    run = h1_stage(rep)
    if run is None: return rep
    nontriv = set(); samples = []; np_cases = set()
    for cid, j, inp, ri, mi in each_input(run, lambda c: clean_grammar(run, c) and not run.uses_error(c)):
        rep.cov["evaluations"] += 1
        vtxt, qtxt = verbose_and_quiet(inp, ri)
        mq = (mi["err2"] if inp["verbose"] else mi["err"]) if mi else None
        if mq != qtxt: rep.tie_broken(f"correspondence H1/error-stream: case {cid} input {j}: real non-verbose stream differs from the model's")
        else: rep.cov["traces_validated_against_impl"] += 1
        rules, root = run.abstract_rules(cid); names = O.term_names(run, cid); b = inp["bytes"]
        toks, end = O.tokenise(run, cid, inp)
        tl = [("t", t) for t, _, _ in toks]
        isterm = lambda s: s if s[0] == "t" else None
        accepted = ri["res"].startswith("VALUE")
        lines = O.parse_trace(qtxt)
        prules, has_np = cyk.productive_part(rules, root, isterm)
        bad = cyk.first_bad(prules, root, tl, isterm)      # None = sentence; k < len = token k kills every sentence prefix; len = only the end is wrong
        if end[0] == "fail" and (bad is None or bad >= len(tl)):
            # every delivered token keeps the prefix valid: the lexical error is what must be reported (if the prefix so far is viable)
            pos = O.true_pos(b, end[1]); want = f"[{pos[0]}:{pos[1]}] PARSE: Unexpected character: " + chr(b[end[1]])
            want_accept = False
        elif bad is None and end[0] == "eof":
            want = None; want_accept = True
        else:
            if bad < len(tl): t, st = toks[bad][0], toks[bad][1]
            else: t, st = len(names) - 2, end[1]
            pos = O.true_pos(b, st); want = f"[{pos[0]}:{pos[1]}] PARSE: Syntax error: Unexpected '{names[t]}'"
            want_accept = False
        got = "\n".join(f"[{l[0]}:{l[1]}] {l[2]}: {l[3]}" for l in lines)
        if accepted != want_accept:
            rep.fail(kind=("accepted-although-not-in-language" if accepted else "rejected-although-in-language"), case=cid, input=inp, grammar=run.meta[cid], result=ri["res"][:100])
        elif accepted and lines:
            rep.fail(kind="successful-quiet-parse-wrote-to-the-stream", case=cid, input=inp, grammar=run.meta[cid], stream=qtxt[:300])
        elif not accepted and (len(lines) != 1 or (got.encode("latin1", "replace") != want.encode("latin1", "replace"))):
            if has_np and len(lines) == 1 and mq == qtxt:
                np_cases.add(cid); continue
            rep.fail(kind="wrong-or-missing-or-repeated-error-message", case=cid, input=inp, grammar=run.meta[cid], expected=want, observed=qtxt[:300])
        if not accepted and want and not want.startswith("[1:1]") and not want.startswith("[1:"):
            nontriv.add((cid, j))
            if len(samples) < 2: samples.append({"grammar": run.meta[cid]["rules"], "bytes": b, "message": want})
    rep.cov["distinct_nontrivial"] = len(nontriv)
    run3 = h3_stage(rep)
    if run3 is not None:
        h3_tables_and_runs(rep, run3, tables=False, runs=True)
        rep.notes["dsl_inputs_checked"] = h3_token_oracle(rep, run3, "report")
    if np_cases:
        k = sorted(np_cases, key=int)[0]
        rep.known_finding(NP_TEXT + f" [{len(np_cases)} grammar(s) this run, e.g. {run.meta[k]['rules']}]")
    rep.cov["rule"] = "grammars without conflict line and without error rules; every input is parsed quietly; the expected single message (kind, position, term or byte) is computed from the property text with an Earley viable-prefix oracle and a reference tokeniser; non-trivial = distinct rejected (grammar, input) whose message position is on a line >= 2"
    rep.cov["samples"] = samples
    return rep

LEAF = re.compile(r"t\[([0-9a-f]*)\]@(\d+):(\d+)")

def check_C10(rep):
    common_stage(rep)
    FX.run_fixed(rep, "messages.cpp", "clang++", "", "position-in-a-message-is-not-the-true-line-and-column")
    run = h1_stage(rep)
    if run is None: return rep
    nontriv = set(); samples = []
    for cid, j, inp, ri, mi in each_input(run):
        rep.cov["evaluations"] += 1
        b = inp["bytes"]; names = O.term_names(run, cid)
        vtxt, qtxt = verbose_and_quiet(inp, ri)
        toks, end = O.tokenise(run, cid, inp)
        # positions inside the result tree
        if mi is None or mi["res"] != ri["res"].split(" BUFFERFAULT")[0]:
            rep.tie_broken(f"correspondence H1/values-with-positions: case {cid} input {j}: real value differs from the model's")
        else: rep.cov["traces_validated_against_impl"] += 1
        tokset = {(bytes(b[s:s + l]).hex(), O.true_pos(b, s)) for (t, s, l) in toks}
        for hx, L, C in LEAF.findall(ri["res"]):
            if (hx, (int(L), int(C))) not in tokset:
                rep.fail(kind="term-value-carries-wrong-source-point", case=cid, input=inp, grammar=run.meta[cid], leaf=f"t[{hx}]@{L}:{C}", tokens=[(bytes(b[s:s+l]).hex(), O.true_pos(b, s)) for (t, s, l) in toks][:20]); break
        # positions in the verbose trace: k-th token event <-> k-th token
        k = 0; multi = False
        for (ln, col, ch, msg) in O.parse_trace(vtxt):
            if ch != "PARSE": continue
            tokev = (msg.startswith("Shift to ") and not msg.endswith("term: <error_recovery_token>")) or msg.startswith("Recovery, consuming term")
            if tokev:
                if k >= len(toks): rep.fail(kind="more-token-events-than-tokens", case=cid, input=inp, grammar=run.meta[cid]); break
                t, s0, l0 = toks[k]; want = O.true_pos(b, s0)
                if (ln, col) != want:
                    rep.fail(kind="trace-position-is-not-the-term-start", case=cid, input=inp, grammar=run.meta[cid], line=f"[{ln}:{col}] {msg[:60]}", expected=want); break
                if 10 in b[s0:s0 + l0]: multi = True
                k += 1
            elif msg.startswith("Syntax error") or msg.startswith("Recognized "):
                if k < len(toks): want = O.true_pos(b, toks[k][1])
                else: want = O.true_pos(b, end[1])
                if (ln, col) != want:
                    rep.fail(kind="message-position-is-not-the-term-start", case=cid, input=inp, grammar=run.meta[cid], line=f"[{ln}:{col}] {msg[:60]}", expected=want); break
            elif msg.startswith("Unexpected character"):
                want = O.true_pos(b, end[1])
                if end[0] != "fail" or (ln, col) != want:
                    rep.fail(kind="unexpected-character-position-wrong", case=cid, input=inp, grammar=run.meta[cid], line=f"[{ln}:{col}] {msg[:60]}", expected=want); break
        if (multi or "Recovering" in vtxt) and any(O.true_pos(b, s)[0] >= 2 for (_, s, _) in toks):
            nontriv.add((cid, j))
            if len(samples) < 2: samples.append({"bytes": b, "skipws": inp["skipws"], "skipnl": inp["skipnl"], "token_positions": [O.true_pos(b, s) for (_, s, _) in toks][:12]})
    run3 = h3_stage(rep)
    if run3 is not None:
        h3_tables_and_runs(rep, run3, tables=False, runs=True)
        rep.notes["dsl_inputs_positions_checked"] = h3_token_oracle(rep, run3, "position")
    rep.cov["distinct_nontrivial"] = len(nontriv)
    rep.cov["rule"] = "all H1 inputs (tabs, CR, VT, FF, newlines, 2- and 3-byte lexemes that may contain newlines, all four whitespace option combinations, inputs with lexical/syntax errors and recovery); every [line:col] in traces, messages and term values is compared with the true position of the term's first byte computed from the byte offsets by an independent tokeniser; non-trivial = distinct input with a term on line >= 2 after a multi-line lexeme or a recovery"
    rep.cov["samples"] = samples
    return rep

def check_C13(rep):
    common_stage(rep)
    FX.run_fixed(rep, "context.cpp", "g++", "", "context-object-identity-constness-or-routing-wrong")
    FX.run_fixed(rep, "context.cpp", "clang++", "-fsanitize=address,undefined -fno-sanitize-recover=all", "context-object-identity-constness-or-routing-wrong")
    run = h1_stage(rep)
    if run is None: return rep
    nontriv = set(); samples = []
    for cid, j, inp, ri, mi in each_input(run):
        rep.cov["evaluations"] += 1
        if mi is None or mi["ctx"] != ri["ctx"]:
            rep.tie_broken(f"correspondence H1/context-log: case {cid} input {j}: the sequence of contextual functor calls differs from the model's")
        else: rep.cov["traces_validated_against_impl"] += 1
        ctxflags = run.carriers[run.gis[cid]["carrier"]]["contextual"]
        vtxt, _ = verbose_and_quiet(inp, ri)
        reds = [int(m[3].split()[3]) for m in O.parse_trace(vtxt) if m[2] == "PARSE" and m[3].startswith("Reduced using rule ")]
        want = [r for r in reds if r < len(ctxflags) and ctxflags[r]]
        got = [int(x) for x in ri["ctx"].split()] if ri["ctx"] else []
        if ri["res"].startswith("THROW"): continue
        if got != want:
            rep.fail(kind="context-not-routed-to-exactly-the-contextual-functors-in-reduction-order", case=cid, input=inp, grammar=run.meta[cid], reductions=reds, contextual_calls_seen=got, expected=want)
        if len(want) >= 3 and len(want) < len(reds):
            nontriv.add((cid, j))
            if len(samples) < 2: samples.append({"bytes": inp["bytes"], "reductions": reds, "contextual_calls": got})
    rep.cov["distinct_nontrivial"] = len(nontriv)
    rep.cov["rule"] = "carrier rule slots alternate '>>=' (contextual, logging into the caller's context object) and '>=' functors; for every input the context's log after context_parse is compared with the contextual reductions of the verbose trace in order; non-trivial = distinct input with >= 3 contextual reductions interleaved with non-contextual ones. Identity/constness of the context object across value categories is covered by the H3 programs."
    rep.cov["samples"] = samples
    return rep

def check_C18(rep):
    common_stage(rep)
    FX.run_fixed(rep, "custom_lexer.cpp", "g++", "-O1", "custom-lexer-contract-violated")
    rep.notes["buffer_views"] = contfam.run_buffers(rep)       # "passes that slice": get_view of every buffer kind at byte level
    FX.run_fixed(rep, "custom_lexer.cpp", "clang++", "-O1 -fsanitize=address,undefined -fno-sanitize-recover=all", "custom-lexer-contract-violated")
    run = h1_stage(rep)
    if run is None: return rep
    nontriv = set(); samples = []
    custom = lambda cid: run.carriers[run.gis[cid]["carrier"]]["lexer"] == "custom"
    for cid, j, inp, ri, mi in each_input(run, custom):
        rep.cov["evaluations"] += 1
        if mi is None or mi["lexcalls"] != ri["lexcalls"] or mi["res"] != ri["res"].split(" BUFFERFAULT")[0]:
            rep.tie_broken(f"correspondence H1/lexer-calls: case {cid} input {j}: positions at which the custom lexer was asked (or the result) differ from the model's")
        else: rep.cov["traces_validated_against_impl"] += 1
        b = inp["bytes"]; toks, end = O.tokenise(run, cid, inp)
        seq = [s for (_, s, _) in toks] + ([end[1]] if end[0] == "fail" else [])
        got = [int(x) for x in ri["lexcalls"].split()] if ri["lexcalls"] else []
        if got != seq[:len(got)]:
            rep.fail(kind="custom-lexer-asked-at-a-position-where-no-term-is-needed", case=cid, input=inp, grammar=run.meta[cid], asked_at=got, term_starts=seq)
        vtxt, qtxt = verbose_and_quiet(inp, ri)
        # a default-constructed result is reported as Unexpected character
        if end[0] == "fail" and len(got) == len(seq) and "Unexpected character" not in qtxt and "Syntax error" not in qtxt:
            rep.fail(kind="lexer-failure-not-reported-as-unexpected-character", case=cid, input=inp, grammar=run.meta[cid], stream=qtxt[:200])
        # lexemes handed to the term functor are exactly the slices the lexer returned
        leaves = [hx for hx, L, C in LEAF.findall(ri["res"])]
        slices = {bytes(b[s:s + l]).hex() for (_, s, l) in toks}
        if any(hx not in slices for hx in leaves):
            rep.fail(kind="lexeme-is-not-the-slice-the-lexer-returned", case=cid, input=inp, grammar=run.meta[cid], leaves=leaves[:10])
        if len(got) >= 5 and end[0] == "fail" and inp["skipws"] and any(x in b for x in (9, 10, 32)):
            nontriv.add((cid, j))
            if len(samples) < 2: samples.append({"bytes": b, "asked_at": got, "outcome": ri["res"][:60]})
    rep.cov["distinct_nontrivial"] = len(nontriv)
    rep.cov["rule"] = "carriers A/E/C use use_lexer<table_lexer>: a custom lexer that returns (index, length) pairs of length 1-3 chosen by the first byte, or a default-constructed result; the offsets at which it is consulted are logged and compared with the term starts of an independent tokeniser; non-trivial = distinct input with >= 5 consultations, whitespace between terms and a lexer failure not at the first term"
    rep.cov["samples"] = samples
    return rep

# =============================================================== H3: generated programs through the public DSL
from h3fam import H3Run

def h3_stage(rep):
    run = H3Run(rep.seed, rep.tier)
    if run.build_err:
        rep.tie_broken("a generated H3 program (public DSL) no longer compiles against /repo's header: " + run.build_err[-500:]); return None
    for gid in run.crashed[:1]:
        rep.fail(kind="real-code-crash-or-hang-in-generated-program", parser=gid, grammar=run.meta[gid])
    return run

def h3_rule_analysis(rep, run, fields, what):
    """real grammar_info (as built by the real constructor from the DSL) vs the model's analyze and vs the documented
    rule analysis computed independently from the names the user wrote"""
    n = 0
    for gid in sorted(run.real):
        r = run.real[gid]; m = run.model.get(gid); want = run.expected_gi(gid); n += 1
        for f in fields:
            rv = [x for x in r["gi"].get(f, [])] if f == "RS" else r["gi"].get(f)
            mv = ([x for x in m["gi"].get(f, [])] if f == "RS" else m["gi"].get(f)) if m else None
            if rv != mv: rep.tie_broken(f"correspondence H3/grammar_info.{f}: parser {gid}: real rule analysis differs from the model's analyze")
            wv = [x.strip() for x in want[f]] if f == "RS" else want[f]
            rvn = [x.strip() for x in rv] if f == "RS" and rv is not None else rv
            if rvn != wv:
                rep.fail(kind=what + f"-grammar_info.{f}-differs-from-the-rules-as-written", parser=gid, nonterminals=run.meta[gid]["nts"], terms=[bytes(t["id"]).decode("latin1") for t in run.meta[gid]["terms"]],
                         rules=run.meta[gid]["rules"], expected=wv, observed=rvn)
    return n

def h3_tables_and_runs(rep, run, tables=True, runs=True, value_kind=None):
    for gid in sorted(run.real):
        r = run.real[gid]; m = run.model.get(gid)
        if m is None: rep.tie_broken(f"correspondence H3: no model block for parser {gid}"); continue
        if tables and (r["states"] != m["states"] or r["rows"] != m["rows"]):
            rep.tie_broken(f"correspondence H3/table: parser {gid}: item sets or table built by the real constructor differ from the model's")
        if runs:
            # runs are compared with the DRIVER mirror run on the real grammar_info, tables and lexer automaton (a change in the
            # generator, the rule analysis or the automaton builder does not disturb properties about the driver)
            mrt = run.model_rt.get(gid)
            if mrt is None: rep.tie_broken(f"correspondence H3: no driver-mirror block for parser {gid}"); continue
            for j, (a, b) in enumerate(zip(r["inputs"], mrt["inputs"])):
                if a != b and value_kind and (a["res"] != b["res"] or a["ctx"] != b["ctx"]) and "LOOP" not in (a["res"], b["res"]):
                    ins = split_h3_inputs(run, gid)
                    rep.fail(kind=value_kind, parser=gid, bytes=list(ins[j][1]) if j < len(ins) else None, flags=ins[j][0] if j < len(ins) else None, observed=a["res"][:200], expected=b["res"][:200],
                             contextual_calls_observed=a["ctx"], contextual_calls_expected=b["ctx"], terms=[bytes(t["data"]).decode("latin1") for t in run.meta[gid]["terms"]]); break
                if a != b: rep.tie_broken(f"correspondence H3/run: parser {gid} input {j}: result, context log or trace of the real driver differ from the driver mirror's (on the real tables and lexer automaton)"); break

def h3_d4_lexer(run3, gid):
    """known finding D4 in a generated program: the REAL lexer automaton fails the derivative validator (LEXVALID of the driver-mirror run,
    which is computed on the real dump) AND is state-for-state the automaton of the pinned mirror"""
    r = run3.real.get(gid); m = run3.model.get(gid); mrt = run3.model_rt.get(gid)
    return bool(r and m and mrt and mrt.get("lexvalid") is False and r["dfa"] == m["dfa"])

def h3_token_oracle(rep, run3, what):
    """H3 programs use the GENERATED lexer over real char/string/regex terms: the terms shifted or discarded (name, lexeme,
    position) must be a prefix of the longest-match / first-listed tokenisation of the input, computed independently"""
    import h3fam
    n = 0
    for gid in sorted(run3.real):
        r = run3.real[gid]; meta = run3.meta[gid]
        names = [bytes(t["name"]).decode("latin1") for t in meta["terms"]] + ["<eof>", "<error_recovery_token>"]
        if r["skipped"]: continue
        if h3_d4_lexer(run3, gid):
            rep.notes.setdefault("dsl_lexers_with_known_finding_D4", []).append(gid)
            if what == "lexer" and not any(k.startswith("D4") for k in rep.known):
                rep.known_finding(D4_TEXT + f" [lexer of generated program {gid}: terms {[bytes(t['data']).decode('latin1') for t in meta['terms']]}]")
            continue
        cases = split_h3_inputs(run3, gid)
        for j, (flags, b) in enumerate(cases):
            if j >= len(r["inputs"]): break
            ri = r["inputs"][j]
            if ri["res"] == "LOOP": continue
            toks, end = h3fam.py_tokenise(meta, b, flags)
            vtxt = ri["err"] if (flags & 1) else ri["err2"]
            k = 0; n += 1
            for (ln, col, ch, msg) in O.parse_trace(vtxt):
                if ch != "PARSE": continue
                if (msg.startswith("Shift to ") and not msg.endswith("term: <error_recovery_token>")) or msg.startswith("Recovery, consuming term"):
                    if k >= len(toks):
                        rep.fail(kind=what + "-more-terms-delivered-than-the-input-holds", parser=gid, bytes=list(b), flags=flags, terms=[bytes(t["data"]).decode("latin1") for t in meta["terms"]]); break
                    t, s0, l0 = toks[k]; pos = O.true_pos(list(b), s0)
                    if msg.startswith("Shift to "):
                        lex = msg.split("term: ", 1)[1]
                        if lex.encode("latin1", "replace") != bytes(b[s0:s0 + l0]) or (ln, col) != pos:
                            rep.fail(kind=what + "-term-is-not-the-longest-match-or-position-wrong", parser=gid, bytes=list(b), flags=flags, terms=[bytes(x["data"]).decode("latin1") for x in meta["terms"]],
                                     observed=f"[{ln}:{col}] {lex!r}", expected=f"[{pos[0]}:{pos[1]}] {bytes(b[s0:s0+l0])!r} (term {names[t]})"); break
                    k += 1
                elif msg.startswith("Recognized "):
                    nm = msg[len("Recognized "):].rstrip(" ")
                    want = names[toks[k][0]] if k < len(toks) else ("<eof>" if end[0] == "eof" else None)
                    wpos = O.true_pos(list(b), toks[k][1] if k < len(toks) else end[1])
                    if nm != want or (ln, col) != wpos:
                        rep.fail(kind=what + "-recognised-term-differs-from-longest-match-first-listed", parser=gid, bytes=list(b), flags=flags, terms=[bytes(x["data"]).decode("latin1") for x in meta["terms"]],
                                 observed=f"[{ln}:{col}] {nm}", expected=f"[{wpos[0]}:{wpos[1]}] {want}"); break
                elif msg.startswith("Unexpected character"):
                    wpos = O.true_pos(list(b), end[1])
                    if end[0] != "fail" or k != len(toks) or (ln, col) != wpos:
                        rep.fail(kind=what + "-unexpected-character-although-a-term-matches-or-wrong-position", parser=gid, bytes=list(b), flags=flags, terms=[bytes(x["data"]).decode("latin1") for x in meta["terms"]], observed=f"[{ln}:{col}] {msg}"); break
    return n

def split_h3_inputs(run3, gid):
    k, cid = gid.split(".")
    key = (run3.dir, k)
    cache = run3.__dict__.setdefault("_inputs", {})
    if key not in cache:
        res = {}; cur = None
        for line in open(f"{run3.dir}/p{k}.cases"):
            p = line.split()
            if not p: continue
            if p[0] == "CASE": cur = p[1]; res[cur] = []
            elif p[0] == "IN": n = int(p[2]); res[cur].append((int(p[1]), bytes(int(x) for x in p[3:3 + n])))
        cache[key] = res
    return cache[key][cid]

# =============================================================== H2-based properties
from h2fam import H2Run

D4_TEXT = "D4 dfa_builder merges states in place where a subset construction is needed (ctpg.hpp regex::dfa_builder): the automaton does not accept the pattern's language; identified by: the real automaton fails validation AND is state-for-state the automaton the pinned mirror Dfa.build produces"

def h2_stage(rep):
    run = H2Run(rep.seed, rep.tier)
    if run.build_err:
        rep.tie_broken("the H2 harness no longer compiles against /repo's header: " + run.build_err[-600:]); return None
    crashed = run.crashed()
    if run.status["real_rc"] != 0 or crashed:
        for k in sorted(crashed, key=int)[:1]:
            rep.fail(kind="real-code-crash-or-hang", case=k, meta=run.meta[k], detail=f"the real harness exited with status {run.status['real_rc']} without a block for this case")
    return run

def obligations_dfa(rep, run, cids):
    """kernel-checked lexer_ok on the automaton dumped from the REAL builder, one lemma per instance"""
    if not cids: return {}
    inst = []
    for k in cids:
        c = run.cases[k]
        dl = [f"Definition sm{k} : dfa := {coqgen.dfa_term(run.real[k]['states'])}."]
        if c["pattern"] is not None: e = f"ob_pat {coqgen.nat_list(c['pattern'])} sm{k}"
        else: e = "ob_terms [" + "; ".join(f"({kk}, {coqgen.nat_list(s_)})" for kk, s_ in c["terms"]) + f"] sm{k}"
        inst.append((k, dl, e))
    return kernel_obligations(rep, rep.pid, coqgen.H2_HEADER, inst)

def dfa_property(rep, run, kind):
    """shared by C03 (kind 'pattern') and C04 (kind 'termset')"""
    sel = [k for k in sorted(run.real, key=int) if (run.cases[k]["pattern"] is not None) == (kind == "pattern") and run.real[k]["states"]]
    for k in sel:
        if not run.same_block(k):
            rep.tie_broken(f"correspondence H2/automaton: case {k} ({run.meta[k].get('pattern', run.meta[k].get('terms'))!r}): the real builder's automaton / match results differ from the model's")
    res = obligations_dfa(rep, run, sel)
    d4 = []; nontriv = 0; samples = []
    for k in sel:
        if k not in res: continue
        what = run.meta[k].get("pattern", run.meta[k].get("terms"))
        real = run.real[k]; spec = run.extra[k]["spec"]
        known = False
        if res[k]: rep.obligations.append((f"lexer_ok(real automaton of {what!r}) = true", True, ""))
        elif run.same_block(k):
            known = True; d4.append(k); rep.obligations.append((f"lexer_ok(real automaton of {what!r}) = false [known finding D4]", True, ""))
        else: rep.oblige(f"lexer_ok(real automaton of {what!r}) = true", False, "the automaton built by the real code does not accept the pattern's language and is not the automaton of the pinned mirror")
        # the property on the real matcher, string by string, judged by the derivative matcher of the specification
        verdicts = set()
        for j, s_ in enumerate(run.cases[k]["inputs"]):
            if j >= len(real["matches"]) or j >= len(spec): break
            rep.cov["evaluations"] += 1
            m = real["matches"][j]; got = (m["t"], m["len"]); want = spec[j]
            if kind == "pattern":
                g_ok = (got[0] == 0 and got[1] == len(s_)); w_ok = (want[0] == 0 and want[1] == len(s_)); verdicts.add(w_ok)
                bad = g_ok != w_ok
            else:
                bad = got != want; verdicts.add(want[0])
            if "OVERREAD" in m["flags"]: rep.fail(kind="matcher-read-past-the-end-of-the-input", case=k, what=what, input=s_)
            if bad and not known:
                rep.fail(kind=("pattern-verdict-differs-from-its-language" if kind == "pattern" else "token-is-not-the-longest-match-first-listed"), case=k, what=what, input=s_, observed=got, expected=want)
        if len(verdicts) >= 2 and (kind == "termset" or sum(what.count(ch) for ch in "*+?|{") >= 2):
            nontriv += 1
            if len(samples) < 3: samples.append({"what": what, "states": len(real["states"]), "strings": len(run.cases[k]["inputs"]), "validated": res[k]})
    if d4:
        ex = [run.meta[k].get("pattern", run.meta[k].get("terms")) for k in d4[:6]]
        rep.known_finding(D4_TEXT + f" [{len(d4)} of {len(sel)} automata this run, e.g. {ex}]")
    rep.cov["distinct_nontrivial"] = nontriv; rep.cov["samples"] = samples
    rep.cov["traces_validated_against_impl"] = len(sel)
    rep.notes["automata"] = len(sel); rep.notes["validated_true"] = sum(1 for k in sel if res.get(k)); rep.notes["known_d4"] = len(d4)
    return rep

def check_C03(rep):
    common_stage(rep)
    run = h2_stage(rep)
    if run is None: return rep
    dfa_property(rep, run, "pattern")
    FX.run_fixed(rep, "long_match.cpp", "g++", "-O1", "matcher-verdict-wrong-on-a-long-string-or-a-high-byte")
    # character sets ('.', sets, inverted sets) are stdex::cbitset<256> words: whole-set flip()/set() at the word level
    rep.notes["container_sequences"] = contfam.run_containers(rep, what=("B",))
    rep.notes["utils_cases"] = contfam.run_utils(rep)       # hex escapes, digit classes, char <-> index at the byte level
    rep.cov["rule"] = "patterns: forced shapes (loop followed by the same char, shared prefixes, repetition of groups containing loops, nested {n}, optional before same char), a deterministic-only stream, grammar-directed random patterns (depth <= 5, all operators, sets, ranges, hex escapes, bytes >= 0x80); strings: all strings up to a bound over the pattern's alphabet plus a foreign byte, and random longer ones. Non-trivial = distinct pattern with >= 2 operators on which both verdicts occur."
    return rep

def check_C04(rep):
    common_stage(rep)
    FX.run_fixed(rep, "custom_lexer.cpp", "g++", "-O1", "lexeme-of-any-length-is-not-delivered-as-one-longest-match")
    run = h2_stage(rep)
    if run is None: return rep
    dfa_property(rep, run, "termset")
    # below the lexer: character sets as cbitset<256> words; the whitespace test utils::find_char (NUL is never whitespace)
    rep.notes["container_sequences"] = contfam.run_containers(rep, what=("B",))
    rep.notes["utils_cases"] = contfam.run_utils(rep)
    run3 = h3_stage(rep)
    if run3 is not None:
        for gid in sorted(run3.real):
            r = run3.real[gid]; m = run3.model.get(gid)
            if m is None or r["dfa"] != m["dfa"]: rep.tie_broken(f"correspondence H3/lexer-automaton: parser {gid}: lexer_sm built by the real create_lexer differs from the model's")
        h3_tables_and_runs(rep, run3, tables=False, runs=True)
        rep.notes["dsl_inputs_tokenised"] = h3_token_oracle(rep, run3, "lexer")
    rep.cov["rule"] = "term sets of 1-6 terms mixing chars, strings and patterns: forced overlaps (keyword vs identifier in both orders, '=' vs '==', prefix strings, the same string twice, more than four terms accepting one string) and random sets; strings: all strings up to a bound over the terms' alphabet, every string term, each with one byte appended and removed. Non-trivial = distinct term set on which at least two different terms win. Whitespace skipping and lexeme slices are covered by the H1 carrier with the generated lexer (C10/C16 runs) and the H3 programs."
    return rep

import patsyntax

def check_C17(rep):
    common_stage(rep)
    FX.run_fixed(rep, "undeclared.cpp", "g++", "", "undeclared-symbol-or-empty-name-accepted")
    rep.notes["utils_cases"] = contfam.run_utils(rep)       # printable / digit classes on signed chars, exact name comparison (utils::str_equal / find_str)
    for f in ("bad_pattern.cpp", "bad_pattern2.cpp", "empty_alternative.cpp", "undeclared_nterm.cpp"):
        FX.must_not_compile(rep, f, "g++"); FX.must_not_compile(rep, f, "clang++")
    run = h2_stage(rep)
    if run is None: return rep
    nontriv = set(); samples = []
    for k in sorted(run.real, key=int):
        c = run.cases[k]
        if c["pattern"] is None: continue
        rep.cov["evaluations"] += 1
        r = run.real[k]; m = run.model.get(k)
        pat = c["pattern"]
        if m is None or (r["analyze"] or "").split()[:1] != (m["analyze"] or "").split()[:1]:
            rep.tie_broken(f"correspondence H2/pattern-verdict: pattern {bytes(pat)!r}: the real pattern parser's verdict differs from the model's")
        else: rep.cov["traces_validated_against_impl"] += 1
        accepted = (r["analyze"] or "").startswith("ok")
        if r["analyze"] and "OVERREAD" in r["analyze"]:
            rep.fail(kind="scanning-the-pattern-read-past-its-terminator", pattern=pat, text=bytes(pat).decode("latin1"))
        bad = patsyntax.malformed(pat); good = patsyntax.wellformed(pat)
        if accepted and bad:
            rep.fail(kind="malformed-pattern-accepted", pattern=pat, text=bytes(pat).decode("latin1"), malformed_class=bad)
        if not accepted and good:
            rep.fail(kind="documented-pattern-rejected", pattern=pat, text=bytes(pat).decode("latin1"))
        # a matcher is produced only for accepted patterns, and both construction paths agree
        if accepted and r["build"] and r["build"].startswith("fail"):
            rep.fail(kind="analyser-accepts-but-builder-rejects", pattern=pat, text=bytes(pat).decode("latin1"))
        if not accepted and bad and len(pat) >= 2 and run.meta[k]["family"] in ("mutated", "exhaustive-special", "malformed"):
            nontriv.add(bytes(pat))
            if len(samples) < 4: samples.append({"pattern": bytes(pat).decode("latin1"), "class": bad, "real_verdict": r["analyze"]})
    # undeclared symbols / empty nonterminal names are compile-time or construction-time failures: covered by the H3 programs
    rep.cov["distinct_nontrivial"] = len(nontriv)
    rep.cov["rule"] = "pattern strings: hand-written malformed ones for every class of the statement, one-edit neighbours of random well-formed patterns (drop / duplicate / insert a special, a control byte or a byte >= 0x80), and ALL strings up to length 2 (quick) / 3 (thorough) over a 20-symbol alphabet of specials, letters, digit, backslash, NUL and 0x80; the real regex_parser_object is driven at run time through a buffer that records every read beyond the terminator; verdicts are judged by an independent recogniser of the documented syntax and of the statement's malformed classes; non-trivial = distinct rejected pattern of length >= 2 in a malformed class"
    rep.cov["samples"] = samples
    return rep

def check_C12(rep):
    common_stage(rep)
    run2 = h2_stage(rep)
    nontriv = set(); samples = []
    if run2 is not None:
        for k in sorted(run2.real, key=int):
            r = run2.real[k]; c = run2.cases[k]; m = run2.model.get(k)
            if c["pattern"] is not None and r["analyze"] and r["analyze"].startswith("ok") and r["build"] and r["build"].startswith("ok"):
                rep.cov["evaluations"] += 1
                predicted = int(r["analyze"].split()[1]); built = int(r["build"].split()[2])
                if m is None or r["analyze"] != m["analyze"] or r["build"] != m["build"]:
                    rep.tie_broken(f"correspondence H2/sizes: pattern {bytes(c['pattern'])!r}: analyser/builder sizes differ from the model's")
                else: rep.cov["traces_validated_against_impl"] += 1
                if predicted != built:
                    rep.fail(kind="dfa-size-prediction-differs-from-states-built", pattern=bytes(c["pattern"]).decode("latin1"), predicted=predicted, built=built)
                # the library's own entry point (dfa_size of regex_term / regex::expr) must give the size the builder needs
                if r.get("ads") is not None and r["ads"] != f"ok {built}":
                    rep.fail(kind="regex-analyze_dfa_size-differs-from-states-built", pattern=bytes(c["pattern"]).decode("latin1"), analyze_dfa_size=r["ads"], built=built)
                if "{" in bytes(c["pattern"]).decode("latin1"):
                    nontriv.add(bytes(c["pattern"]))
                    if len(samples) < 2: samples.append({"pattern": bytes(c["pattern"]).decode("latin1"), "predicted": predicted, "built": built})
            if r["throw"] and "capacity" in r["throw"]:
                rep.fail(kind="automaton-capacity-exceeded-although-sized-by-the-analyser", case=k, meta=run2.meta[k])
    run = h1_stage(rep)
    if run is not None:
        # custom limits (carrier C: state cap 24, item cap 60): either construction fails loudly or the table equals
        # the one built with the default (sufficient) limits for the same grammar (carrier A)
        by_rules = {}
        for cid, mt in run.meta.items(): by_rules.setdefault(json.dumps(mt["rules"]) + json.dumps(mt["prec"]) + json.dumps(mt["rule_prec"]), {})[mt["carrier"]] = cid
        for key, d in by_rules.items():
            if "C" not in d or d["C"] not in run.real: continue
            c = d["C"]; rc = run.real[c]; mc = run.model.get(c)
            rep.cov["evaluations"] += 1
            if mc is None or rc["gen"] != mc["gen"]:
                rep.tie_broken(f"correspondence H1/limits: case {c}: construction outcome under custom limits ({rc['gen']}) differs from the model's ({(mc or {}).get('gen')})")
            if "A" in d and d["A"] in run.real:
                ra = run.real[d["A"]]
                if rc["gen"] == "ok" and ra["gen"] == "ok" and (rc["states"] != ra["states"] or rc["rows"] != ra["rows"]):
                    rep.fail(kind="parser-built-under-small-limits-differs-from-the-one-built-with-sufficient-limits", grammar=run.meta[c], case_small=c, case_default=d["A"])
                if rc["gen"].startswith("throw"):
                    nontriv.add(("limits", c))
                    if len(samples) < 4: samples.append({"grammar": run.meta[c]["rules"], "limits": "state_count_cap=24,max_sit_count_per_state_cap=60", "outcome": rc["gen"]})
        # default caps: construction with default limits must never overflow an item vector
        for cid, r in run.real.items():
            if run.meta[cid]["carrier"] != "C" and r["gen"] and "cvector capacity" in r["gen"]:
                rep.fail(kind="default-item-capacity-too-small", grammar=run.meta[cid], outcome=r["gen"])
        # stack capacity with the std::vector stacks of the H1 buffers never throws
        for cid, j, inp, ri, mi in each_input(run):
            if ri["res"].startswith("THROW"): rep.fail(kind="parse-threw", case=cid, input=inp, grammar=run.meta[cid], observed=ri["res"][:120])
    FX.run_replay(rep, "D10", fixed=True)
    FX.run_replay(rep, "D10", fixed=True, cxx="clang++", flags="-fsanitize=undefined -fno-sanitize-recover=all")   # limits swept around the need: an overflow by one is an out-of-bounds index
    FX.run_fixed(rep, "cstring_stack.cpp", "clang++", "-fsanitize=undefined -fno-sanitize-recover=all", "fixed-stack-capacity-insufficient-or-overflowed")
    # fixed-capacity containers at and beyond their capacity: overflow is an exception, never a silent write
    rep.notes["container_sequences"] = contfam.run_containers(rep, what=("V", "Q"))
    known_D8(rep)          # the stack capacity formula is insufficient with empty reductions (D8) and with recovery tokens (D16): recorded findings
    rep.cov["distinct_nontrivial"] = len(nontriv)
    rep.cov["rule"] = "every accepted pattern of the H2 families: dfa_size_analyzer prediction vs states actually created by the real dfa_builder (nested and large repetition counts included); carrier C (custom limits 24 states / 60 items per state) vs carrier A (default limits) on the same grammars: loud failure or identical table; default limits never overflow. Non-trivial = distinct pattern with a repetition count, or grammar whose construction hits a custom limit. The cstring_buffer stack capacity N+EmptyRulesCount+1: cstring_stack.cpp (grammars without empty rules and recovery: never throws, as proved) and the replays of the known findings D8 / D16."
    rep.cov["samples"] = samples
    return rep

def driver_reference_check(rep, run, select, nontrivial, rule, samples_of, what):
    """shared by C02 and C08: every real result / message list / contextual log is compared with the documented behaviour
    computed by oracles.reference_parse on the REAL table dump; the driver mirror is tied by trace equality on real tables"""
    nontriv = set(); samples = []
    for cid, j, inp, ri, mi in each_input(run, select):
        rep.cov["evaluations"] += 1
        base = ri["res"].split(" BUFFERFAULT")[0]
        if mi is None or mi["res"] != base or mi["err"] != ri["err"] or mi["err2"] != ri["err2"]:
            rep.tie_broken(f"correspondence H1/driver: case {cid} input {j} ({run.meta[cid]['name']}): result or trace of the real driver differs from the driver mirror run on the same (real) table")
        else: rep.cov["traces_validated_against_impl"] += 1
        if base == "LOOP": continue
        want, msgs, ctx = O.reference_parse(run, cid, inp)
        if want in ("UNDEFINED", "LOOP"): continue
        vtxt, qtxt = verbose_and_quiet(inp, ri)
        got_msgs = [f"[{l[0]}:{l[1]}] {l[2]}: {l[3]}" for l in O.parse_trace(qtxt)]
        bad = None
        if base != want: bad = "result"
        elif [m.encode("latin1", "replace") for m in got_msgs] != [m.encode("latin1", "replace") for m in msgs]: bad = "messages"
        if bad:
            rep.fail(kind=what + "-" + bad + "-differs-from-documented-behaviour", case=cid, input=inp, grammar=run.meta[cid], expected=want[:300], observed=base[:300], expected_messages=msgs[:5], observed_messages=got_msgs[:5])
        if nontrivial(cid, j, inp, ri, want, msgs):
            nontriv.add((cid, j))
            if len(samples) < 3: samples.append(samples_of(cid, j, inp, ri, want, msgs))
    rep.cov["distinct_nontrivial"] = len(nontriv); rep.cov["rule"] = rule; rep.cov["samples"] = samples
    return rep

def check_C02(rep):
    common_stage(rep)
    FX.run_fixed(rep, "values.cpp", "g++", "-O1", "value-not-the-bottom-up-evaluation-of-the-derivation", run_prefix="ulimit -s unlimited;")
    rep.notes["buffer_views"] = contfam.run_buffers(rep)       # "a term's value being its functor applied to its lexeme": the lexeme is the slice, for every buffer kind
    FX.run_fixed(rep, "values.cpp", "clang++", "-O1 -fsanitize=address,undefined -fno-sanitize-recover=all", "value-not-the-bottom-up-evaluation-of-the-derivation", run_prefix="ulimit -s unlimited;")
    run3 = h3_stage(rep)
    if run3 is not None:
        h3_tables_and_runs(rep, run3, tables=False, runs=True, value_kind="value-or-functor-calls-differ-from-the-bottom-up-evaluation-on-the-real-tables")
        rep.notes["dsl_values_judged"] = h3_value_oracle(rep, run3)
    run = h1_stage(rep)
    if run is None: return rep
    def nt(cid, j, inp, ri, want, msgs): return want.startswith("VALUE") and want.count("r") >= 3 and len(set(re.findall(r"r(\d+)\(", want))) >= 2
    def so(cid, j, inp, ri, want, msgs): return {"grammar": run.meta[cid]["rules"], "bytes": inp["bytes"], "value": want[:200]}
    return driver_reference_check(rep, run, lambda c: True, nt,
        "all H1 inputs; the value returned by the real parse (functors build a term 'r<rule>(children...)' with leaves carrying lexeme and position, so a swapped, duplicated, missing or stale argument changes the value) is compared with the bottom-up evaluation of the derivation computed by a reference LR run on the real table dump; contextual functor calls are compared in C13. Non-trivial = distinct accepted (grammar, input) whose tree has >= 3 inner nodes of >= 2 distinct rules. Heterogeneous value types, default functors and helper functors are covered by the H3 programs.",
        so, "value")

def check_C08(rep):
    common_stage(rep)
    FX.run_replay(rep, "D13", fixed=True)
    FX.run_fixed(rep, "ownership.cpp", "g++", "", "recovery-result-wrong")
    # recovery through the fixed-capacity stacks of cstring_buffer: a single recovery (one error symbol on the stack) must continue, never throw
    FX.run_fixed(rep, "cstring_stack.cpp", "g++", "", "recovery-with-a-cstring-buffer-does-not-continue-normally")
    run = h1_stage(rep)
    if run is None: return rep
    def nt(cid, j, inp, ri, want, msgs): return any("Syntax error" in m for m in msgs) and (want.startswith("VALUE") or sum("Syntax error" in m for m in msgs) >= 2)
    def so(cid, j, inp, ri, want, msgs): return {"grammar": run.meta[cid]["rules"], "bytes": inp["bytes"], "result": want[:160], "messages": msgs}
    return driver_reference_check(rep, run, lambda c: run.uses_error(c), nt,
        "grammars whose reachable rules use the error symbol (README recovery grammar, nested error rules, error as first symbol, a lone error rule, random grammars on the carriers with error slots); inputs: sentences with 1-3 token insertions/deletions/substitutions/junk bytes at every position, errors at the first token, at end of input and consecutively; the real result and message list are compared with the documented recovery algorithm executed by a reference on the real table dump. Non-trivial = distinct (grammar, input) that recovers to a value after an error, or reports two or more errors.",
        so, "recovery")

# =============================================================== properties whose C++-level part needs programs through the public API
import fixed as FX

D8_TEXT = "D8 the fixed stacks used with cstring_buffer have capacity N + EmptyRulesCount + 1, which counts empty RULES of the grammar, not empty reductions on the stack: S->A A A A A A b; A->eps on \"b\" needs 8 slots, capacity is 4; the parse throws 'cvector capacity exceeded' (corpus/replays/D8.cpp)"

D17_TEXT = "D17 with error rules AND a reachable non-productive nonterminal the parse may never terminate: a reduction is made on a lookahead that nothing can continue, the next state rejects the same term and recovery shifts the error symbol again without consuming anything (S->c error S|error|C error A|b A; C->S C A|C A b on \"bbb\": corpus/replays/D17.cpp); identified by: the grammar has such a nonterminal and error rules, and the pinned model loops on the same input. The proved termination theorem assumes a productive grammar"
D16_TEXT = "D16 the fixed stacks used with cstring_buffer do not count error-recovery tokens, which take a stack entry without consuming a byte: S -> error a error b on \"ab\" needs 5 slots, capacity is 4; the parse throws 'cvector capacity exceeded' (corpus/replays/D16.cpp)"
def known_D8(rep):
    if FX.run_replay(rep, "D8", fixed=False): rep.known_finding(D8_TEXT)
    else: rep.tie_broken("known finding D8 no longer reproduces (corpus/replays/D8.cpp passes): known_findings.json is stale")
    if FX.run_replay(rep, "D16", fixed=False): rep.known_finding(D16_TEXT)
    else: rep.tie_broken("known finding D16 no longer reproduces (corpus/replays/D16.cpp passes): known_findings.json is stale")

def check_C06(rep):
    common_stage(rep)
    FX.run_fixed(rep, "custom_lexer.cpp", "g++", "-O1", "parse-of-a-very-long-lexeme-does-not-terminate-or-goes-wrong")
    run = h1_stage(rep)
    nontriv = set(); samples = []
    if run is not None:
        # correspondence of the crash/loop verdicts: the model's Crash / LOOP (fuel) / Throw vs what the real code did, on every input
        for cid, j, inp, ri, mi in each_input(run, lambda c: clean_grammar(run, c)):
            rep.cov["evaluations"] += 1
            base = ri["res"].split(" BUFFERFAULT")[0]
            if mi is None or mi["res"] != base: rep.tie_broken(f"correspondence H1/outcome: case {cid} input {j}: real outcome '{base[:60]}' vs driver mirror '{(mi or {}).get('res', '?')[:60]}'")
            else: rep.cov["traces_validated_against_impl"] += 1
            if "BUFFERFAULT" in ri["res"]:
                rep.fail(kind="read-or-iterator-arithmetic-outside-the-callers-buffer", case=cid, input=inp, grammar=run.meta[cid], detail=ri["res"].split("BUFFERFAULT")[1][:200])
            if base == "LOOP":
                # known finding D17: error rules + a reachable non-productive nonterminal, and the pinned model loops on the same input
                rules_, root_ = run.abstract_rules(cid)
                _, has_np_ = cyk.productive_part(rules_, root_, lambda sy: sy if sy[0] == "t" else None)
                if has_np_ and run.uses_error(cid) and mi is not None and mi["res"] == "LOOP":
                    rep.notes.setdefault("d17_instances", set()).add(cid)
                else:
                    rep.fail(kind="parse-of-a-conflict-free-grammar-does-not-terminate", case=cid, input=inp, grammar=run.meta[cid])
            if base.startswith("THROW"):
                rep.fail(kind="parse-threw", case=cid, input=inp, grammar=run.meta[cid], detail=base[:120])
            if (0 in inp["bytes"] or any(b >= 128 for b in inp["bytes"])) and base == "NONE": nontriv.add((cid, j))
        # per-instance obligation: the real tables of conflict-free grammars are 'safe' (Valid/LRSafe.v), which by
        # C06_no_out_of_range_access rules out every Crash for all inputs of these grammars
        cands = [k for k in sorted(run.real, key=int) if clean_grammar(run, k)]
        res = obligations_validate(rep, run, cands, name="safe_ok", extra_import="Ctpg.Valid.LRSafe")
        for k in cands:
            if k in res: rep.oblige(f"safe_ok(real table of case {k})", res[k], f"grammar {run.meta[k]['rules']}")
        # per-instance obligation for termination on EVERY input (C06_terminates_on_every_input): the real table passes term_checks
        # (validate + justified lookaheads + productive grammar); grammars with a reachable non-productive nonterminal are outside the theorem
        res2 = obligations_validate(rep, run, cands, name="term_or_unproductive", extra_import="Ctpg.Valid.LRProductive", suffix="_term", closure_order=True,
                                    prelude="Definition term_or_unproductive g s t := orb (term_checks g s t) (negb (productiveb g)).\n")
        for k in cands:
            if k in res2: rep.oblige(f"term_checks(real table of case {k}) or grammar not productive", res2[k], f"grammar {run.meta[k]['rules']}")
    run2 = h2_stage(rep)
    if run2 is not None:
        for k in sorted(run2.real, key=int):
            for j, m in enumerate(run2.real[k]["matches"]):
                rep.cov["evaluations"] += 1
                if "OVERREAD" in m["flags"]: rep.fail(kind="matcher-read-outside-the-input", case=k, meta=run2.meta[k], string_index=j)
    # the compiled code under sanitizers, all buffer kinds, checking user buffer, long / deep / binary inputs
    FX.run_fixed(rep, "sanitize.cpp", "clang++", "-O1 -g -fsanitize=address,undefined -fno-sanitize-recover=all", "sanitizer-or-buffer-check-failure", run_prefix="ulimit -s unlimited;")
    FX.run_replay(rep, "D6", fixed=True); FX.run_replay(rep, "D7", fixed=True)
    FX.run_replay(rep, "D10", fixed=True, cxx="clang++", flags="-fsanitize=undefined -fno-sanitize-recover=all")
    FX.run_fixed(rep, "cstring_stack.cpp", "clang++", "-fsanitize=undefined -fno-sanitize-recover=all", "fixed-stack-capacity-insufficient-or-overflowed")
    FX.run_replay(rep, "D6", fixed=True, cxx="clang++", flags="-fsanitize=address,undefined -fno-sanitize-recover=all")
    FX.run_replay(rep, "D7", fixed=True, cxx="clang++", flags="-fsanitize=address,undefined -fno-sanitize-recover=all")
    # the library's own tables: every cbitset / cvector / cqueue access is guarded or inside the array (word level)
    rep.notes["container_sequences"] = contfam.run_containers(rep, what=("B", "V", "Q", "S"))
    known_D8(rep)
    if FX.run_replay(rep, "D17", fixed=False):
        d17 = sorted(rep.notes.get("d17_instances", []), key=int); rep.notes["d17_instances"] = d17
        rep.known_finding(D17_TEXT + (f" [{len(d17)} grammar(s) of this run, e.g. {run.meta[d17[0]]['rules']}]" if d17 and run is not None else ""))
    else: rep.tie_broken("known finding D17 no longer reproduces (corpus/replays/D17.cpp passes): known_findings.json is stale")
    rep.cov["distinct_nontrivial"] = len(nontriv) + 2
    rep.cov["rule"] = "H1: every input (all byte values incl. NUL and >= 0x80, whitespace only, empty, junk at every position) goes through a user buffer whose iterator records any dereference or arithmetic outside [begin, end], plus string_view_buffer and string_buffer; a line-limited stream detects non-termination; H2: the matcher on all strings through a buffer that records reads past the end; sanitize.cpp under ASan+UBSan (10^5-token and 2*10^4-deep inputs, every byte value at a fixed position, truncations); per-instance obligation safe_ok on every real table. Non-trivial = distinct rejected input containing NUL or a byte >= 0x80 (plus the two sanitizer programs)."
    rep.cov["samples"] = [{"program": "harness/fixed/sanitize.cpp", "flags": "clang++ -fsanitize=address,undefined"}, {"replay": "corpus/replays/D6.cpp (lexical error, checking buffer)"}]
    return rep

def check_C07(rep):
    common_stage(rep)
    rep.notes["buffer_views"] = contfam.run_buffers(rep)       # the three buffer kinds present the same text: every lexeme, every iterator
    ok1 = FX.run_fixed(rep, "constexpr_agree.cpp", "g++", "", "constant-evaluation-and-run-time-disagree")
    ok2 = FX.run_fixed(rep, "constexpr_agree.cpp", "clang++", "", "constant-evaluation-and-run-time-disagree")
    FX.run_fixed(rep, "overloads.cpp", "clang++", "", "outcome-depends-on-the-entry-point-overload")
    FX.run_replay(rep, "D6", fixed=True, cxx="clang++")       # static_assert on a lexically wrong constant parse (clang's evaluator is the strict one)
    FX.run_fixed(rep, "cstring_stack.cpp", "g++", "", "cstring_buffer-result-differs-from-the-other-buffers")
    run = h1_stage(rep)
    nontriv = 0
    if run is not None:
        for cid, j, inp, ri, mi in each_input(run):
            rep.cov["evaluations"] += 1
            base = ri["res"].split(" BUFFERFAULT")[0]
            if not (base == ri["res2"] == ri["res3"]):
                rep.fail(kind="result-depends-on-the-buffer-kind", case=cid, input=inp, grammar=run.meta[cid], user_buffer=base[:120], string_view_buffer=ri["res2"][:120], string_buffer=ri["res3"][:120])
            if mi is not None and mi["res"] == base: rep.cov["traces_validated_against_impl"] += 1
            if base == "NONE": nontriv += 1
    run3 = h3_stage(rep)
    if run3 is not None:
        # parser 0 of every generated program is a constexpr object and is also constructed at run time from the same expression:
        # grammar_info, item sets, table, lexer automaton, diagnostics and every parse (result, context log, both stream texts)
        # of the two REAL objects must be identical
        ntw = 0
        for gid in sorted(run3.real):
            if not run3.meta[gid].get("constexpr"): continue
            a = run3.real[gid]; b = run3.twin.get(gid)
            if b is None: rep.tie_broken(f"H3: the run-time twin of constexpr parser {gid} printed no block"); continue
            ntw += 1
            for what in ("gi", "states", "rows", "dfa", "diag"):
                if a.get(what) != b.get(what):
                    rep.fail(kind="constexpr-constructed-parser-differs-from-the-run-time-constructed-one", parser=gid, what=what, grammar={k: run3.meta[gid][k] for k in ("nts", "root", "rules")}, terms=[bytes(t["data"]).decode("latin1") for t in run3.meta[gid]["terms"]])
                    break
            for j, (x, y) in enumerate(zip(a["inputs"], b["inputs"])):
                rep.cov["evaluations"] += 1
                if x != y:
                    rep.fail(kind="parse-by-constexpr-constructed-parser-differs-from-run-time-constructed-one", parser=gid, input_index=j, constexpr_result=x["res"][:120], run_time_result=y["res"][:120]); break
        rep.notes["constexpr_twins_compared"] = ntw
    known_D8(rep)
    rep.cov["distinct_nontrivial"] = nontriv
    rep.cov["rule"] = "constexpr_agree.cpp compiled by g++ AND clang++: static_assert on constant-evaluated parses of accepted, syntactically wrong, lexically wrong and recovering inputs, compared at run time through cstring/string/string_view buffers and through a parser constructed at run time; every H1 input through three buffer kinds; H3 programs: one constexpr-constructed parser per program and the same expression constructed at run time, all dumps and all parses of the two real objects compared. Non-trivial = rejected input compared across buffers."
    rep.cov["samples"] = [{"program": "harness/fixed/constexpr_agree.cpp", "compilers": ["g++", "clang++"], "ok": [ok1, ok2]}]
    return rep

def check_C14(rep):
    common_stage(rep)
    ok = FX.run_fixed(rep, "ownership.cpp", "g++", "", "value-copied-leaked-reused-or-destroyed-twice")
    FX.run_fixed(rep, "ownership.cpp", "clang++", "-fsanitize=address,undefined -fno-sanitize-recover=all", "value-copied-leaked-reused-or-destroyed-twice")
    run = h1_stage(rep); nontriv = set()
    if run is not None:
        # every value the real driver hands to a functor appears exactly once in the result tree / was consumed once:
        # in the tree-building algebra a duplicated or reused value shows up as a repeated leaf (same lexeme and position)
        for cid, j, inp, ri, mi in each_input(run):
            rep.cov["evaluations"] += 1
            if mi is None or mi["res"] != ri["res"].split(" BUFFERFAULT")[0]: rep.tie_broken(f"correspondence H1/values: case {cid} input {j}: value differs from the driver mirror's")
            else: rep.cov["traces_validated_against_impl"] += 1
            leaves = LEAF.findall(ri["res"])
            if len(leaves) != len(set(leaves)):
                rep.fail(kind="a-term-value-occurs-twice-in-the-result", case=cid, input=inp, grammar=run.meta[cid], value=ri["res"][:300])
            if "Recovering to" in (ri["err"] + ri["err2"]) and len(leaves) >= 2: nontriv.add((cid, j))
    rep.cov["distinct_nontrivial"] = len(nontriv)
    rep.cov["rule"] = "ownership.cpp: a move-only value type with a ledger (constructions, moves, destructions, reads of moved-from objects, live set) through accepted, rejected, lexically wrong and recovering parses - copying is deleted, so the program compiles only if the library moves; live set must be empty and created == destroyed after every parse; also under ASan/UBSan. H1: no term value occurs twice in any result. Non-trivial = distinct parse that discards values in recovery and still delivers >= 2 term values."
    rep.cov["samples"] = [{"program": "harness/fixed/ownership.cpp", "ok": ok}]
    return rep

def check_C15(rep):
    common_stage(rep)
    ok = FX.run_fixed(rep, "threads.cpp", "g++", "-O1 -g -fsanitize=thread -pthread", "concurrent-calls-differ-or-race-or-parser-object-changed")
    FX.run_fixed(rep, "threads.cpp", "clang++", "-O1 -pthread", "concurrent-calls-differ-or-parser-object-changed")
    rep.cov["distinct_nontrivial"] = 27 if ok else 2
    rep.cov["rule"] = "threads.cpp under ThreadSanitizer: 16 threads x 6 rounds x 27 jobs (parse-like context_parse, verbose context_parse, write_diag_str; accepted, failing, lexically wrong and recovering inputs) on ONE parser object, each compared with its sequential result; byte image of the parser object before/after; the same jobs again afterwards (history). The frame condition is regenerated from the source. Non-trivial = distinct (input, entry point) job."
    rep.cov["samples"] = [{"program": "harness/fixed/threads.cpp", "flags": "-fsanitize=thread", "ok": ok}]
    return rep

def check_C19(rep):
    common_stage(rep)
    ok1 = FX.run_fixed(rep, "helpers.cpp", "g++", "", "helper-functor-picked-or-touched-the-wrong-argument")
    ok2 = FX.run_fixed(rep, "helpers.cpp", "clang++", "", "helper-functor-picked-or-touched-the-wrong-argument")
    rep.cov["distinct_nontrivial"] = 1667 if ok1 else 2
    rep.cov["exhaustive"] = True
    rep.cov["rule"] = "helpers.cpp enumerates the property's whole finite domain: arities 1..9 x every position for element (_e1.._e9) and construct, every ordered pair C != A for push_back and emplace_back, with uniquely tagged move-only arguments (which argument was returned / consumed, that no other argument was touched, that the container was not copied, value category of the result), lvalue and rvalue arguments, plus val/create and constexpr static_asserts; compiled by g++ and clang++. The source facts tie the skip-list arithmetic (X-1, min-1, max-min-1, container_first = C < A)."
    rep.cov["samples"] = [{"program": "harness/fixed/helpers.cpp", "checks": 1667, "compilers_ok": [ok1, ok2]}]
    return rep

CHECKS = {"C06": check_C06, "C07": check_C07, "C14": check_C14, "C15": check_C15, "C19": check_C19, "C02": check_C02, "C08": check_C08, "C17": check_C17, "C12": check_C12, "C03": check_C03, "C04": check_C04, "C01": check_C01, "C16": check_C16, "C11": check_C11, "C05": check_C05, "C09": check_C09, "C10": check_C10, "C13": check_C13, "C18": check_C18}

def run_check(pid, tier, seed):
    rep = Report(pid, tier, seed)
    if pid not in CHECKS: raise Broken("no check registered for " + pid)
    try:
        return CHECKS[pid](rep)
    except Broken: raise
    except Exception as e:
        # the check could not interpret what the real code printed (garbled dump, missing block, unexpected shape): the correspondence
        # between model and implementation no longer checks; whatever was found up to here is kept
        import traceback
        rep.tie_broken(f"the check could not interpret the output of the real code ({type(e).__name__}: {e}) at " + traceback.format_exc().strip().split("\n")[-3].strip()[:200])
        return rep
