"""Per-property deciders. Every decider: (1) proof obligations (theorems of Props/Properties_<id>.v, source-fact ties,
per-instance obligations evaluated by the Coq kernel on dumps of the real code), (2) correspondence between the real
code and the extracted model on the observables the property's theorems are about, (3) on any break, a search for a
concrete failing input judged by the property's own specification (never by the mirror)."""
import json, os, re, sys, time
from common import *
from report import Report
import coqgen, cyk

TRUSTED_COMMON = [
  "Coq 8.16.1 kernel incl. its bytecode VM (vm_compute closes per-instance obligations); native_compute is not used",
  "extraction: Require Extraction + ExtrOcamlBasic only (bool/option/unit/list/prod/sumbool/sumor -> OCaml types; andb/orb/negb/fst/snd inlined); nat/N/Z/positive stay extracted inductives; no Extract Constant of our own; OCaml 4.13.1",
  "hand-written OCaml drivers harness/ml/{conv,h1_model,h2_model}.ml (case-file reader, text renderer of events/diagnostics)",
  "tools/source_facts.py (anchored regexes over ctpg.hpp -> Model/SourceFacts.v), tools/gen_*_cases.py, the C++ harnesses under harness/ (carrier trick: single-payload variant, grammar_info overwritten through the CTPG_VERIF friend hook), g++ 12.2",
  "hand-written Gallina mirror of ctpg.hpp under coq/Model (tied by exact-observable correspondence, not verified against C++ semantics)",
]

def common_stage(rep, need_theorems=True):
    """source facts, full Coq build, forbidden-construct scan, the property's theorem file"""
    ok, msg = source_facts()
    rep.oblige("source-facts-regenerated", ok, msg)
    ok, log = coq_make()
    if not ok:
        failed = re.findall(r"File \"\./([^\"]+)\", line (\d+)", log)
        rep.oblige("coq-project-builds", False, "files failing: " + ", ".join(sorted({f for f, _ in failed})) + " :: " + log[-600:])
    else:
        rep.oblige("coq-project-builds", True)
    bad = scan_forbidden()
    rep.oblige("no-admitted-no-axiom", not bad, "; ".join(bad[:5]))
    if need_theorems:
        ok, out, thms = props_check(rep.pid)
        rep.oblige(f"Props/Properties_{rep.pid}.v", ok, out[-600:] if not ok else "")
        for t in thms: rep.obligations.append((f"theorem {t}", ok, ""))
        ass = re.findall(r"(Closed under the global context|Axioms:.*?)(?=\n\S|\Z)", out, re.S)
        rep.trusted.append("Print Assumptions for Properties_%s.v: %s" % (rep.pid, "; ".join(sorted(set(a.strip().replace("\n", " ") for a in ass))) or "n/a"))
        rep.notes["theorems"] = thms
    rep.trusted += TRUSTED_COMMON
    return rep

# =============================================================== H1-based properties
from h1fam import H1Run

def h1_stage(rep):
    run = H1Run(rep.seed, rep.tier)
    if run.build_err:
        rep.tie_broken("the H1 harness no longer compiles against /repo's header: " + run.build_err[-600:])
        return None
    crashed = run.crashed()
    if run.status["real_rc"] != 0 or crashed:
        first = sorted(crashed, key=int)[:1]
        for k in first:
            rep.fail(kind="real-code-crash-or-hang", case=k, grammar=run.meta[k], detail=f"the real harness exited with status {run.status['real_rc']} and printed no block for this case (crash, hang or abort inside ctpg)")
    return run

def d12_cells(run, cid):
    """(state, True) for states whose item set holds the completed root item and another completed item on <eof>
    while the cell is 'success': the accept/reduce conflict that transitions() hides (known finding D12)"""
    c = run.gis[cid]; real = run.real[cid]
    eof = c["tc"] - 2; root = c["rc"] - 1
    arity = {i: n for i, (l, r, n) in enumerate(c["ri"])}
    out = []
    for s, items in enumerate(real["states"]):
        its = [tuple(map(int, it.split("."))) for it in items]
        comp = [(r, d, t) for (r, d, t) in its if d >= arity[r] and t == eof]
        if any(r == root for r, d, t in comp) and any(r != root for r, d, t in comp) and real["rows"][s][c["ntc"] + eof][0] == 1:
            out.append(s)
    return out

def compare_tables(rep, run, select=lambda cid: True, what=("gen", "states", "rows")):
    n = 0
    for cid in run.meta:
        if cid not in run.real or not select(cid): continue
        r, m = run.real[cid], run.model.get(cid)
        n += 1
        for w in what:
            if m is None or r[w] != m[w]:
                rep.tie_broken(f"correspondence H1/{w}: real and model differ on case {cid} ({run.meta[cid]['name']}, carrier {run.meta[cid]['carrier']})")
                rep.notes.setdefault("mismatch_cases", []).append(cid)
                break
    return n

def obligations_validate(rep, run, cids, name="validate"):
    """kernel-checked: validate g sts tbl = true on the dump of the REAL code, one lemma per instance"""
    if not cids: return {}
    # pass 1: evaluate all instances at once to learn which hold
    lines = [coqgen.HEADER]
    for k in cids:
        lines.append(f"Definition g{k} := {coqgen.grammar_term(run.gis[k])}.\nDefinition s{k} := {coqgen.states_term(run.real[k]['states'])}.\nDefinition t{k} := {coqgen.table_term(run.real[k]['rows'])}.")
    lines.append("Definition all_results := [" + "; ".join(f"({k}, {name} g{k} s{k} t{k})" for k in cids) + "].")
    lines.append("Eval vm_compute in all_results.")
    path = f"{COQ}/Cases_{rep.pid}_eval.v"
    open(path, "w").write("\n".join(lines) + "\n")
    ok, out, dt = coqc_file(os.path.basename(path), timeout=2400)
    res = {k: (v == "true") for k, v in re.findall(r"\(\s*(\d+),\s*(true|false)\)", out)}
    if not ok or len(res) != len(cids):
        rep.oblige(f"instances-evaluate ({name})", False, out[-500:]); return {}
    # pass 2: one lemma per instance, stating what was observed; the kernel re-checks each
    lem = lines[:-2]
    for k in cids:
        lem.append(f"Lemma ob_{k} : {name} g{k} s{k} t{k} = {'true' if res[k] else 'false'}. Proof. vm_compute. reflexivity. Qed.")
    path2 = f"{COQ}/Cases_{rep.pid}.v"
    open(path2, "w").write("\n".join(lem) + "\n")
    ok2, out2, dt2 = coqc_file(os.path.basename(path2), timeout=2400)
    rep.notes["obligation_files"] = [path2]; rep.notes["obligation_seconds"] = round(dt + dt2, 1)
    if not ok2: rep.oblige("instance-lemmas-compile", False, out2[-500:])
    for f in (path, path2):
        for ext in (".vo", ".vok", ".vos", ".glob"):
            try: os.remove(f[:-2] + ext)
            except OSError: pass
    return res

def check_C01(rep):
    common_stage(rep)
    run = h1_stage(rep)
    if run is None: return rep
    # correspondence: generator observables + accept/reject verdicts
    ncases = compare_tables(rep, run)
    nin = 0
    for cid, r in run.real.items():
        m = run.model.get(cid)
        if m is None: continue
        for k, (a, b) in enumerate(zip(r["inputs"], m["inputs"])):
            nin += 1
            if a["res"].split(" ")[0] != b["res"].split(" ")[0]:
                rep.tie_broken(f"correspondence H1/verdict: case {cid} input {k}: real '{a['res'][:60]}' model '{b['res'][:60]}'")
    # per-instance obligations on the real dumps of grammars whose real diagnostics show no conflict
    cands = [k for k in sorted(run.real, key=int) if run.real[k]["gen"] == "ok" and not run.has_conflict_line(k)]
    res = obligations_validate(rep, run, cands)
    nontrivial = 0; samples = []
    for k in cands:
        if k not in res: continue
        if res[k]:
            rep.obligations.append((f"validate(real table of case {k}) = true", True, ""))
        else:
            d12 = d12_cells(run, k)
            if d12:
                rep.obligations.append((f"validate(real table of case {k}) = false [known finding D12]", True, ""))
                rep.notes.setdefault("d12_instances", []).append(k)
            else:
                rep.oblige(f"validate(real table of case {k}) = true", False, f"grammar {run.meta[k]['rules']} has no conflict line but its table is not the LR(1) automaton of the grammar")
    # property-level oracle: derivability (Earley on the rules as written) vs the real verdict
    for k in cands:
        real = run.real[k]
        if real["skipped"] or d12_cells(run, k): continue
        rules, root = run.abstract_rules(k)
        uses_err = run.uses_error(k)
        acc = rej = 0
        for j, inp in enumerate(run.gis[k]["inputs"]):
            if j >= len(real["inputs"]): break
            toks = run.tokens_of(k, inp)
            if toks is None: continue
            want = cyk.earley(rules, root, [("t", t) for t in toks], lambda s: s if s[0] == "t" else None)
            got = real["inputs"][j]["res"].startswith("VALUE")
            rep.cov["evaluations"] += 1
            acc += got; rej += (not got)
            if want and not got:
                rep.fail(kind="derivable-input-rejected", case=k, grammar=run.meta[k], tokens=toks, bytes=inp["bytes"], observed=real["inputs"][j]["res"][:120])
            elif got and not want and not uses_err:
                rep.fail(kind="underivable-input-accepted", case=k, grammar=run.meta[k], tokens=toks, bytes=inp["bytes"], observed=real["inputs"][j]["res"][:120])
        if acc and rej:
            nontrivial += 1
            if len(samples) < 3: samples.append({"grammar": run.meta[k]["rules"], "carrier": run.meta[k]["carrier"], "accepted": acc, "rejected": rej, "states": len(real["states"])})
    d12 = rep.notes.get("d12_instances", [])
    if d12: rep.known_finding(D12_TEXT + f" [{len(d12)} grammar(s) this run, e.g. {run.meta[d12[0]]['rules']}]")
    rep.cov["distinct_nontrivial"] = nontrivial
    rep.cov["traces_validated_against_impl"] = nin
    rep.cov["rule"] = "grammars: forced shapes (mutual left recursion, slice stride, closure memo, LR(1)-not-LALR, unit chains, nullable runs, unused/ruleless nonterminals) + random grammars fitted to carrier parsers; inputs: all term strings up to a bound + sampled sentences + token mutations. Non-trivial = grammar without conflict line with at least one accepted and one rejected input (distinct grammars counted)."
    rep.cov["samples"] = samples
    rep.notes["grammars"] = ncases; rep.notes["conflict_free_grammars"] = len(cands)
    return rep

D12_TEXT = "D12 accept/reduce conflict hidden by the break on success in transitions() (ctpg.hpp): a state holding '## <- root .' and another completed item on <eof> gets a plain 'success' cell and no conflict line"

import oracles as O

def each_input(run, select=lambda cid: True):
    for cid in sorted(run.real, key=int):
        if not select(cid): continue
        r = run.real[cid]; m = run.model.get(cid)
        if r["gen"] != "ok" or r["skipped"]: continue
        for j, inp in enumerate(run.gis[cid]["inputs"]):
            if j < len(r["inputs"]): yield cid, j, inp, r["inputs"][j], (m["inputs"][j] if m and j < len(m["inputs"]) else None)

def verbose_and_quiet(inp, ri):
    """(verbose text, quiet text) of the two real runs of one input"""
    return (ri["err"], ri["err2"]) if inp["verbose"] else (ri["err2"], ri["err"])

def check_C16(rep):
    common_stage(rep)
    run = h1_stage(rep)
    if run is None: return rep
    nontriv = set(); samples = []
    for cid, j, inp, ri, mi in each_input(run):
        rep.cov["evaluations"] += 1
        # correspondence: the real stream text is the rendering of the model's event list, byte for byte, both verbosities
        if mi is None or ri["err"] != mi["err"] or ri["err2"] != mi["err2"]:
            rep.tie_broken(f"correspondence H1/trace-text: case {cid} input {j} ({run.meta[cid]['name']}): real stream text differs from the model's trace")
        else: rep.cov["traces_validated_against_impl"] += 1
        # the property itself, on the real code
        vtxt, qtxt = verbose_and_quiet(inp, ri)
        base = ri["res"].split(" BUFFERFAULT")[0]
        if not (base == ri["res2"] == ri["res3"]):
            rep.fail(kind="outcome-depends-on-verbosity-or-stream", case=cid, input=inp, grammar=run.meta[cid], results=[ri["res"][:200], ri["res2"][:200], ri["res3"][:200]])
        vl = [l for l in O.parse_trace(vtxt)]; ql = [l for l in O.parse_trace(qtxt)]
        if [l for l in vl if l[2] == "PARSE" and O.is_nonverbose(l[3])] != ql:
            rep.fail(kind="non-verbose-messages-not-preserved", case=cid, input=inp, grammar=run.meta[cid], verbose=vtxt[:600], quiet=qtxt[:300])
        bad = O.replay_trace(run, cid, inp, vtxt)
        if bad: rep.fail(kind="trace-not-the-actions-performed", case=cid, input=inp, grammar=run.meta[cid], detail=bad[0], trace=vtxt[:800])
        if "Reduced using rule" in vtxt and ("Syntax error" in vtxt or "Unexpected character" in vtxt):
            nontriv.add((cid, j))
            if len(samples) < 2: samples.append({"grammar": run.meta[cid]["rules"], "bytes": inp["bytes"], "verbose_trace_lines": len(vl), "quiet": qtxt})
    rep.cov["distinct_nontrivial"] = len(nontriv)
    rep.cov["rule"] = "every input of the H1 families is parsed three times by the real code (verbose to a stream, quiet to a stream, no stream; three buffer kinds); non-trivial = distinct (grammar, input) whose trace holds at least one reduction and one error message"
    rep.cov["samples"] = samples
    return rep

def check_C11(rep):
    common_stage(rep)
    run = h1_stage(rep)
    if run is None: return rep
    nontriv = 0; samples = []; d12 = []
    for cid in sorted(run.real, key=int):
        r = run.real[cid]; m = run.model.get(cid)
        if r["gen"] != "ok": continue
        rep.cov["evaluations"] += 1
        if m is None or r["diag"] != m["diag"]:
            rep.tie_broken(f"correspondence H1/diag-text: case {cid} ({run.meta[cid]['name']}): write_diag_str text differs from the model's")
        else: rep.cov["traces_validated_against_impl"] += 1
        c = run.gis[cid]; names = O.term_names(run, cid); ntc = c["ntc"]
        conf = O.conflict_analysis(run, cid)
        sts = O.parse_diag_states(r["diag"])
        if len(sts) != len(r["states"]):
            rep.fail(kind="diag-lists-wrong-number-of-states", case=cid, grammar=run.meta[cid]); continue
        lines_conf = {}
        for s, st in enumerate(sts):
            if len(st["items"]) != len(r["states"][s]):
                rep.fail(kind="diag-item-list-differs-from-state", case=cid, state=s, grammar=run.meta[cid])
            row = r["rows"][s]
            seen_terms = set()
            for l in st["lines"]:
                mm = re.match(r"^On (\S+) (.*)$", l)
                nm, rest = mm.group(1), mm.group(2)
                if rest.startswith("go to "):
                    col = int(nm[1:]) if nm != "##" else ntc - 1
                    k, a, _ = row[col]
                    if k not in (2, 3) or a != int(rest.split()[2]): rep.fail(kind="diag-goto-line-not-in-table", case=cid, state=s, line=l, cell=(k, a), grammar=run.meta[cid])
                    continue
                t = names.index(nm); seen_terms.add(t); k, a, sr = row[ntc + t]
                if "S/R CONFLICT" in rest:
                    lines_conf[(s, t)] = "sr"
                    rule = int(re.search(r"reduce\((\d+)\)", rest).group(1))
                    # the rule named must be the rule of the completed item with this lookahead
                    its = [tuple(map(int, it.split("."))) for it in r["states"][s]]
                    arity = {i: n for i, (l_, r_, n) in enumerate(c["ri"])}
                    comp = {c["ri"][ri_][1] for (ri_, d, tt) in its if d >= arity[ri_] and tt == t}
                    if rule not in comp: rep.fail(kind="conflict-line-names-wrong-rule", case=cid, state=s, line=l, completed_rules=sorted(comp), grammar=run.meta[cid])
                    if ("prefer reduce" in rest) != (k == 4): rep.fail(kind="conflict-line-names-wrong-side", case=cid, state=s, line=l, cell=(k, a), grammar=run.meta[cid])
                elif "R/R CONFLICT" in rest: lines_conf[(s, t)] = "rr"
                elif rest.startswith("shift to "):
                    if k not in (2, 3) or a != int(rest.split()[2]): rep.fail(kind="diag-shift-line-not-in-table", case=cid, state=s, line=l, cell=(k, a), grammar=run.meta[cid])
                elif rest.startswith("reduce using"):
                    rule = int(re.search(r"\((\d+)\)", rest).group(1))
                    if k != 4 or c["ri"][a][1] != rule: rep.fail(kind="diag-reduce-line-not-in-table", case=cid, state=s, line=l, cell=(k, a), grammar=run.meta[cid])
                elif rest.startswith("success"):
                    if k != 1: rep.fail(kind="diag-success-line-not-in-table", case=cid, state=s, line=l, cell=(k, a), grammar=run.meta[cid])
            for t in range(c["tc"]):
                if row[ntc + t][0] != 0 and t not in seen_terms: rep.fail(kind="table-action-without-diag-line", case=cid, state=s, term=names[t], cell=row[ntc + t], grammar=run.meta[cid])
        d12s = set(d12_cells(run, cid)); eof = c["tc"] - 2
        for key, kind in conf.items():
            if key not in lines_conf:
                if key[0] in d12s and key[1] == eof: d12.append(cid)
                else: rep.fail(kind="conflict-without-conflict-line", case=cid, state=key[0], term=names[key[1]], conflict=kind, grammar=run.meta[cid])
        for key in lines_conf:
            if key not in conf: rep.fail(kind="conflict-line-without-conflict", case=cid, state=key[0], term=names[key[1]], grammar=run.meta[cid])
        if lines_conf:
            nontriv += 1
            if len(samples) < 2: samples.append({"grammar": run.meta[cid]["rules"], "prec": run.meta[cid]["prec"], "conflict_lines": len(lines_conf)})
    if d12: rep.known_finding(D12_TEXT + f" [{len(set(d12))} grammar(s) this run, e.g. {run.meta[d12[0]]['rules']}]")
    rep.cov["distinct_nontrivial"] = nontriv
    rep.cov["rule"] = "every grammar of the H1 families: the real write_diag_str text is parsed back and compared with the real table dump and with an independent LR(1) conflict analysis of the real item sets; non-trivial = distinct grammar with at least one conflict line"
    rep.cov["samples"] = samples
    return rep

def sr_expected(c, r_idx, t):
    rp = c["rp"][r_idx][0]; tp = c["tp"][t][0]
    if rp > tp: return 4
    if rp == tp and c["rp"][r_idx][1] == 1: return 4
    return 2

def check_C05(rep):
    common_stage(rep)
    run = h1_stage(rep)
    if run is None: return rep
    compare_tables(rep, run, select=lambda cid: run.meta[cid]["prec"] or "CONFLICT" in run.real[cid]["diag"])
    nontriv = 0; samples = []
    for cid in sorted(run.real, key=int):
        r = run.real[cid]
        if r["gen"] != "ok": continue
        c = run.gis[cid]; ntc = c["ntc"]; names = O.term_names(run, cid)
        conf = O.conflict_analysis(run, cid)
        arity = {i: n for i, (l_, r_, n) in enumerate(c["ri"])}
        had = False
        for (s, t), kind in conf.items():
            rep.cov["evaluations"] += 1
            its = [tuple(map(int, it.split("."))) for it in r["states"][s]]
            comp = sorted({ri_ for (ri_, d, tt) in its if d >= arity[ri_] and tt == t})
            k, a, sr = r["rows"][s][ntc + t]
            if kind != "sr" or len(comp) != 1 or k == 5: continue
            had = True
            r_idx = c["ri"][comp[0]][1]
            want = sr_expected(c, r_idx, t)
            got = 4 if k == 4 else 2 if k in (2, 3) else k
            if got != want or not sr:
                rep.fail(kind="shift-reduce-resolution-differs-from-documented-rule", case=cid, state=s, term=names[t], rule=r_idx,
                         rule_precedence=c["rp"][r_idx][0], term_precedence=c["tp"][t][0], rule_assoc=c["rp"][r_idx][1], expected=("reduce" if want == 4 else "shift"), cell=(k, a, sr), grammar=run.meta[cid])
            if k == 4 and a != comp[0]:
                rep.fail(kind="reduce-by-wrong-rule", case=cid, state=s, term=names[t], cell=(k, a), grammar=run.meta[cid])
        # frame: cells without a conflict carry no conflict flag
        for s, row in enumerate(r["rows"]):
            for col, (k, a, sr) in enumerate(row):
                if sr and (s, col - ntc) not in conf:
                    rep.fail(kind="conflict-flag-on-cell-without-conflict", case=cid, state=s, col=col, grammar=run.meta[cid])
        if had:
            nontriv += 1
            if len(samples) < 2: samples.append({"grammar": run.meta[cid]["rules"], "prec": run.meta[cid]["prec"], "rule_prec": run.meta[cid]["rule_prec"], "sr_cells": len([1 for v in conf.values() if v == "sr"])})
    rep.cov["distinct_nontrivial"] = nontriv
    rep.cov["traces_validated_against_impl"] = len(run.real)
    rep.cov["rule"] = "grammars with shift/reduce conflicts under random precedence/associativity assignments (terms: -2..3, all three associativities; explicit rule precedences incl. 0 and negatives): every S/R cell of the real table is compared with the documented rule evaluated on the precedence data; non-trivial = distinct (grammar, assignment) with at least one S/R cell"
    rep.cov["samples"] = samples
    return rep

CHECKS = {"C01": check_C01, "C16": check_C16, "C11": check_C11, "C05": check_C05}

def run_check(pid, tier, seed):
    rep = Report(pid, tier, seed)
    if pid not in CHECKS: raise Broken("no check registered for " + pid)
    return CHECKS[pid](rep)
