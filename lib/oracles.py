"""Property-level oracles that look only at the REAL code's observables (dumps, texts, results) and at the
property's own statement; used to find and judge failing inputs. None of them consults the Coq mirror."""
import re

WS_NL = [9, 10, 11, 12, 13, 32]; WS_NONL = [9, 11, 12, 13, 32]

def true_pos(b, k):
    line = 1 + sum(1 for x in b[:k] if x == 10)
    last = -1
    for i in range(k - 1, -1, -1):
        if b[i] == 10: last = i; break
    return (line, k - last)

def term_names(run, cid):
    c = run.gis[cid]; T = c["tc"] - 2
    gen = run.carriers[c["carrier"]]["lexer"] == "generated"
    return [(chr(97 + i) if gen else f"t{i}") for i in range(T)] + ["<eof>", "<error_recovery_token>"]

def tokenise(run, cid, inp):
    """what the documented lexer contract delivers: [(term, start, len)], then ('eof', pos) or ('fail', pos)"""
    c = run.gis[cid]; T = c["tc"] - 2
    gen = run.carriers[c["carrier"]]["lexer"] == "generated"
    b = inp["bytes"]; i = 0; out = []
    ws = WS_NL if inp["skipnl"] else WS_NONL
    while True:
        if inp["skipws"]:
            while i < len(b) and b[i] in ws: i += 1
        if i >= len(b): return out, ("eof", i)
        x = b[i]
        if 97 <= x < 97 + T: out.append((x - 97, i, 1)); i += 1
        elif not gen and 65 <= x < 65 + T:
            if i + 2 > len(b): return out, ("fail", i)
            out.append((x - 65, i, 2)); i += 2
        elif not gen and 48 <= x < 48 + T:
            if i + 3 > len(b): return out, ("fail", i)
            out.append((x - 48, i, 3)); i += 3
        else: return out, ("fail", i)

LINE = re.compile(r"^\[(\d+):(\d+)\] (PARSE|REGEX MATCH|LEXER MATCH): (.*)$")

def parse_trace(text):
    """[(line, col, channel, message)] ; lexeme text may contain newlines -> continuation lines are glued to the previous message"""
    out = []
    if text.endswith("\n"): text = text[:-1]
    for l in text.split("\n"):
        m = LINE.match(l)
        if m: out.append([int(m.group(1)), int(m.group(2)), m.group(3), m.group(4)])
        elif out: out[-1][3] += "\n" + l
    return out

def is_nonverbose(msg): return msg.startswith("Syntax error: ") or msg.startswith("Unexpected character: ")

def replay_trace(run, cid, inp, text):
    """C16: the verbose lines must be the actions of an LR run on the REAL table dump: every 'Shift to n' is the shift
    cell of the current state and recognised term, every 'Reduced using rule r' the reduce cell, every 'Go to n' the goto.
    returns a list of inconsistencies (empty = truthful)"""
    c = run.gis[cid]; rows = run.real[cid]["rows"]; names = term_names(run, cid)
    ntc = c["ntc"]; err = c["tc"] - 1
    ri_by_r = {r: (i, l, n) for i, (l, r, n) in enumerate(c["ri"])}
    stack = [0]; term = None; bad = []; recovering = False; pending_goto = None
    for (ln, col, ch, msg) in parse_trace(text):
        if ch != "PARSE": continue
        if msg.startswith(("Syntax error", "Success", "Recovery, consuming term")) and (term is None or not stack):
            bad.append(f"line '{msg[:30]}' is traced but the term it was decided on was never reported as recognized"); break
        if msg.startswith("Recognized "):
            nm = msg[len("Recognized "):].rstrip(" ")
            if nm not in names: bad.append(f"unknown term name {nm!r}"); break
            term = names.index(nm)
        elif msg.startswith("Shift to "):
            m = re.match(r"Shift to (\d+), term: (.*)$", msg, re.S); n = int(m.group(1))
            t = err if (recovering and m.group(2) == "<error_recovery_token>") else term
            if t is None: bad.append("shift before any term was recognised"); break
            k, a, _ = rows[stack[-1]][ntc + t]
            if t == err:
                if k != 3 or a != n: bad.append(f"line 'Shift to {n}' (error token) but cell({stack[-1]},error) is {(k, a)}"); break
                recovering = False
            else:
                if k != 2 or a != n: bad.append(f"line 'Shift to {n}' but cell({stack[-1]},{names[t]}) is {(k, a)}"); break
            stack.append(n)
        elif msg.startswith("Reduced using rule "):
            r = int(msg.split()[3])
            if r not in ri_by_r: bad.append(f"line 'Reduced using rule {r}': no such rule"); break
            i, l, n = ri_by_r[r]
            t = err if recovering else term
            if t is None: bad.append("a reduction is traced but the lookahead term it was decided on was never reported as recognized"); break
            k, a, _ = rows[stack[-1]][ntc + t]
            if k not in (4, 5) or (k == 4 and a != i): bad.append(f"line 'Reduced using rule {r}' but cell({stack[-1]},{names[t]}) is {(k, a)}"); break
            if n: del stack[-n:]
            if not stack: bad.append("stack underflow while replaying a reduction"); break
            pending_goto = l
        elif msg.startswith("Go to "):
            n = int(msg.split()[2])
            if pending_goto is None: bad.append("'Go to' without a reduction"); break
            k, a, _ = rows[stack[-1]][pending_goto]
            if a != n: bad.append(f"line 'Go to {n}' but goto cell({stack[-1]},N{pending_goto}) is {(k, a)}"); break
            stack.append(n); pending_goto = None
        elif msg.startswith("Syntax error"):
            t = term
            k, a, _ = rows[stack[-1]][ntc + t]
            if k != 0: bad.append(f"'Syntax error' reported but cell({stack[-1]},{names[t]}) is {(k, a)}"); break
        elif msg.startswith("Entering recovery mode"): recovering = True
        elif msg.startswith("Recovering to state "):
            n = int(msg.split()[3]); stack.pop()
            if not stack or stack[-1] != n: bad.append(f"'Recovering to state {n}' but the stack below is {stack[-1:]}"); break
        elif msg.startswith("Could not recover"): stack = []
        elif msg.startswith("Success"):
            k, a, _ = rows[stack[-1]][ntc + term]
            if k != 1: bad.append(f"'Success' but cell({stack[-1]},{names[term]}) is {(k, a)}"); break
        elif msg.startswith("Recovery, consuming term"):
            k, a, _ = rows[stack[-1]][ntc + term]
            if k != 0: bad.append(f"'consuming term' but cell({stack[-1]},{names[term]}) is not an error cell"); break
    return bad

def conflict_analysis(run, cid):
    """independent LR(1) conflict analysis on the REAL item sets: {(state, term): 'sr' | 'rr'}; the completed root item counts as a reduction (accept)"""
    c = run.gis[cid]; out = {}
    arity = {i: n for i, (l, r, n) in enumerate(c["ri"])}; rr_of = {i: r for i, (l, r, n) in enumerate(c["ri"])}
    for s, items in enumerate(run.real[cid]["states"]):
        its = [tuple(map(int, it.split("."))) for it in items]
        red = {}; shift = set()
        for (r, d, t) in its:
            if d >= arity[r]: red.setdefault(t, set()).add(r)
            else:
                isterm, idx = c["rs"][rr_of[r]][d]
                if isterm: shift.add(idx)
        for t, rs in red.items():
            if len(rs) > 1: out[(s, t)] = "rr"
            elif t in shift: out[(s, t)] = "sr"
    return out

def parse_diag_states(text):
    """per state: list of (kind, term name or nterm, number) from the action lines of write_state_diag_str"""
    states = []; cur = None
    for l in text.split("\n"):
        m = re.match(r"^STATE (\d+)$", l)
        if m: cur = {"items": [], "lines": []}; states.append(cur); continue
        if cur is None: continue
        if " ==> " in l and " <- " in l: cur["items"].append(l)
        elif l.startswith("On "): cur["lines"].append(l)
    return states

def reference_parse(run, cid, inp, max_steps=20000):
    """The documented behaviour (LR parsing by the dumped REAL table, bottom-up tree building, the README's recovery
    algorithm, lazy lexing) written directly from the documentation; returns (result string, [quiet messages], contextual rule log).
    result: 'VALUE <tree>' | 'NONE' | 'LOOP' | 'UNDEFINED' (the table leads outside what the documentation defines)"""
    c = run.gis[cid]; rows = run.real[cid]["rows"]; names = term_names(run, cid); b = inp["bytes"]
    ntc = c["ntc"]; T = c["tc"] - 2; eof = T; err = T + 1
    ctxflags = run.carriers[c["carrier"]]["contextual"]
    toks, end = tokenise(run, cid, inp)
    stack = [0]; vals = []; msgs = []; ctx = []; i = 0; steps = 0
    def cur():
        """(term, start, failure message or None)"""
        if i < len(toks): return toks[i][0], toks[i][1], None
        if end[0] == "eof": return eof, end[1], None
        p = true_pos(b, end[1]); return None, end[1], f"[{p[0]}:{p[1]}] PARSE: Unexpected character: " + chr(b[end[1]])
    def reduce(rii):
        l, r, n = c["ri"][rii]
        if n > len(stack) - 1 or n > len(vals): return False
        args = vals[len(vals) - n:] if n else []
        if n: del stack[-n:]; del vals[-n:]
        k, a, _ = rows[stack[-1]][l]
        if a < 0: return False
        stack.append(a); vals.append("r%d(%s)" % (r, ",".join(args)))
        if r < len(ctxflags) and ctxflags[r]: ctx.append(r)
        return True
    while True:
        steps += 1
        if steps > max_steps: return "LOOP", msgs, ctx
        t, st, fail = cur()
        if fail: msgs.append(fail); return "NONE", msgs, ctx
        k, a, _ = rows[stack[-1]][ntc + t]
        if k == 2:
            if t == eof: return "UNDEFINED", msgs, ctx
            s0, l0 = toks[i][1], toks[i][2]; p = true_pos(b, s0)
            stack.append(a); vals.append("t[%s]@%d:%d" % (bytes(b[s0:s0 + l0]).hex(), p[0], p[1])); i += 1
        elif k == 4 or k == 5:
            if a < 0 or not reduce(a): return "UNDEFINED", msgs, ctx
        elif k == 1:
            return ("VALUE " + vals[0]) if vals else "UNDEFINED", msgs, ctx
        elif k == 3: return "UNDEFINED", msgs, ctx
        else:
            p = true_pos(b, st); msgs.append(f"[{p[0]}:{p[1]}] PARSE: Syntax error: Unexpected '{names[t]}'")
            # recovery: discard states only until the topmost one that can act on the error symbol; act; repeat until it is shifted
            while True:
                steps += 1
                if steps > max_steps: return "LOOP", msgs, ctx
                ke, ae, _ = rows[stack[-1]][ntc + err]
                if ke == 0:
                    stack.pop()
                    if vals: vals.pop()
                    if not stack: return "NONE", msgs, ctx
                elif ke == 4 or ke == 5:
                    if ae < 0 or not reduce(ae): return "UNDEFINED", msgs, ctx
                elif ke == 3:
                    stack.append(ae); vals.append("err"); break
                else: return "UNDEFINED", msgs, ctx
            # discard input terms until one the parser can act on
            while True:
                t, st, fail = cur()
                if fail: msgs.append(fail); return "NONE", msgs, ctx
                k2, a2, _ = rows[stack[-1]][ntc + t]
                if k2 != 0: break
                if t == eof: return "NONE", msgs, ctx
                i += 1


def parse_value_tree(txt):
    """'r3(t[61]@1:1,r0())' -> ('r', 3, [children]) / ('t', text)"""
    pos = 0
    def node():
        nonlocal pos
        if txt.startswith("err", pos): pos += 3; return ("e",)
        if txt[pos] == "t":
            j = pos
            while j < len(txt) and txt[j] not in ",)": j += 1
            leaf = ("t", txt[pos:j]); pos = j; return leaf
        assert txt[pos] == "r", txt[pos:pos + 20]
        j = txt.index("(", pos); r = int(txt[pos + 1:j]); pos = j + 1; ch = []
        while txt[pos] != ")":
            ch.append(node())
            if txt[pos] == ",": pos += 1
        pos += 1
        return ("r", r, ch)
    t = node()
    assert pos == len(txt), (txt, pos)
    return t

def ill_grouped(c, value_text, sr_expected):
    """None: no binary operator node in the tree; '': every operator node is grouped as the documented rule says; else a description of
    the first offending node. Binary operator rule: e -> e t e. (a t0 b) t c needs 'reduce' for (rule of t0, t); a t (b t2 c) needs 'shift' for (rule of t, t2)."""
    try: tree = parse_value_tree(value_text)
    except Exception: return None
    lhs = {r: l for (l, r, n) in c["ri"]}
    def binop(r):
        rs = c["rs"][r]
        if len(rs) == 3 and tuple(rs[0]) == (0, lhs[r]) and tuple(rs[2]) == (0, lhs[r]) and rs[1][0] == 1: return (lhs[r], rs[1][1])
        return None
    seen = [False]; bad = [""]
    def walk(n):
        if n[0] != "r": return
        b = binop(n[1])
        if b and len(n[2]) == 3:
            seen[0] = True; e, t = b; L, _, R = n[2]
            if L[0] == "r":
                b0 = binop(L[1])
                if b0 and b0[0] == e and sr_expected(c, L[1], t) != 4 and not bad[0]:
                    bad[0] = f"node of rule {n[1]} (operator term {t}) has as LEFT operand a node of rule {L[1]}, but the documented rule says shift for (rule {L[1]}, term {t})"
            if R[0] == "r":
                b2 = binop(R[1])
                if b2 and b2[0] == e and sr_expected(c, n[1], b2[1]) != 2 and not bad[0]:
                    bad[0] = f"node of rule {n[1]} has as RIGHT operand a node of rule {R[1]} (operator term {b2[1]}), but the documented rule says reduce for (rule {n[1]}, term {b2[1]})"
        for ch in n[2]: walk(ch)
    walk(tree)
    if not seen[0]: return None
    return bad[0]
