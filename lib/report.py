import json, os, time
from common import *

class Report:
    def __init__(self, pid, tier, seed):
        self.pid, self.tier, self.seed = pid, tier, seed
        self.obligations = []        # (name, ok, detail)
        self.broken_ties = []        # descriptions of obligations/correspondences that no longer check
        self.failing = []            # dicts: concrete failing inputs judged by the property itself
        self.known = []              # strings for KNOWN-FINDING lines
        self.cov = {"evaluations": 0, "distinct_nontrivial": 0, "rule": "", "samples": [], "traces_validated_against_impl": 0}
        self.trusted = []
        self.assumptions = []
        self.checker_cmd = ""
        self.notes = {}

    def oblige(self, name, ok, detail=""):
        self.obligations.append((name, bool(ok), detail))
        if not ok: self.broken_ties.append(f"obligation {name} no longer checks: {detail}"[:600])

    def tie_broken(self, what): self.broken_ties.append(what[:800])
    def fail(self, **kw): self.failing.append(kw)
    def known_finding(self, text):
        if text not in self.known: self.known.append(text)

    def finish(self, wall):
        pid = self.pid
        nviol = 0; lines = []
        os.makedirs(f"{VERIF}/replays", exist_ok=True)
        for k in self.known: print(f"KNOWN-FINDING: property={pid} {k}")
        if self.failing:
            path = f"{VERIF}/replays/{pid}_{self.tier}_{self.seed}.json"
            json.dump({"property": pid, "failing_inputs": self.failing[:20], "broken_ties": self.broken_ties[:20]}, open(path, "w"), indent=1, default=str)
            print(f"VIOLATION property={pid} replay={path}"); nviol = len(self.failing)
        elif self.broken_ties:
            path = f"{VERIF}/replays/{pid}_{self.tier}_{self.seed}.json"
            json.dump({"property": pid, "failing_inputs": [], "no_longer_checks": self.broken_ties[:50]}, open(path, "w"), indent=1, default=str)
            print(f"VIOLATION property={pid} replay={path} no-failing-input-found"); nviol = 1
        cov = dict(self.cov)
        cov["obligations"] = max(1, len(self.obligations))
        cov["discharged"] = sum(1 for _, ok, _ in self.obligations if ok) if not nviol else max(1, sum(1 for _, ok, _ in self.obligations if ok))
        cov["checker_cmd"] = self.checker_cmd or "coqc -Q /verif/coq Ctpg (full .vo build via make; per-instance obligations by vm_compute)"
        cov["trusted_base"] = self.trusted
        cov["known_findings_reproduced"] = self.known
        cov.update(self.notes)
        if not cov["samples"]: cov["samples"] = ["(no cases)"]
        write_evidence(pid, self.tier, self.seed, wall, cov, self.assumptions, nviol)
        print(f"check {pid} tier={self.tier} seed={self.seed}: obligations {cov['discharged']}/{cov['obligations']}, evaluations {cov['evaluations']}, nontrivial {cov['distinct_nontrivial']}, known findings {len(self.known)}, {wall:.1f}s -> {'VIOLATION' if nviol else 'ok'}")
        return 1 if nviol else 0
