"""The documented pattern syntax (README table + the malformed classes named in property C17), written independently
of the library's pattern parser: wellformed(p) = certainly inside the documented syntax; malformed(p) = certainly in one
of the classes the property lists (unbalanced group, unterminated set, dangling or empty repetition, empty alternative,
leading quantifier, raw non-printable byte). Everything else is left unjudged."""

SPECIAL = set(b"*+?|(){}")
def printable(c): return 0x20 <= c <= 0x7e
def hexd(c): return chr(c) in "0123456789abcdefABCDEF"

def scan_atoms(p):
    """coarse scan: list of ('set'|'esc'|'chr'|special char, ok) or None with a reason when the scan itself fails"""
    i = 0; n = len(p); out = []
    while i < n:
        c = p[i]
        if c == 0x5c:                                  # backslash
            if i + 1 >= n: return None, "dangling-backslash"
            if not printable(p[i + 1]): return None, "nonprintable"
            if p[i + 1] == 0x78:
                j = i + 2; k = 0
                while j < n and k < 2 and hexd(p[j]): j += 1; k += 1
                out.append("esc"); i = j
            else: out.append("esc"); i += 2
        elif c == 0x5b:                                # set
            j = i + 1
            if j < n and p[j] == 0x5e: j += 1
            while True:
                if j >= n: return None, "unterminated-set"
                if p[j] == 0x5d: break
                if p[j] == 0x5c:
                    if j + 1 >= n: return None, "unterminated-set"
                    if not printable(p[j + 1]): return None, "nonprintable"
                    if p[j + 1] == 0x78:
                        j += 2; k = 0
                        while j < n and k < 2 and hexd(p[j]): j += 1; k += 1
                    else: j += 2
                else:
                    if not printable(p[j]): return None, "nonprintable"
                    j += 1
            out.append(("set", bytes(p[i:j + 1]))); i = j + 1
        elif c in SPECIAL: out.append(chr(c)); i += 1
        else:
            if not printable(c): return None, "nonprintable"
            out.append("chr"); i += 1
    return out, None

def malformed(p):
    """a reason string when p is certainly in one of the property's malformed classes, else None"""
    if any(not printable(c) for c in p): return "raw non-printable byte"
    atoms, why = scan_atoms(p)
    if atoms is None:
        return {"unterminated-set": "unterminated set", "nonprintable": "raw non-printable byte", "dangling-backslash": None}[why]
    depth = 0; prev = None          # prev: None (start of group/alternative), 'prim', 'quant'
    stack = []
    i = 0
    while i < len(atoms):
        a = atoms[i]
        if a == "(":
            stack.append(prev); depth += 1; prev = None
        elif a == ")":
            if depth == 0: return "unbalanced group"
            if prev is None: return "empty alternative"
            depth -= 1; stack.pop(); prev = "prim"
        elif a == "|":
            if prev is None: return "empty alternative"
            prev = None
        elif a in ("*", "+", "?"):
            if prev is None: return "leading quantifier"
            prev = "quant" if prev == "prim" else prev
        elif a == "{":
            if prev is None: return "leading quantifier"
            j = i + 1; digits = 0
            while j < len(atoms) and atoms[j] == "chr": j += 1; digits += 1
            # atoms do not keep the bytes of plain chars; re-scan the text for this brace
            return_reason = _brace_reason(p, atoms, i)
            if return_reason: return return_reason
            while atoms[i] != "}": i += 1
            prev = "quant"
        elif a == "}":
            return "dangling or empty repetition"
        else: prev = "prim"
        i += 1
    if depth != 0: return "unbalanced group"
    if prev is None and len(atoms) > 0: return "empty alternative"
    if len(atoms) == 0: return "empty alternative"
    return None

def _brace_reason(p, atoms, ai):
    """locate the ai-th atom's byte offset and check '{' digits+ '}'"""
    off = _offset_of(p, ai)
    j = off + 1; d = 0
    while j < len(p) and 0x30 <= p[j] <= 0x39: j += 1; d += 1
    if d == 0 or j >= len(p) or p[j] != 0x7d: return "dangling or empty repetition"
    return None

def _offset_of(p, ai):
    i = 0; n = len(p); k = 0
    while i < n:
        if k == ai: return i
        c = p[i]
        if c == 0x5c:
            if p[i + 1] == 0x78:
                j = i + 2; m = 0
                while j < n and m < 2 and hexd(p[j]): j += 1; m += 1
                i = j
            else: i += 2
        elif c == 0x5b:
            j = i + 1
            if j < n and p[j] == 0x5e: j += 1
            while p[j] != 0x5d:
                if p[j] == 0x5c:
                    if p[j + 1] == 0x78:
                        j += 2; m = 0
                        while j < n and m < 2 and hexd(p[j]): j += 1; m += 1
                    else: j += 2
                else: j += 1
            i = j + 1
        else: i += 1
        k += 1
    return n

def wellformed(p):
    """strict recursive-descent recogniser of the documented syntax (core): True only for patterns certainly inside it"""
    n = len(p); pos = [0]
    def peek(): return p[pos[0]] if pos[0] < n else None
    def setchar():
        c = peek()
        if c is None: return False
        if c == 0x5c:
            if pos[0] + 1 >= n or not printable(p[pos[0] + 1]): return False
            if p[pos[0] + 1] == 0x78:
                pos[0] += 2; k = 0
                while pos[0] < n and k < 2 and hexd(p[pos[0]]): pos[0] += 1; k += 1
                return k == 2                      # core: the documented two-digit form
            pos[0] += 2; return True
        if not printable(c) or c in (0x5d, 0x5b): return False
        pos[0] += 1; return True
    def primary():
        c = peek()
        if c is None: return False
        if c == 0x28:
            pos[0] += 1
            if not alt(): return False
            if peek() != 0x29: return False
            pos[0] += 1; return True
        if c == 0x5b:
            pos[0] += 1
            if peek() == 0x5e: pos[0] += 1
            items = 0
            while peek() is not None and peek() != 0x5d:
                if peek() == 0x2d or peek() == 0x5e: return False      # core: no literal '-' / '^' inside sets
                if not setchar(): return False
                if peek() == 0x2d:
                    pos[0] += 1
                    if peek() in (None, 0x5d, 0x2d): return False
                    if not setchar(): return False
                items += 1
            if peek() != 0x5d or items == 0: return False
            pos[0] += 1; return True
        if c == 0x5c: return setchar()
        if c in SPECIAL or not printable(c) or c in (0x5d, 0x2d, 0x5e): return False     # core: ']' '-' '^' outside sets left unjudged
        pos[0] += 1; return True
    def qexpr():
        if not primary(): return False
        c = peek()
        if c in (0x2a, 0x2b, 0x3f): pos[0] += 1
        elif c == 0x7b:
            pos[0] += 1; d = 0
            while peek() is not None and 0x30 <= peek() <= 0x39: pos[0] += 1; d += 1
            if d == 0 or d > 3 or peek() != 0x7d: return False
            pos[0] += 1
        if peek() in (0x2a, 0x2b, 0x3f, 0x7b): return False           # a second quantifier: not in the core
        return True
    def concat():
        if not qexpr(): return False
        while peek() is not None and peek() not in (0x7c, 0x29):
            if not qexpr(): return False
        return True
    def alt():
        if not concat(): return False
        while peek() == 0x7c:
            pos[0] += 1
            if not concat(): return False
        return True
    ok = alt()
    return ok and pos[0] == n
