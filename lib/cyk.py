"""Independent derivability oracle for C01/C09: Earley recogniser + tree enumeration on the abstract grammar
(rules as written), over sequences of term indices. Used only to FIND and JUDGE failing inputs."""

def earley(rules, root, tokens, is_term):
    return _chart(rules, root, tokens, is_term)[0]

def _chart(rules, root, tokens, is_term):
    """rules: list of (lhs, [symbols]); symbols are hashable; is_term(sym) -> token value or None. returns bool"""
    n = len(tokens)
    by_l = {}
    for ri, (l, r) in enumerate(rules): by_l.setdefault(l, []).append(ri)
    # nullable
    nullable = set(); ch = True
    while ch:
        ch = False
        for l, r in rules:
            if l not in nullable and all((s in nullable) for s in r if True) and all(is_term(s) is None for s in r):
                if all(s in nullable for s in r): nullable.add(l); ch = True
    S = [set() for _ in range(n + 1)]
    START = ("$", 0)
    # item: (rule index or -1 for start, dot, origin)
    def rhs(ri): return [root] if ri == -1 else rules[ri][1]
    S[0].add((-1, 0, 0))
    for i in range(n + 1):
        work = list(S[i])
        while work:
            ri, d, o = work.pop()
            r = rhs(ri)
            if d < len(r):
                s = r[d]
                tv = is_term(s)
                if tv is not None:
                    if i < n and tokens[i] == tv:
                        S[i + 1].add((ri, d + 1, o))
                else:
                    for rj in by_l.get(s, []):
                        it = (rj, 0, i)
                        if it not in S[i]: S[i].add(it); work.append(it)
                    if s in nullable:
                        it = (ri, d + 1, o)
                        if it not in S[i]: S[i].add(it); work.append(it)
            else:
                l = "$" if ri == -1 else rules[ri][0]
                for (rk, dk, ok) in list(S[o]):
                    rr = rhs(rk)
                    if dk < len(rr) and rr[dk] == l:
                        it = (rk, dk + 1, ok)
                        if it not in S[i]: S[i].add(it); work.append(it)
    return ((-1, 1, 0) in S[n], len(S[n]) > 0)

def first_bad(rules, root, tokens, is_term):
    """index of the first token after which no valid prefix remains (Earley chart empty), len(tokens) when only the end is wrong, None when accepted"""
    for k in range(len(tokens)):
        if not viable(rules, root, tokens[:k + 1], is_term): return k
    return None if earley(rules, root, tokens, is_term) else len(tokens)

def viable(rules, root, tokens, is_term):
    return _chart(rules, root, tokens, is_term)[1]

def productive_part(rules, root, is_term):
    """rules restricted to productive nonterminals (those deriving some terminal string); returns (rules, has_reachable_nonproductive)"""
    prod = set(); ch = True
    while ch:
        ch = False
        for l, r in rules:
            if l not in prod and all(is_term(x) is not None or x in prod for x in r): prod.add(l); ch = True
    keep = [(l, r) for l, r in rules if l in prod and all(is_term(x) is not None or x in prod for x in r)]
    reach = {root}; ch = True
    while ch:
        ch = False
        for l, r in rules:
            if l in reach:
                for x in r:
                    if is_term(x) is None and x not in reach: reach.add(x); ch = True
    return keep, any(n not in prod for n in reach)
