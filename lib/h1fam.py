"""The H1 family: grammars injected into carrier parsers; real analyser + driver vs the extracted model."""
import json, os, sys
from common import *
sys.path.insert(0, VERIF + "/tools")

TIERS = {"quick": dict(ngram=320, nin=5, exl=3), "thorough": dict(ngram=4000, nin=12, exl=4)}

def parse_case_file(path):
    cases = {}; cur = None
    for line in open(path):
        p = line.split()
        if not p: continue
        if p[0] == "CASE": cur = {"rs": [], "ri": [], "sl": [], "tp": [], "rp": [], "inputs": []}; cases[p[1]] = cur
        elif p[0] == "CARRIER": cur["carrier"] = p[1]
        elif p[0] == "DIM": cur["tc"], cur["ntc"], cur["rc"], cur["me"] = map(int, p[1:5])
        elif p[0] == "RS":
            n = int(p[2]); v = list(map(int, p[3:3 + 2 * n])); cur["rs"].append([(v[2 * i], v[2 * i + 1]) for i in range(n)])
        elif p[0] == "RI": cur["ri"].append(tuple(map(int, p[1:4])))
        elif p[0] == "SL": cur["sl"].append(tuple(map(int, p[1:3])))
        elif p[0] == "TP": cur["tp"].append(tuple(map(int, p[1:3])))
        elif p[0] == "RP": cur["rp"].append(tuple(map(int, p[1:4])))
        elif p[0] == "IN":
            n = int(p[4]); cur["inputs"].append({"verbose": int(p[1]), "skipws": int(p[2]), "skipnl": int(p[3]), "bytes": list(map(int, p[5:5 + n]))})
    return cases

class H1Run:
    def __init__(self, seed, tier):
        self.seed, self.tier = seed, tier
        self.h1dir, self.build_err = ensure_h1()
        self.mdir = ensure_model_bins()
        if self.build_err: return
        t = TIERS[tier]
        key = sha(header_hash(), seed, tier, VERIF + "/tools", VERIF + "/harness/ml", COQ + "/Model")
        def gen(d): return [sys.executable, VERIF + "/tools/gen_h1_cases.py", self.h1dir + "/carriers.json", d + "/cases", str(seed), str(t["ngram"]), str(t["nin"]), str(t["exl"]), d + "/meta.json"]
        self.dir = run_family("h1", gen, self.h1dir + "/h1", self.mdir + "/h1_model", key, second_model_on_real=True)
        self.status = json.load(open(self.dir + "/status.json"))
        self.meta = json.load(open(self.dir + "/meta.json"))
        self.gis = parse_case_file(self.dir + "/cases")
        self.real = {k: parse_h1_case(v) for k, v in split_cases(read(self.dir + "/real.out")).items()}
        # model      : generator mirror + driver mirror (tables computed by LRGen.gen)
        # model_rt   : driver / diagnostics mirror run on the tables dumped from the REAL generator (isolates the driver tie from the generator tie)
        self.model = {k: parse_h1_case(v) for k, v in split_cases(read(self.dir + "/model.out")).items()}
        self.model_rt = {k: parse_h1_case(v) for k, v in split_cases(read(self.dir + "/model_rt.out")).items()}
        self.carriers = json.load(open(self.h1dir + "/carriers.json"))

    def crashed(self):
        """cases for which the real harness produced no block (crash / hang of the real code)"""
        return [k for k in self.meta if k not in self.real]

    # --- helpers on the abstract level
    def tokens_of(self, cid, inp):
        """term indices the table lexer delivers for the bytes of an input, or None when a byte is unmapped /
        the generated lexer would fail (lexical error); whitespace skipped per the options"""
        c = self.gis[cid]; T = c["tc"] - 2
        gen = self.carriers[c["carrier"]]["lexer"] == "generated"
        b = inp["bytes"]; i = 0; out = []
        ws = [9, 10, 11, 12, 13, 32] if inp["skipnl"] else [9, 11, 12, 13, 32]
        while True:
            if inp["skipws"]:
                while i < len(b) and b[i] in ws: i += 1
            if i >= len(b): return out
            x = b[i]
            if 97 <= x < 97 + T: out.append(x - 97); i += 1
            elif not gen and 65 <= x < 65 + T:
                if i + 2 > len(b): return None
                out.append(x - 65); i += 2
            elif not gen and 48 <= x < 48 + T:
                if i + 3 > len(b): return None
                out.append(x - 48); i += 3
            else: return None

    def abstract_rules(self, cid):
        """rules as written (r_idx order, without the root rule), symbols as ('t', i) / ('n', i)"""
        c = self.gis[cid]
        lhs = {r: l for (l, r, n) in c["ri"]}
        rules = []
        for r in range(c["rc"] - 1):
            rules.append((("n", lhs[r]), [("t", i) if t else ("n", i) for t, i in c["rs"][r]]))
        root = ("n", c["rs"][c["rc"] - 1][0][1])
        return rules, root

    def has_conflict_line(self, cid): return "CONFLICT" in self.real[cid]["diag"]

    def uses_error(self, cid):
        c = self.gis[cid]; err = c["tc"] - 1
        rules, root = self.abstract_rules(cid)
        # reachable rules only
        reach = {root}; ch = True
        while ch:
            ch = False
            for l, r in rules:
                if l in reach:
                    for s in r:
                        if s[0] == "n" and s not in reach: reach.add(s); ch = True
        return any(l in reach and ("t", err) in r for l, r in rules)
