"""The H3 family: generated C++ programs that define parsers through the public DSL; the real constructor (rule
analysis by names, table, lexer automaton) and driver vs the extracted model fed with the raw grammar."""
import json, os, sys, concurrent.futures
from common import *

TIERS = {"quick": dict(nprog=3, npars=8, nin=10), "thorough": dict(nprog=24, npars=10, nin=16)}

def parse_h3_case(lines):
    c = parse_h1_case(lines)
    c["gi"] = {}; c["dfa"] = []
    for l in lines:
        for tag in ("GI ", "RI", "SL", "TP", "RP", "CAPS "):
            if l.startswith(tag): c["gi"][tag.strip()] = l[len(tag):].strip()
        if l.startswith("RS "): c["gi"].setdefault("RS", []).append(l[3:].strip())
        if l.startswith("ST "): c["dfa"].append(l)
        if l.startswith("DFA "): c["dfa_size"] = l.split()[1]
        if l.startswith("LEXVALID "): c["lexvalid"] = l.split()[1] == "true"
    return c

class H3Run:
    def __init__(self, seed, tier):
        t = TIERS[tier]; self.mdir = ensure_model_bins()
        key = sha(header_hash(), seed, tier, VERIF + "/tools/gen_h3.py", VERIF + "/harness/h3", VERIF + "/harness/ml", COQ + "/Model")
        self.dir = d = f"{CACHE}/runs/h3-{key}"
        self.build_err = None
        with locked(f"run-h3-{key}"):
            if not os.path.exists(d + "/done"):
                os.makedirs(d, exist_ok=True)
                def one(k):
                    rc, out, _ = sh([sys.executable, VERIF + "/tools/gen_h3.py", f"{d}/p{k}.cpp", f"{d}/p{k}.cases", str(seed * 1000 + k), str(t["npars"]), str(t["nin"]), f"{d}/p{k}.meta.json"])
                    if rc: return ("gen", out)
                    rc, out, _ = sh(f"g++ -std=c++17 -O0 -pthread -DCTPG_VERIF -I{REPO}/include -I{VERIF}/harness/h3 -o {d}/p{k} {d}/p{k}.cpp", timeout=1800)
                    if rc: return ("compile", out)
                    rc1, _, _ = sh(f"timeout 300 {d}/p{k} > {d}/p{k}.real 2> {d}/p{k}.err", timeout=400)
                    rc2, out2, _ = sh(f"{self.mdir}/h3_model {d}/p{k}.cases > {d}/p{k}.model 2> {d}/p{k}.merr", timeout=1800)
                    if rc2: return ("model", open(f"{d}/p{k}.merr").read()[-800:])
                    # the driver mirror alone: grammar_info, tables and lexer automaton taken from the REAL dump
                    rc3, out3, _ = sh(f"{self.mdir}/h3_model {d}/p{k}.cases --real {d}/p{k}.real > {d}/p{k}.model_rt 2> {d}/p{k}.merr_rt", timeout=1800)
                    if rc3: return ("model", open(f"{d}/p{k}.merr_rt").read()[-800:])
                    os.remove(f"{d}/p{k}")
                    return ("ok", rc1)
                with concurrent.futures.ThreadPoolExecutor(max_workers=8) as ex:
                    res = list(ex.map(one, range(t["nprog"])))
                json.dump(res, open(d + "/status.json", "w"))
                for kind, out in res:
                    if kind in ("gen", "model"): raise Broken(f"H3 {kind} failed: {str(out)[-800:]}")
                open(d + "/done", "w").write("ok")
        self.status = json.load(open(d + "/status.json"))
        for kind, out in self.status:
            if kind == "compile": self.build_err = out
        self.twin = {}; self.model_rt = {}; self.meta = {}; self.real = {}; self.model = {}; self.real_lines = {}; self.model_lines = {}; self.crashed = []
        for k in range(t["nprog"]):
            if self.status[k][0] != "ok": continue
            m = json.load(open(f"{d}/p{k}.meta.json"))
            rc = split_cases(read(f"{d}/p{k}.real")); mc = split_cases(read(f"{d}/p{k}.model")); mrt = split_cases(read(f"{d}/p{k}.model_rt"))
            for cid, mt in m.items():
                gid = f"{k}.{cid}"; self.meta[gid] = mt
                if cid not in rc: self.crashed.append(gid); continue
                self.real_lines[gid] = rc[cid]; self.model_lines[gid] = mc.get(cid)
                self.real[gid] = parse_h3_case(rc[cid]); self.model[gid] = parse_h3_case(mc[cid]) if cid in mc else None
                self.model_rt[gid] = parse_h3_case(mrt[cid]) if cid in mrt else None
                if mt.get("constexpr") and (cid + "r") in rc: self.twin[gid] = parse_h3_case(rc[cid + "r"])

    # ---- the documented rule analysis, computed independently from the raw description (names as the user wrote them)
    def expected_gi(self, gid):
        m = self.meta[gid]
        term_ids = [bytes(t["id"]) for t in m["terms"]]; T = len(term_ids)
        nts = m["nts"]; NT = len(nts)
        rules = m["rules"]
        rs = []
        for r in rules:
            syms = []
            for kd, v in r["rhs"]:
                if kd == 0: syms.append("n%d" % nts.index(v))
                elif kd == 1: syms.append("t%d" % v)
                else: syms.append("t%d" % (T + 1))
            rs.append(syms)
        rs.append(["n%d" % nts.index(m["root"])])
        lhs = [nts.index(r["lhs"]) for r in rules] + [NT]
        order = sorted(range(len(lhs)), key=lambda i: lhs[i])
        ri = " ".join(f"{lhs[i]},{i},{len(rs[i])}" for i in order)
        rp = []
        for i, syms in enumerate(rs):
            last = -1
            for s_ in syms:
                if s_[0] == "t": last = int(s_[1:])
            tprec = lambda t: (m["terms"][t]["prec"], m["terms"][t]["assoc"]) if t < T else (0, 0)
            if i < len(rules) and rules[i]["prec_given"]: p = rules[i]["prec"]
            else: p = tprec(last)[0] if last >= 0 else 0
            a = tprec(last)[1] if last >= 0 else 0
            rp.append(f"{p},{a},{last}")
        tp = " ".join(f"{t['prec']},{t['assoc']}" for t in m["terms"]) + " 0,0 0,0"
        return {"RS": [f"{i} " + " ".join(s) if s else f"{i}" for i, s in enumerate(rs)], "RI": ri, "RP": " ".join(rp), "TP": tp}

import re as _re
def py_tokenise(meta, b, flags):
    """the documented lexer contract for the terms as written: skip the whitespace the options name, longest match over all
    terms, first listed wins; returns [(term, start, len)], ('eof'|'fail', pos)"""
    skipws = flags & 2; skipnl = flags & 4
    ws = [9, 10, 11, 12, 13, 32] if skipnl else [9, 11, 12, 13, 32]
    pats = []
    for t in meta["terms"]:
        d = bytes(t["data"])
        if t["kind"] in (0, 1): pats.append(_re.compile(_re.escape(d), _re.S))
        else: pats.append(_re.compile(d, _re.S))
    bb = bytes(b); i = 0; out = []
    while True:
        if skipws:
            while i < len(bb) and bb[i] in ws: i += 1
        if i >= len(bb): return out, ("eof", i)
        best = (-1, 0)
        for ti, pat in enumerate(pats):
            # longest prefix matched by this term
            ln = -1
            for e in range(len(bb), i, -1):
                if pat.fullmatch(bb, i, e): ln = e - i; break
            if ln > best[1]: best = (ti, ln)
        if best[0] < 0: return out, ("fail", i)
        out.append((best[0], i, best[1])); i += best[1]
