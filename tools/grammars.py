"""Grammar families for the H1 carrier harness: random grammars and forced shapes, fitted into carrier rule slots,
analysed into the grammar_info layout (stable sort by left side, slices, precedences) and written as case files."""
import json, random

ERR = "error"

class Abstract:
    """rules: list of (lhs, [symbols]) with symbols = 'a'..'f' (terms), 'S','A',.. (nonterminals), ERR.
       prec: {term: (prec, assoc)}, rule_prec: {rule index: int}"""
    def __init__(self, name, root, rules, prec=None, rule_prec=None):
        self.name, self.root, self.rules, self.prec, self.rule_prec = name, root, rules, prec or {}, rule_prec or {}

def fit(ab, cmeta, rng=None):
    """Place an abstract grammar into the carrier's slots. Returns case dict or None."""
    T, NT, slots = cmeta["terms"], cmeta["nterms"], cmeta["slots"]
    nts = []
    for l, r in ab.rules:
        for s in [l] + r:
            if s != ERR and s[0].isupper() and s not in nts: nts.append(s)
    if ab.root in nts: nts.remove(ab.root)
    nts = [ab.root] + nts
    if len(nts) > NT - 1: return None
    terms = sorted({s for _, r in ab.rules for s in r if s != ERR and s[0].islower()} | set(ab.prec))
    if len(terms) > T: return None
    tmap = {t: i for i, t in enumerate(terms)}
    if all(len(t) == 1 and 'a' <= t <= 'f' for t in terms):      # keep letters at their own index: byte 'a'+i is term i
        tmap = {t: ord(t) - 97 for t in terms}
    ntmap = {n: i for i, n in enumerate(nts)}
    pad_nt = NT - 1
    free = list(range(len(slots)))
    assign = {}
    order = list(range(len(ab.rules)))
    for ri in order:
        l, r = ab.rules[ri]
        errs = [k for k, s in enumerate(r) if s == ERR]
        cand = [s for s in free if slots[s][0] == len(r) and slots[s][1] == errs]
        if not cand: return None
        s = cand[0] if rng is None else rng.choice(cand)
        free.remove(s); assign[s] = ri
    rs, lhs, rprec = [], [], []
    for s, (ar, errs) in enumerate(slots):
        if s in assign:
            l, r = ab.rules[assign[s]]
            syms = [(1, T + 1) if x == ERR else ((1, tmap[x]) if x[0].islower() else (0, ntmap[x])) for x in r]
            lhs.append(ntmap[l]); rs.append(syms); rprec.append(ab.rule_prec.get(assign[s]))
        else:
            lhs.append(pad_nt); rs.append([(1, T + 1) if k in errs else (1, 0) for k in range(ar)]); rprec.append(None)
    tprec = [(0, 0)] * (T + 2)
    for t, (p, a) in ab.prec.items(): tprec[tmap[t]] = (p, a)
    return analyse(cmeta, rs, lhs, rprec, tprec, ntmap[ab.root], {"name": ab.name, "tmap": tmap, "ntmap": ntmap, "slots": {str(k): v for k, v in assign.items()}})

def analyse(cmeta, rs, lhs, rprec, tprec, root, info):
    T, NT = cmeta["terms"], cmeta["nterms"]
    tc, ntc, rc = T + 2, NT + 1, len(rs) + 1
    rs = rs + [[(0, root)]]; lhs = lhs + [NT]; rprec = rprec + [None]
    ris = sorted([(lhs[r], r, len(rs[r])) for r in range(rc)], key=lambda x: x[0])   # stable
    sl = [(0, 0)] * ntc
    for i, (l, r, n) in enumerate(ris):
        if sl[l] == (0, 0) and not any(ris[j][0] == l for j in range(i)): sl[l] = (i, 1)
        else: sl[l] = (sl[l][0], sl[l][1] + 1)
    rp = []
    for r in range(rc):
        last = -1
        for (t, i) in rs[r]:
            if t: last = i
        prec = rprec[r] if rprec[r] is not None else (tprec[last][0] if last >= 0 else 0)
        assoc = tprec[last][1] if last >= 0 else 0
        rp.append((prec, assoc, last))
    me = max(1, max(len(x) for x in rs[:-1]))
    return {"tc": tc, "ntc": ntc, "rc": rc, "me": me, "rs": rs, "ri": ris, "sl": sl, "tp": tprec, "rp": rp, "info": info}

def random_abstract(rng, cmeta, allow_err):
    T, NT, slots = cmeta["terms"], cmeta["nterms"], cmeta["slots"]
    nnt = rng.choice([1, 2, 2, 3, 3, 4])
    nts = ["S", "A", "B", "C"][:nnt]
    nterms = rng.choice([2, 2, 3, 3, 4, 5])
    terms = rng.sample("abcdef", nterms)
    nrules = rng.randint(2, min(10, len(slots)))
    avail = list(range(len(slots))); rng.shuffle(avail)
    if rng.random() < 0.35:      # nullable-heavy: make sure the empty-rule slots are used
        avail.sort(key=lambda s_: (slots[s_][0] != 0, rng.random()))
    rules = []
    p_nt = rng.choice([0.3, 0.45, 0.6])
    for s in avail[:nrules]:
        ar, errs = slots[s]
        if errs and not allow_err: continue
        l = rng.choice(nts)
        r = [ERR if k in errs else (rng.choice(nts) if rng.random() < p_nt else rng.choice(terms)) for k in range(ar)]
        rules.append((l, r))
    if not any(l == "S" for l, _ in rules): rules.append(("S", [rng.choice(terms)])) if any(sl[0] == 1 and not sl[1] for sl in slots) else None
    prec = {}
    if rng.random() < 0.4:
        for t in terms:
            if rng.random() < 0.7: prec[t] = (rng.randint(-2, 3), rng.choice([0, 1, 2]))
    rule_prec = {}
    if rng.random() < 0.25:
        for i in range(len(rules)):
            if rng.random() < 0.3: rule_prec[i] = rng.randint(-2, 3)
    return Abstract("rand", "S", rules, prec, rule_prec)

def random_operators(rng, cmeta):
    """operator grammars for C05 (grouping): S -> S op_i S (i < n) | atom [| l S r] [| u S], random precedence and
    associativity per operator (sometimes none), sometimes explicit rule precedences (incl. 0 and negatives)"""
    n = rng.choice([1, 2, 2, 3, 3])
    ops = rng.sample("abde", n); rules = [("S", ["S", o, "S"]) for o in ops] + [("S", ["c"])]
    shape = rng.random()
    if shape < 0.25 and n <= 2: rules.append(("S", ["f", "S", "e" if "e" not in ops else "f"]))
    elif shape < 0.45 and n <= 2: rules.append(("S", ["f", "S"]))
    prec = {}
    for o in ops:
        if rng.random() < 0.85: prec[o] = (rng.randint(-2, 3), rng.choice([0, 1, 1, 2]))
    if rng.random() < 0.3: prec["f"] = (rng.randint(-2, 4), rng.choice([0, 1, 2]))
    rule_prec = {}
    if rng.random() < 0.35:
        for i in range(len(rules)):
            if rng.random() < 0.4: rule_prec[i] = rng.randint(-2, 3)
    rng.shuffle(rules) if rng.random() < 0.5 and not rule_prec else None
    return Abstract("rand-ops", "S", rules, prec, rule_prec)

# forced shapes named in the properties (each must fit carrier slots: arities <= 4, at most the available count per arity)
FORCED = [
    Abstract("D1-mutual-left-rec", "S", [("S", ["C","A","a"]), ("S", ["b","C","B","c"]), ("A", ["B","d"]), ("A", ["e"]), ("B", ["A","f"]), ("B", ["a"]), ("C", [])]),
    Abstract("D2-slice-stride", "S", [("S", ["a","A"]), ("B", ["b"]), ("A", ["C","B"]), ("C", []), ("C", ["c"])]),
    Abstract("D3-closure-memo", "S", [("S", ["a","B","b"]), ("S", ["a","A","c"]), ("S", ["d","A","c"]), ("A", ["B","b"]), ("B", ["e"])]),
    Abstract("LR1-not-LALR", "S", [("S", ["a","A","a"]), ("S", ["b","A","b"]), ("S", ["a","B","b"]), ("S", ["b","B","a"]), ("A", ["e"]), ("B", ["e"])]),
    Abstract("left-rec-list", "S", [("S", []), ("S", ["S","a"])]),
    Abstract("right-rec-list", "S", [("S", []), ("S", ["a","S"])]),
    Abstract("unit-chain", "S", [("S", ["A"]), ("A", ["B"]), ("B", ["a"]), ("B", ["b","S","c"])]),
    Abstract("nullable-prefixes", "S", [("S", ["A","B","a"]), ("A", []), ("A", ["b"]), ("B", []), ("B", ["c"])]),
    Abstract("first-through-nullable", "S", [("S", ["A", "B", "b"]), ("A", ["a"]), ("B", ["C", "c"]), ("C", []), ("C", ["d"])]),
    Abstract("first-through-nullable-2", "S", [("S", ["A", "B"]), ("A", ["a"]), ("B", ["C", "b"]), ("C", []), ("C", ["c"])]),
    Abstract("first-through-two-nullables", "S", [("S", ["a", "A", "B", "e"]), ("A", ["C", "C", "b"]), ("B", ["C", "d"]), ("C", []), ("C", ["c"])]),
    Abstract("nullable-then-nonnullable-tail", "S", [("S", ["A", "B", "c"]), ("A", ["a"]), ("B", []), ("B", ["b"])]),
    Abstract("shared-closure-child", "S", [("S", ["A"]), ("S", ["d", "B"]), ("A", ["C", "e"]), ("A", ["B"]), ("B", ["C", "e", "f"]), ("C", ["c"])]),
    Abstract("shift-and-two-reductions", "S", [("S", ["A", "a"]), ("S", ["B", "b"]), ("S", ["C"]), ("A", ["c"]), ("B", ["c"]), ("C", ["c", "a"])]),
    Abstract("nullable-run", "S", [("S", ["A","A","A","b"]), ("A", [])]),
    Abstract("expr-prec", "S", [("S", ["S","a","S"]), ("S", ["S","b","S"]), ("S", ["c"]), ("S", ["d","S","e"])], {"a": (1, 1), "b": (2, 1)}),
    Abstract("expr-rtol", "S", [("S", ["S","a","S"]), ("S", ["S","b","S"]), ("S", ["c"])], {"a": (1, 2), "b": (1, 2)}),
    Abstract("expr-noassoc", "S", [("S", ["S","a","S"]), ("S", ["c"])], {"a": (1, 0)}),
    Abstract("unary-rule-prec", "S", [("S", ["S","a","S"]), ("S", ["b","S"]), ("S", ["c"])], {"a": (1, 1), "b": (5, 0)}, {1: 0}),
    Abstract("unary-rule-prec-high", "S", [("S", ["S","a","S"]), ("S", ["b","S"]), ("S", ["c"])], {"a": (1, 1), "b": (1, 1)}, {1: 3}),
    Abstract("dangling-else", "S", [("S", ["c"]), ("S", ["a","S"]), ("S", ["a","S","b","S"])]),
    Abstract("rr-conflict", "S", [("S", ["A"]), ("S", ["B"]), ("A", ["a"]), ("B", ["a"])]),
    Abstract("accept-reduce-D12", "S", [("S", ["b"]), ("S", ["A"]), ("A", ["S"])]),
    Abstract("nonproductive", "S", [("S", ["a"]), ("S", ["b","A"]), ("A", ["A","c"])]),
    Abstract("no-rules-nterm", "S", [("S", ["a"]), ("S", ["b","A"])]),
    Abstract("recovery-readme", "S", [("S", []), ("S", ["S","A","a"]), ("S", ["S",ERR,"a"]), ("A", ["A","b","A"]), ("A", ["c"])], {"b": (1, 1)}),
    Abstract("recovery-nested", "S", [("S", []), ("S", ["S","A","a"]), ("S", ["S",ERR,"a"]), ("A", ["A","b","A"]), ("A", ["d","A","e"]), ("A", ["d",ERR,"e"]), ("A", ["c"])], {"b": (1, 1)}),
    Abstract("recovery-first", "S", [("S", [ERR,"a"]), ("S", ["b","S"]), ("S", ["c"])]),
    Abstract("recovery-reduce-on-error-after-pop", "S", [("S", []), ("S", ["S","A"]), ("A", ["B"]), ("A", [ERR,"a"]), ("B", ["b"]), ("B", ["b","c","b","d"])]),
    Abstract("recovery-lone-error", "S", [("S", ["A","a"]), ("A", [ERR]), ("A", ["b"])]),
]

def write_case(f, cid, cname, cmeta, case, lex, inputs):
    lim = cmeta["limits"] or (0, 0)
    f.write(f"CASE {cid}\nCARRIER {cname}\n")
    f.write("CINFO %d %d %d %d %s\n" % (1 if cmeta["lexer"] == "generated" else 0, lim[0], lim[1], len(cmeta["contextual"]), " ".join("1" if x else "0" for x in cmeta["contextual"])))
    f.write(f"DIM {case['tc']} {case['ntc']} {case['rc']} {case['me']}\n")
    for r, syms in enumerate(case["rs"]):
        f.write(f"RS {r} {len(syms)} " + " ".join(f"{t} {i}" for t, i in syms) + "\n")
    for l, r, n in case["ri"]: f.write(f"RI {l} {r} {n}\n")
    for a, b in case["sl"]: f.write(f"SL {a} {b}\n")
    for p, a in case["tp"]: f.write(f"TP {p} {a}\n")
    for p, a, l in case["rp"]: f.write(f"RP {p} {a} {l}\n")
    f.write("LEX " + " ".join(str(x) for x in lex[0]) + " " + " ".join(str(x) for x in lex[1]) + "\n")
    for (v, w, n, b) in inputs:
        f.write(f"IN {v} {w} {n} {len(b)} " + " ".join(str(x) for x in b) + "\n")
    f.write("END\n")

def default_lex(T):
    term = [-1] * 256; ln = [1] * 256
    for i in range(T):
        term[97 + i] = i; ln[97 + i] = 1            # 'a'+i : one byte
        term[65 + i] = i; ln[65 + i] = 2            # 'A'+i : two bytes (the second byte is arbitrary, may be a newline)
        term[48 + i] = i; ln[48 + i] = 3            # '0'+i : three bytes
    return term, ln
