#!/bin/bash
# confirm_mutation.sh <worktree> <mutation dir>: confirms (1) tests pass with the change, (2) demo fails with it, (3) demo passes without.
wt=$1; m=$2; out=$m/confirm.txt; : > $out
cd $wt && git checkout -q -- include/ctpg/ctpg.hpp
g++ -std=c++17 -I $wt/include -o $m/demo_orig $m/demo.cpp > $m/demo_orig.log 2>&1; $m/demo_orig > $m/demo_orig.out 2>&1; echo "demo_without_change_exit=$?" >> $out
git apply $m/patch.diff || { echo "patch_does_not_apply" >> $out; exit 1; }
g++ -std=c++17 -I $wt/include -o $m/demo_mut $m/demo.cpp > $m/demo_mut.log 2>&1; timeout 120 $m/demo_mut > $m/demo_mut.out 2>&1; echo "demo_with_change_exit=$?" >> $out
b=$wt/_bc; rm -rf $b; cmake -G Ninja -S $wt -B $b -DCMAKE_BUILD_TYPE=Release > /dev/null 2>&1 && cmake --build $b > $b.log 2>&1; ctest --test-dir $b -j4 2>&1 | grep "tests passed" >> $out || echo "tests_failed_or_did_not_build" >> $out
rm -rf $b $b.log $m/demo_orig $m/demo_mut
git checkout -q -- include/ctpg/ctpg.hpp
cat $out
