#!/usr/bin/env python3
"""append_props.py: appends theorems to the hand-written Props files (C01 C03 C04 C09 C17) the same way gen_props.py writes the
generated ones: the statement is printed by Coq from the proved lemma and closed with `exact @lemma`. Idempotent."""
import subprocess, re, os, sys
COQ = os.path.join(os.path.dirname(os.path.dirname(os.path.abspath(__file__))), "coq")
EXTRA = {"C17": ["Ctpg.Model.RegexFront", "Ctpg.Proofs.UtilsRegexLink"], "C03": ["Ctpg.Model.RegexFront", "Ctpg.Proofs.UtilsRegexLink", "Ctpg.Model.Dfa", "Ctpg.Model.Containers", "Ctpg.Proofs.LRGenWordsRefine", "Ctpg.Proofs.CharsetWordsRefine", "Ctpg.Proofs.KernelWordsRefine", "Ctpg.Proofs.MergedFromLink"], "C04": ["Ctpg.Model.Driver", "Ctpg.Proofs.UtilsDriverLink"], "C01": ["Ctpg.Model.LRGen", "Ctpg.Model.LRGenWords", "Ctpg.Proofs.LRGenWordsRefine", "Ctpg.Proofs.GenWf", "Ctpg.Proofs.GenClosure", "Ctpg.Proofs.KernelWordsRefine", "Ctpg.Proofs.ClosureWordsRefine"]}
BASE = ["Ctpg.Base.Prelude", "Ctpg.Model.Grammar", "Ctpg.Model.Containers", "Ctpg.Model.Utils", "Ctpg.Proofs.ContainersBits", "Ctpg.Proofs.ContainersVec", "Ctpg.Proofs.ContainersSort", "Ctpg.Proofs.UtilsCorrect"]
def coq_type(imports, lemma):
    src = "".join(f"Require Import {m}.\n" for m in imports) + "Set Printing Width 100000.\nSet Printing Depth 100000.\n" + f"Check @{lemma}.\n"
    open(f"{COQ}/Dbg_chk2.v", "w").write(src)
    out = subprocess.run(f"cd {COQ} && coqc -Q . Ctpg Dbg_chk2.v", shell=True, capture_output=True, text=True).stdout
    for ext in (".v", ".vo", ".vok", ".vos", ".glob"):
        try: os.remove(f"{COQ}/Dbg_chk2{ext}")
        except OSError: pass
    m = re.search(r"^@?%s\s*:\s*(.*)\Z" % re.escape(lemma), out, re.S | re.M)
    if not m: raise SystemExit(f"cannot get type of {lemma}: {out[-500:]}")
    return " ".join(m.group(1).split())
ADD = {
 "C01": [("C01_item_and_lookahead_sets_are_sets_of_indices", "cb_run_refines", "BELOW THE GENERATOR MIRROR (word-level mirror of namespace stdex, tied to the real templates by kernel-checked observations): for every size N and EVERY sequence of cbitset operations, test(j) answers membership in the set of indices the operations describe - the 64-bit word arithmetic (idx / 64, 1 << idx % 64, masks) is exact across word boundaries"),
         ("C01_bitset_insert_is_the_models_insert", "cb_abs_set", "set(i) is Prelude.bset_set on the abstraction the generator mirror uses"),
         ("C01_bitset_union_is_the_models_union", "cb_abs_add", "add(other) is Prelude.bset_or (FIRST-set propagation, closure lookaheads)"),
         ("C01_bitset_test_is_the_models_test", "cb_abs_test", "test(i) is Prelude.bset_test"),
         ("C01_generator_bitsets_keep_clean_padding", "cb_run_clean_without_whole_set_ops", "the generator never calls the whole-set set() / flip(): the padding bits of the last word stay 0"),
         ("C01_bitset_equality_is_set_equality", "cb_eqb_iff_same_set", "hence operator== (state identity: 'is this item set already a state') is equality of the sets"),
         ("C01_bitset_equality_with_polluted_padding_refuted", "cb_eqb_padding_refuted", "REFUTED without that: after the whole-set set() on a size that is not a multiple of 64, operator== distinguishes equal sets (not reachable from the generator; character sets have 256 bits)"),
         ("C01_rule_sort_is_the_models_stable_sort", "stdex_sort_is_sort_ris", "stdex::sort (bubble sort, swap on strict <) on rule_infos terminates within size passes and yields exactly the stable sort by left side that Grammar.analyze uses: rules of one nonterminal stay contiguous and in the order written"),
         ("C01_nullable_and_first_sets_on_64_bit_words_are_the_models", "w_first_sets_refine", "LINK (the generator's fixpoints on the real representation): the nullable and FIRST computations of the generator mirror, re-expressed on cbitset words with cb_new / cb_set / cb_test / cb_add and operator== exactly where the C++ uses them (Model/LRGenWords.v), return for EVERY grammar with in-range symbols the sets the abstract mirror computes - including the termination test `before == after` of the FIRST fixpoint, which is set equality because these sets keep clean padding"),
         ("C01_first_sets_on_words_refine", "w_nterm_first_refines", "the FIRST table alone, from any nullable set"),
         ("C01_an_out_of_range_symbol_throws_at_word_level", "out_of_range_throws", "the range hypothesis is necessary: the list model ignores an out-of-range index, the word level throws 'Index access out of range' (what makes an undeclared symbol a construction failure)"),
         ("C01_closure_children_on_words_are_the_models", "w_closure_children_refines_in_range", "LINK (closure): the direct closure children of an item - FIRST of the rest of the rule as a cbitset, one test per term, the item's own lookahead when the rest is nullable and not in FIRST, with the short-circuit of the C++ `&&` - computed on words equal LRGen.closure_children for every grammar with in-range symbols"),
         ("C01_state_identity_on_words_is_the_models_same_items", "kernel_equality_is_same_items", "LINK (state identity): `states[i].kernel == kernel` on the item-index bitsets the real code builds with set(make_situation_idx(..)) decides exactly LRGen.same_items on the kernels as item lists - for every grammar and all kernels of in-range items (index injectivity + clean padding)"),
         ("C01_kernel_bitset_is_the_item_set", "w_kernel_ok", "the bitset built from a kernel has exactly the bits of its items"),
         ("C01_symbol_names_are_compared_as_whole_strings", "str_equal_spec", "utils::str_equal on C strings = equality of the strings up to their terminators, nothing behind a terminator is read"),
         ("C01_a_proper_prefix_is_not_the_same_name", "str_equal_proper_prefix", "in particular a declared name that is a proper prefix of the looked-up name is not a match"),
         ("C01_symbol_lookup_is_the_models_find_str", "find_str_c_spec", "utils::find_str over a table of C strings = Grammar.find_str on identifiers: the first equal name, 'string not found' otherwise")],
 "C03": [("C03_character_sets_are_sets_of_bytes", "cb_run_refines", "char_subset is a cbitset<256>: for EVERY sequence of operations (set, ranges as repeated set, whole-set flip for '.' and inverted sets) test(j) is membership in the described set of bytes"),
         ("C03_inverted_sets_on_words_are_the_models", "w_cs_flip_rel", "LINK (character sets): char_subset::flip() on the four 64-bit words is the model's cs_flip ('.' and inverted sets), for every set"),
         ("C03_ranges_on_words_are_the_models", "w_cs_add_range_rel", "add_range (the loop of set(i) for i = c1..c2) on words is the model's cs_add_range, also for an empty range c1 > c2"),
         ("C03_set_membership_on_words_is_the_models", "w_cs_test_rel", "test(c) on words is the model's membership"),
         ("C03_inverted_set_example_on_words", "ex_neg_abc_tests", "[^a-c] computed on words: 0xC8 and 0xFF are members, index 256 throws"),
         ("C03_merged_from_on_words_is_the_models_list", "merged_fold_sim", "LINK (builder): `if (merged_from.test(from)) return; merged_from.set(from);` on the words of the state's bitset stays related to the model's `if mem_nat from l then l else from :: l` over any sequence of merges"),
         ("C03_whole_set_flip_is_exact_for_256_bits", "cb_run_clean_multiple_of_64", "256 is a multiple of 64: no padding bits exist, flip() and set() are exact"),
         ("C03_hex_escapes_decode_to_their_value", "hex_digits_to_char_spec", "regex::hex_digits_to_char on two hex digits is 16 * v1 + v2 (as a byte, also for values >= 0x80 where char is negative)"),
         ("C03_front_end_hex_decoding_is_the_real_one", "front_end_hex_decoding_is_the_real_one", "LINK (pattern front end): the model's unsigned hex decoding of \\xHH equals the signed-char computation of regex::hex_digits_to_char on all hex digit pairs"),
         ("C03_hex_digit_class", "is_hex_digit_spec", "utils::is_hex_digit on signed chars = the three ASCII ranges"),
         ("C03_dec_digit_class", "is_dec_digit_spec", "utils::is_dec_digit = '0'..'9'")],
 "C04": [("C04_nul_is_never_whitespace", "find_char_nul", "skip_whitespace asks utils::find_char(byte, table): a NUL byte is never found in a NUL-terminated table - embedded NULs are not skipped"),
         ("C04_whitespace_test_is_membership_in_the_table", "find_char_member", "for every other byte, found <-> the byte is one of the table's characters"),
         ("C04_find_char_reads_nothing_behind_the_terminator", "find_char_spec", "the result depends only on the string up to its terminator"),
         ("C04_the_driver_models_whitespace_test_is_the_real_one", "is_ws_is_find_char", "LINK: the driver model's is_ws (membership in the list the options select) is exactly 'find_char(byte, NUL-terminated table) found something', for every byte and every option set - so the theorems about skipping (C04, C10, C18) speak about the real test")],
 "C09": [("C09_byte_names_in_messages", "char_name_spec", "utils::char_names (the byte printed by 'Unexpected character'): printable bytes 33..126 are themselves, every other byte (space, control, >= 0x80) is \\\\xHH in upper-case hex"),
         ("C09_byte_names_identify_the_byte", "char_name_injective", "distinct bytes have distinct names")],
 "C17": [("C17_printable_class", "is_printable_spec", "utils::is_printable on signed chars: exactly 0x20..0x7e - bytes >= 0x80 are negative chars and are refused as raw pattern bytes"),
         ("C17_front_end_classes_are_the_signed_char_classes", "front_end_classes_are_the_signed_char_classes", "LINK (pattern front end): the classes the model's regex_lexer uses (unsigned comparisons on 0..255) are the signed-char classes of utils:: on every byte"),
         ("C17_high_bytes_belong_to_no_class", "high_bytes_no_class", "bytes 128..255 are neither printable nor digits")],
}
for pid, thms in ADD.items():
    if len(sys.argv) > 1 and pid not in sys.argv[1:]: continue
    path = f"{COQ}/Props/Properties_{pid}.v"
    text = open(path).read()
    marker = "(* ---- namespace stdex / utils below the model (appended by tools/append_props.py) *)"
    if marker in text: text = text[:text.index(marker)].rstrip("\n") + "\n"
    imports = BASE + EXTRA.get(pid, [])
    L = ["", marker] + [f"Require Import {m}." for m in imports]
    for name, lemma, comment in thms:
        ty = coq_type(imports, lemma)
        L.append(f"\n(* {comment} *)\nTheorem {name} :\n  {ty}.\nProof. exact @{lemma}. Qed.\nPrint Assumptions {name}.")
    open(path, "w").write(text + "\n".join(L) + "\n")
    r = subprocess.run(f"cd {COQ} && timeout 900 coqc -Q . Ctpg Props/Properties_{pid}.v", shell=True, capture_output=True, text=True)
    print(pid, "ok" if r.returncode == 0 else "FAILED", (r.stdout + r.stderr)[-600:] if r.returncode else "")
