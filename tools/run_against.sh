#!/bin/bash
# run_against.sh <patch.diff> <check id>... : applies a seeded change to /repo, runs the checks, undoes it. Prints one line per check.
patch=$1; shift
cd /repo && git diff --quiet || { echo "/repo is not clean"; exit 2; }
git apply $patch || { echo "patch does not apply"; exit 2; }
for id in "$@"; do
  out=$(cd /verif && timeout 3000 ./check $id --tier quick 2>&1); rc=$?
  echo "$id rc=$rc $(echo "$out" | grep -a '^VIOLATION' | head -1 | cut -c1-150) $(echo "$out" | grep -a '^CHECK-BROKEN' | head -1 | cut -c1-200)"
  [ -f /verif/replays/${id}_quick_1.json ] && cp /verif/replays/${id}_quick_1.json /tmp/last_replay_${id}.json
done
cd /repo && git checkout -- . && git diff --quiet && echo "repo restored"
