#!/bin/bash
# Runs the repository's own 56-test suite with the verification guard OFF (no -DCTPG_VERIF).
# Build dir lives outside /repo and /verif and is removed afterwards unless KEEP=1.
set -e
B=${BASELINE_BUILD_DIR:-/var/tmp/ctpg_baseline_build}
mkdir -p "$B"
cmake -G Ninja -S /repo -B "$B" -DCMAKE_BUILD_TYPE=Release > "$B/cmake.log" 2>&1 || { cat "$B/cmake.log"; exit 2; }
cmake --build "$B" > "$B/build.log" 2>&1 || { tail -50 "$B/build.log"; exit 2; }
ctest --test-dir "$B" -j8 --timeout 900 2>&1 | tail -5
rc=${PIPESTATUS[0]}
[ "${KEEP:-0}" = 1 ] || rm -rf "$B"
exit $rc
