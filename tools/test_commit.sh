#!/bin/bash
# test_commit.sh <sha>: run the repo's 56 tests (guard OFF) on a given /repo commit in a scratch copy.
sha=$1; D=/var/tmp/ctpg_t_$sha; rm -rf $D; mkdir -p $D/src
git -C /repo archive $sha | tar -x -C $D/src
cmake -G Ninja -S $D/src -B $D/b -DCMAKE_BUILD_TYPE=Release > $D/cmake.log 2>&1 && cmake --build $D/b > $D/build.log 2>&1 || { echo "$sha BUILD FAILED"; tail -30 $D/build.log; rm -rf $D; exit 2; }
out=$(ctest --test-dir $D/b -j8 --timeout 900 2>&1 | tail -4)
echo "$sha: $out" | tr '\n' ' '; echo
rm -rf $D
