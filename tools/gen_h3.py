#!/usr/bin/env python3
"""usage: gen_h3.py <out.cpp> <out.cases> <seed> <n_parsers> <n_inputs> [meta.json]
Generates one C++ translation unit that defines parsers through the public DSL (names with prefix relations, char /
string / regex terms, precedences, [n] with >= and >>=, default functors, error rules, a constexpr parser) and the
matching case file for the extracted model (raw grammar: names and ids as the user wrote them)."""
import sys, json, random

NT_POOL = [["list", "list_tail", "item"], ["e", "expr", "expr_list"], ["n1", "n10", "n"], ["S", "A", "B", "C"], ["stmt", "stmts", "s"], ["a", "ab", "abc"]]
ASSOC = ["associativity::no_assoc", "associativity::ltor", "associativity::rtol"]

def cstr(bs): return '"' + "".join(("\\x%02x\" \"" % b) if (b < 32 or b > 126 or chr(b) in '"\\') else chr(b) for b in bs) + '"'
def cchar(b): return "'\\''" if b == 39 else ("'\\\\'" if b == 92 else "'%s'" % chr(b))
def char_id(c): return [c] if 32 < c < 127 else [92, 120] + [ord(x) for x in "%X%X" % (c // 16, c % 16)]

def forced_parser(rng, k, constexpr):
    """keywords before an identifier pattern, a char that prefixes a string, a number with an optional fraction"""
    T = lambda kind, data, name=None, prec=0, assoc=0: {"kind": kind, "data": [ord(c) for c in data], "id": ([114, 95] + [ord(c) for c in data]) if kind == 2 else ([ord(c) for c in data] if kind == 1 else char_id(ord(data))),
                                                        "name": [ord(c) for c in (name or data)] if kind == 2 else ([ord(c) for c in data] if kind == 1 else char_id(ord(data))), "prec": prec, "assoc": assoc}
    layouts = [
        [T(1, "while"), T(1, "wh"), T(2, "[a-z]+", "id"), T(0, ";")],
        [T(1, "if"), T(1, "ifx"), T(2, "[a-z]+", "id"), T(2, "[0-9]+(\\.[0-9]+)?", "num"), T(0, "."), T(1, "..")],
        [T(2, "[a-z]+", "word"), T(1, "end"), T(0, ";"), T(2, "[0-9]", "digit"), T(0, "0"), T(1, "be")],      # regex terms listed BEFORE char/string terms they tie with: the regex wins
        [T(1, "ab"), T(2, "[a-c]+", "id"), T(0, "<"), T(1, "<="), T(1, "<<=")],
        [T(2, "[0-9]+", "int"), T(2, "[0-9]+\\.[0-9]+", "real"), T(0, "."), T(2, "[a-z][a-z0-9]*", "id")],
    ]
    terms = layouts[k % len(layouts)]
    nts = ["list", "item"]
    rules = [{"lhs": "list", "rhs": [(0, "item")], "prec_given": False, "prec": 0, "ctx": False, "default": True},
             {"lhs": "list", "rhs": [(0, "list"), (0, "item")], "prec_given": False, "prec": 0, "ctx": True, "default": False}]
    for i in range(len(terms)): rules.append({"lhs": "item", "rhs": [(1, i)], "prec_given": False, "prec": 0, "ctx": False, "default": False})
    return {"id": k, "nts": nts, "root": "list", "terms": terms, "rules": rules, "constexpr": constexpr}

def forced_parser2(rng, constexpr):
    """a conflict-free grammar written with the DSL features that only the glue sees: nonterminal names in prefix relation declared in
    both orders, a declared nonterminal WITHOUT rules in the middle of nterms(...), rules listed out of left-side order, a string term
    that extends a char term; the language oracle (Earley on the rules as written) judges every verdict"""
    C = lambda c: {"kind": 0, "data": [ord(c)], "id": char_id(ord(c)), "name": char_id(ord(c)), "prec": 0, "assoc": 0}
    S = lambda s_: {"kind": 1, "data": [ord(c) for c in s_], "id": [ord(c) for c in s_], "name": [ord(c) for c in s_], "prec": 0, "assoc": 0}
    terms = [C(","), C("("), C(")"), C("x"), S("xy"), C(";")]
    variant = rng.randrange(3)
    nts = [["expr_list", "unused", "expr", "e"], ["e", "expr", "unused", "expr_list"], ["unused", "expr_list", "e", "expr"]][variant]
    R = lambda l, rhs, ctx=False, default=False: {"lhs": l, "rhs": rhs, "prec_given": False, "prec": 0, "ctx": ctx, "default": default}
    rules = [R("e", [(1, 3)]), R("expr_list", [(0, "expr_list"), (1, 0), (0, "expr")], ctx=True), R("expr", [(1, 1), (0, "expr_list"), (1, 2)]),
             R("e", [(1, 4)]), R("expr_list", [(0, "expr")], default=True), R("expr", [(0, "e")], default=True), R("expr", [(0, "e"), (1, 5)])]
    return {"id": 2, "nts": nts, "root": "expr_list", "terms": terms, "rules": rules, "constexpr": constexpr}

def gen_parser(rng, k, constexpr):
    if k == 1: return forced_parser(rng, FORCED_LAYOUT[0], constexpr) | {"id": k}
    if k == 2: return forced_parser2(rng, constexpr)
    nts = list(rng.choice(NT_POOL)); rng.shuffle(nts); nts = nts[:rng.randint(1, len(nts))]
    root = nts[0]
    terms = []
    used_ids = set()
    def add(t):
        if tuple(t["id"]) in used_ids: return
        used_ids.add(tuple(t["id"])); terms.append(t)
    letters = [ord(c) for c in "abcdxyz+-*;,()<=>"]
    for _ in range(rng.randint(2, 5)):
        kind = rng.choice("ccccssr")
        prec = rng.choice([0, 0, 0, 1, 2, 3, -1]); assoc = rng.choice([0, 0, 1, 1, 2]) if prec else rng.choice([0, 0, 0, 1])
        if kind == "c":
            c = rng.choice(letters); add({"kind": 0, "data": [c], "id": char_id(c), "name": char_id(c), "prec": prec, "assoc": assoc})
        elif kind == "s":
            s = [rng.choice(letters[:7]) for _ in range(rng.randint(1, 3))]
            if rng.random() < 0.4 and terms and terms[-1]["kind"] == 0: s = terms[-1]["data"] + s[:1]      # a string that extends an earlier char term ('<' then "<=")
            add({"kind": 1, "data": s, "id": s, "name": s, "prec": prec, "assoc": assoc})
        else:
            pat = rng.choice(["[0-9]+", "[a-c]+", "x+y", "[ab]c?", "(ab)+", "z|zz", "[0-9]+\\.[0-9]+", "[0-9]+(\\.[0-9]+)?", "\"[^\"]*\""])
            pb = [ord(c) for c in pat]; nm = [ord(c) for c in rng.choice(["num", "id", "tok"])]
            add({"kind": 2, "data": pb, "id": [114, 95] + pb, "name": nm, "prec": prec, "assoc": assoc})
    rules = []
    nrules = rng.randint(2, 7)
    for _ in range(nrules):
        lhs = rng.choice(nts); n = rng.choice([0, 1, 1, 2, 2, 3, 3, 4])
        rhs = []
        for _ in range(n):
            x = rng.random()
            if x < 0.45: rhs.append((0, rng.choice(nts)))
            elif x < 0.95 or rng.random() < 0.7: rhs.append((1, rng.randrange(len(terms))))
            else: rhs.append((2, None))
        default = (n == 1 and rhs[0][0] == 0 and rng.random() < 0.5)
        pg = rng.random() < 0.3 and not default
        rules.append({"lhs": lhs, "rhs": rhs, "prec_given": pg, "prec": rng.choice([0, 0, 1, 2, 3, -1]) if pg else 0, "ctx": (not default) and rng.random() < 0.4, "default": default})
    if not any(r["lhs"] == root for r in rules): rules.append({"lhs": root, "rhs": [(1, 0)], "prec_given": False, "prec": 0, "ctx": False, "default": False})
    return {"id": k, "nts": nts, "root": root, "terms": terms, "rules": rules, "constexpr": constexpr}

def cpp_parser(p):
    k = p["id"]; L = [f"namespace P{k} {{"]
    for i, n in enumerate(p["nts"]): L.append(f'constexpr nterm<std::string> n{i}("{n}");')
    for i, t in enumerate(p["terms"]):
        pa = f", {t['prec']}, {ASSOC[t['assoc']]}" if (t["prec"] or t["assoc"]) else ""
        if t["kind"] == 0: L.append(f"constexpr char_term t{i}({cchar(t['data'][0])}{pa});")
        elif t["kind"] == 1: L.append(f"constexpr string_term t{i}({cstr(t['data'])}{pa});")
        else:
            L.append(f"constexpr char pat{i}[] = {cstr(t['data'])};")
            L.append(f'constexpr regex_term<pat{i}> t{i}({cstr(t["name"])}{pa});' if (t["prec"] or t["assoc"]) else f'constexpr regex_term<pat{i}> t{i}({cstr(t["name"])});')
    ntidx = {n: i for i, n in enumerate(p["nts"])}
    rl = []
    for r, ru in enumerate(p["rules"]):
        args = ", ".join(("n%d" % ntidx[v]) if kd == 0 else (("t%d" % v) if kd == 1 else "error") for kd, v in ru["rhs"])
        s = f"n{ntidx[ru['lhs']]}({args})"
        if ru["prec_given"]: s += f"[{ru['prec']}]"
        if not ru["default"]: s += (f" >>= h3::FC<{r}>{{}}" if ru["ctx"] else f" >= h3::F<{r}>{{}}")
        rl.append(s)
    terms = ", ".join(f"t{i}" for i in range(len(p["terms"]))); nts = ", ".join(f"n{i}" for i in range(len(p["nts"])))
    body = f"parser(n{ntidx[p['root']]}, terms({terms}), nterms({nts}), rules(\n    " + ",\n    ".join(rl) + "))"
    if p["constexpr"]: L.append(f"constexpr auto p = {body};\ninline const auto& get() {{ return p; }}\n// the same parser constructed at run time (C07: both must be the same object and behave alike)\ninline const auto& get_rt() {{ static const auto q = h3::at_run_time([] {{ return {body}; }}); return q; }}")
    else: L.append(f"inline const auto& get() {{ static const auto p = h3::at_run_time([] {{ return {body}; }}); return p; }}")
    L.append("}")
    return "\n".join(L)

def gen_inputs(rng, p, n):
    toks = []
    for t in p["terms"]:
        if t["kind"] != 2: toks.append(t["data"])
        else:
            pat = bytes(t["data"]).decode()
            toks.append([ord(c) for c in {"[0-9]+": "42", "[a-c]+": "abc", "x+y": "xxy", "[ab]c?": "ac", "(ab)+": "abab", "z|zz": "zz", "[0-9]+\\.[0-9]+": "3.14", "[0-9]+(\\.[0-9]+)?": "2.5", "[a-z]+": rng.choice(["whil", "w", "whilex", "i", "ifxy", "abc", "end", "be", "end"]), "[0-9]": rng.choice(["0", "7", "0"]), "[a-z][a-z0-9]*": "x1", "\"[^\"]*\"": "\"a\nb\""}[pat]])
    by_l = {}
    for r in p["rules"]: by_l.setdefault(r["lhs"], []).append(r)
    def derive(sym, depth, out):
        kd, v = sym
        if kd == 1: out.append(v); return True
        if kd == 2: return False
        rs = by_l.get(v, [])
        if not rs or depth > 14: return False
        if depth > 5: rs = sorted(rs, key=lambda r: len(r["rhs"]))[:1]
        r = rng.choice(rs)
        for s_ in r["rhs"]:
            if not derive(s_, depth + 1, out) or len(out) > 30: return False
        return True
    ins = [([], 6)]
    for _ in range(n):
        out = []
        if not derive((0, p["root"]), 0, out): out = [rng.randrange(len(toks)) for _ in range(rng.randint(0, 6))]
        if rng.random() < 0.35 and out:
            op = rng.choice(["del", "dup", "ins"]); pos = rng.randrange(len(out))
            if op == "del": out.pop(pos)
            elif op == "dup": out.insert(pos, out[pos])
            else: out.insert(pos, rng.randrange(len(toks)))
        b = []
        for ti in out:
            tk = toks[ti]
            if rng.random() < 0.08 and len(tk) > 1: tk = tk[:-1]            # a truncated lexeme: the scanner walks on and must fall back
            b += tk
            if rng.random() < 0.5: b += rng.choice([[32], [10], [9], [32, 10]])
            if rng.random() < 0.03: b += rng.choice([[63], [0], [200]])
        ins.append((b, rng.choice([6, 7, 7, 3, 2, 4, 5])))
    # always: lexemes cut short, so that the scanner walks beyond the last accepting state and has to fall back (overscan), in the
    # middle of a line and after a newline - once verbose, once quiet
    for ti, t in enumerate(p["terms"]):
        tk = toks[ti]
        if len(tk) < 2: continue
        for tj in sorted({0, ti, len(toks) - 1}):
            ins.append((tk[:-1] + toks[tj], 7)); ins.append((toks[tj] + [10, 32] + tk[:-1] + [32] + tk, 6))
    return ins

def w_bytes(bs): return f"{len(bs)} " + " ".join(str(b) for b in bs)

FORCED_LAYOUT = [0]
def main():
    outc, outcases, seed, npars, nin = sys.argv[1], sys.argv[2], int(sys.argv[3]), int(sys.argv[4]), int(sys.argv[5])
    FORCED_LAYOUT[0] = seed % 5
    rng = random.Random(seed)
    ps = [gen_parser(rng, k, constexpr=(k == 0)) for k in range(npars)]
    meta = {}
    with open(outc, "w") as f, open(outcases, "w") as g:
        f.write('#include "h3_common.hpp"\nusing namespace ctpg;\n')
        for p in ps: f.write(cpp_parser(p) + "\n")
        f.write("static void* real_main(void*) {\n")
        for p in ps:
            ins = gen_inputs(rng, p, nin)
            f.write("  { std::vector<std::pair<std::string, int>> ins = {" + ", ".join("{std::string(%s, %d), %d}" % (cstr(b), len(b), fl) for b, fl in ins) + "};\n")
            f.write(f'    h3::run_parser("{p["id"]}", P{p["id"]}::get(), ins, std::cout);\n')
            if p["constexpr"]: f.write(f'    h3::run_parser("{p["id"]}r", P{p["id"]}::get_rt(), ins, std::cout);\n')
            f.write("  }\n")
            g.write(f"CASE {p['id']}\nRAW\n")
            for t in p["terms"]: g.write(f"TERMD {t['kind']} {w_bytes(t['id'])} {w_bytes(t['name'])} {t['prec']} {t['assoc']} {w_bytes(t['data'])}\n")
            for n in p["nts"]: g.write(f"NTERM {w_bytes([ord(c) for c in n])}\n")
            g.write(f"ROOT {w_bytes([ord(c) for c in p['root']])}\n")
            for ru in p["rules"]:
                syms = " ".join((f"0 {w_bytes([ord(c) for c in v])}" if kd == 0 else (f"1 {w_bytes(p['terms'][v]['id'])}" if kd == 1 else "2 0")) for kd, v in ru["rhs"])
                g.write(f"RULE {w_bytes([ord(c) for c in ru['lhs']])} {len(ru['rhs'])} {syms} {int(ru['prec_given'])} {ru['prec']} {int(ru['ctx'])} {int(ru['default'])}\n")
            for b, fl in ins: g.write(f"IN {fl} {w_bytes(b)}\n")
            g.write("END\n")
            meta[str(p["id"])] = {"nts": p["nts"], "root": p["root"], "terms": [{k: v for k, v in t.items()} for t in p["terms"]], "rules": p["rules"], "constexpr": p["constexpr"], "n_inputs": len(ins)}
        f.write("  std::cout.flush(); return nullptr;\n}\nint main() { return h3::with_big_stack(real_main); }\n")
    if len(sys.argv) > 6: json.dump(meta, open(sys.argv[6], "w"))
    print(f"parsers={npars}")
main()
