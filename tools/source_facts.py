#!/usr/bin/env python3
"""Translator: regenerates /verif/coq/Model/SourceFacts.v from /repo/include/ctpg/ctpg.hpp on every run.
It reads literal tables, bounds, sentinels, capacity formulas, the kind enumeration and the grammar of the
library's own pattern parser out of the C++ source (anchored regular expressions; fails closed when an anchor
is lost). Proofs/SourceFactsTie.v then proves that the hand-written model uses exactly these values."""
import re, sys, hashlib

class Lost(Exception): pass

def need(pattern, text, what, flags=re.S):
    m = re.search(pattern, text, flags)
    if not m: raise Lost(f"anchor lost: {what}")
    return m

def c_char(tok):
    tok = tok.strip()
    if tok.startswith("'"):
        body = tok[1:-1]
        esc = {"\\n": 10, "\\t": 9, "\\\\": 92, "\\'": 39, "\\0": 0}
        if body in esc: return esc[body]
        if len(body) == 1: return ord(body)
        raise Lost("char literal " + tok)
    return int(tok, 0)

def coq_list(xs): return "[" + "; ".join(str(x) for x in xs) + "]"
def coq_ident(s): return coq_list([ord(c) for c in s])

def extract(src):
    out = {}
    # whitespace sets of skip_whitespace
    m = need(r"space_chars_newline\[\]\s*=\s*\{([^}]*)\}", src, "space_chars_newline")
    out["ws_newline"] = [int(x, 0) for x in m.group(1).split(",") if int(x, 0) != 0]
    m = need(r"space_chars_no_newline\[\]\s*=\s*\{([^}]*)\}", src, "space_chars_no_newline")
    out["ws_no_newline"] = [int(x, 0) for x in m.group(1).split(",") if int(x, 0) != 0]
    m = need(r"ps\.options\.skip_newline\s*\?\s*(\w+)\s*:\s*(\w+)", src, "skip_newline selects the set")
    if (m.group(1), m.group(2)) != ("space_chars_newline", "space_chars_no_newline"): raise Lost("skip_newline selection order")
    # source_point::update
    m = need(r"constexpr void update\(Iterator start, Iterator end\)\s*\{(.*?)\n    \}", src, "source_point::update")
    body = m.group(1)
    need(r"if \(\*start == '\\n'\)\s*\{\s*\+\+line;\s*column = 1;\s*\}\s*else\s*\+\+column;", body, "update body")
    out["newline"] = 10
    m = need(r"size32_t line = (\d+);\s*size32_t column = (\d+);", src, "source_point initial values")
    out["sp0"] = (int(m.group(1)), int(m.group(2)))
    # character classes
    m = need(r"constexpr bool is_printable\(char c\)\s*\{\s*return c >= (0x[0-9a-fA-F]+|\d+) && c <= (0x[0-9a-fA-F]+|\d+);", src, "is_printable")
    out["printable"] = (int(m.group(1), 0), int(m.group(2), 0))
    m = need(r"constexpr bool is_dec_digit\(char c\)\s*\{\s*return c >= ('.') && c <= ('.');", src, "is_dec_digit")
    out["dec"] = (c_char(m.group(1)), c_char(m.group(2)))
    m = need(r"constexpr bool is_hex_digit\(char c\)\s*\{\s*return \(c >= ('.') && c <= ('.')\) \|\| \(c >= ('.') && c <= ('.')\) \|\| \(c >= ('.') && c <= ('.')\);", src, "is_hex_digit")
    out["hex"] = [c_char(m.group(i)) for i in range(1, 7)]
    # regex_lexer specials
    sp = re.findall(r"specials\[utils::char_to_idx\(('.')\)\]\s*=\s*(\d+);", src)
    if len(sp) != 8: raise Lost("regex_lexer specials")
    out["specials"] = sorted((c_char(c), int(v)) for c, v in sp)
    # sentinels
    need(r"constexpr size16_t uninitialized16 = size16_t\(-1\);", src, "uninitialized16")
    need(r"size16_t term_idx = uninitialized16;\s*size_t len = uninitialized16;", src, "recognized_term defaults")
    need(r"size16_t\[4\]", src, "four conflicted_recognition slots")
    out["rec_slots"] = 4
    # kind enumeration order
    m = need(r"enum class parse_table_entry_kind : size8_t \{([^}]*)\}", src, "parse_table_entry_kind")
    out["kinds"] = [k.strip() for k in m.group(1).split(",")]
    # capacity formulas
    m = need(r"class char_term.*?static const size_t dfa_size = (\d+);", src, "char_term dfa_size")
    out["char_dfa_size"] = int(m.group(1))
    need(r"static const size_t dfa_size = \(DataSize - 1\) \* 2;", src, "string_term dfa_size")
    need(r"static const size_t situation_count = \(0 \+ \.\.\. \+ \(Rules::n \+ 1\)\) \* term_count \+ 2;", src, "situation_count")
    need(r"static const size_t situation_size = max_rule_element_count \+ 1;", src, "situation_size")
    need(r"static const size_t situation_address_space_size = rule_count \* situation_size \* term_count;", src, "address space")
    need(r"using type = stdex::cvector<size16_t, N \+ EmptyRulesCount \+ 1>;", src, "cursor stack capacity")
    need(r"using type = stdex::cvector<ValueVariantType, N \+ EmptyRulesCount \+ 1>;", src, "value stack capacity")
    need(r"static const size_t state_count_cap = SituationCount;\s*static const size_t max_sit_count_per_state_cap = SituationCount;", src, "default limits")
    need(r"return info\.rule_info_idx \* situation_size \* term_count \+ info\.after \* term_count \+ info\.t;", src, "make_situation_idx")
    need(r"return term \? nterm_count \+ idx : idx;", src, "get_parse_table_idx")
    # dfa_size_analyzer: prim adds 2
    need(r"constexpr slice prim\(\) \{ auto old = size; size \+= 2; return slice\{ old, 2 \}; \}", src, "dfa_size_analyzer::prim")
    need(r"size \+= \(s\.n \* \(n - 1\)\);\s*return slice\{ s\.start, s\.n \* n \};", src, "dfa_size_analyzer::rep")
    # symbol names
    need(r'get_name\(\) \{ return "##"; \}', src, "fake root name")
    need(r'get_name\(\) \{ return "<eof>"; \}', src, "eof name")
    need(r'get_name\(\) \{ return "<error_recovery_token>"; \}', src, "error token name")
    # the grammar of regex_parser_object
    start = src.find("constexpr parser regex_parser_object(")
    if start < 0: raise Lost("regex_parser_object")
    def balanced(text, i):
        """text[i] == '(' ; returns the index of the matching ')' skipping char literals"""
        depth = 0
        while i < len(text):
            ch = text[i]
            if ch == "'": i += 3 if text[i + 1] != "\\" else 4; continue
            if ch == "(": depth += 1
            elif ch == ")":
                depth -= 1
                if depth == 0: return i
            i += 1
        raise Lost("unbalanced parentheses in regex_parser_object")
    def split_top(text):
        items = []; cur = ""; depth = 0; i = 0
        while i < len(text):
            ch = text[i]
            if ch == "'":
                n = 3 if text[i + 1] != "\\" else 4
                cur += text[i:i + n]; i += n; continue
            if ch in "([{": depth += 1
            elif ch in ")]}": depth -= 1
            if ch == "," and depth == 0: items.append(cur.strip()); cur = ""
            else: cur += ch
            i += 1
        if cur.strip(): items.append(cur.strip())
        return items
    open_i = src.index("(", start)
    close_i = balanced(src, open_i)
    args = split_top(src[open_i + 1:close_i])
    if len(args) != 5 or not args[1].startswith("terms(") or not args[2].startswith("nterms(") or not args[3].startswith("rules(") or args[4] != "use_lexer<regex_lexer>{}":
        raise Lost("regex_parser_object argument shape")
    root = args[0]
    terms = split_top(args[1][len("terms("):-1])
    nterms = split_top(args[2][len("nterms("):-1])
    rules = []
    for item in split_top(args[3][len("rules("):-1]):
        mm = re.match(r"(\w+)\(", item)
        if not mm: raise Lost("regex rule: " + item)
        lhs = mm.group(1)
        o = item.index("(")
        c = balanced(item, o)
        rhs = split_top(item[o + 1:c])
        rest = item[c + 1:]
        rules.append((lhs, rhs, ">>=" in rest))
    if len(rules) != 15: raise Lost(f"regex grammar has {len(rules)} rules")
    out["regex"] = (root, terms, nterms, rules)
    # term functors of the regex grammar
    need(r'regex_digit_09\("regex_digit_09", \[\]\(auto sv\) \{ return size32_t\(sv\[0\]\) - \'0\'; \}\)', src, "regex_digit_09 functor")
    need(r'regex_primary\("regex_primary", string_view_to_subset\)', src, "regex_primary functor")
    need(r"number\(number, regex_digit_09\) >= \[\]\(size32_t n, size32_t x\)\{ return n \* 10 \+ x; \}", src, "number functor")
    need(r"primary\(regex_digit_09\) >>= \[\]\(auto& ctx, size32_t number\)\{ return ctx\.primary_char\(char\(number \+ '0'\)\); \}", src, "primary(digit) functor")
    for op, rule in (("star", "'\\*'"), ("plus", "'\\+'"), ("opt", "'\\?'")):
        need(r"q_expr\(primary, %s\) >>= \[\]\(auto& ctx, slice s, skip\) \{ return ctx\.%s\(s\); \}" % (rule, op), src, f"q_expr {op} functor")
    need(r"return ctx\.rep\(s, n\);", src, "rep functor"); need(r"return ctx\.cat\(s1, s2\);", src, "cat functor"); need(r"return ctx\.alt\(s1, s2\);", src, "alt functor")
    need(r"parse_options\{\}\.set_skip_whitespace\(false\)", src, "pattern parse options")
    # helper functors (C19): skip list lengths
    need(r"template<size_t X, typename = std::make_index_sequence<X - 1>>\s*class element", src, "element skip list")
    need(r"typename = std::make_index_sequence<std::min\(ContIdx, ArgIdx\) - 1>,\s*typename = std::make_index_sequence<std::max\(ContIdx, ArgIdx\) - std::min\(ContIdx, ArgIdx\) - 1>,\s*bool container_first = ContIdx < ArgIdx", src, "emplace_back/push_back skip lists")
    need(r"template<typename T, std::size_t FromIdx = 1, typename = std::make_index_sequence<FromIdx - 1>>\s*struct construct", src, "construct skip list")
    # verbosity guards (C16): every stream write in the driver is guarded by options.verbose except the two error messages
    drv_start = src.rfind("template<typename", 0, src.index("constexpr void shift_recovery_token"))
    drv = src[drv_start:src.index("struct no_parser{}")]
    writes = [mm.start() for mm in re.finditer(r"ps\.error_stream <<", drv)]
    unguarded = []
    for w in writes:
        before = drv[:w]
        fn_start = before.rfind("template<typename")
        fn_head = before[fn_start:]
        name = re.search(r"constexpr \w[\w:<>& ]*? (\w+)\(", fn_head)
        guarded = re.search(r"if \(ps\.options\.verbose\)\s*(\{[^}]*)?$", fn_head) is not None
        if not guarded: unguarded.append(name.group(1) if name else "?")
    out["unguarded_writes"] = sorted(set(unguarded))
    reads = re.findall(r"options\.verbose", src[src.index("constexpr std::optional<root_value_type> context_parse(Context&& ctx, parse_options options"):src.index("struct no_parser{}")])
    out["verbose_reads_not_guard"] = len(re.findall(r"(?<!if \()ps\.options\.verbose(?!\))", drv))
    # namespace stdex: word layout and guards of cbitset, guards of cvector / cqueue, the bubble sort's swap test (Model/Containers.v)
    cb = src[src.index("class cbitset"):src.index("struct is_cqueue_compatible")]
    m = need(r"using underlying_type = std::uint(\d+)_t;", cb, "cbitset underlying_type")
    need(r"static const size_type underlying_size = sizeof\(underlying_type\) \* 8;", cb, "cbitset underlying_size")
    out["cb_word_bits"] = int(m.group(1))
    need(r"underlying_count = \(N / underlying_size\) \+ \(\(N % underlying_size\) \? 1 : 0\);", cb, "cbitset underlying_count")
    forms = [("set", r"data\[idx / underlying_size\] \|= \(underlying_type\(1\) << \(idx % underlying_size\)\);"),
             ("set value", r"data\[idx / underlying_size\] \^= \(-!!value \^ data\[idx / underlying_size\]\) & \(underlying_type\(1\) << \(idx % underlying_size\)\);"),
             ("reset", r"data\[idx / underlying_size\] &= ~\(underlying_type\(1\) << \(idx % underlying_size\)\);"),
             ("flip", r"data\[idx / underlying_size\] \^= \(underlying_type\(1\) << \(idx % underlying_size\)\);"),
             ("test", r"return \(data\[idx / underlying_size\] >> \(idx % underlying_size\)\) & underlying_type\(1\);"),
             ("flip all", r"for \(auto& d : data\)\s*d = ~d;"), ("set all", r"for \(auto& d : data\)\s*d = underlying_type\(-1\);"),
             ("reset all", r"for \(auto& d : data\)\s*d = underlying_type\(0\);"),
             ("add", r"for \(auto i = 0u; i < underlying_count; \+\+i\)\s*data\[i\] \|= other\.data\[i\];"),
             ("check_idx", r"if \(idx >= N\)\s*throw std::runtime_error")]
    for name, pat in forms: need(pat, cb, "cbitset " + name)
    out["cb_check_idx_calls"] = len(re.findall(r"check_idx\(idx\);", cb))
    cv = src[src.index("class cvector<T, N"):src.index("class cbitset")]
    need(r"constexpr void push_back\(const T& v\) \{ check_not_full\(\); the_data\[current_size\+\+\] = v; \}", cv, "cvector push_back")
    need(r"constexpr void emplace_back\(T&& v\) \{ check_not_full\(\); the_data\[current_size\+\+\] = std::move\(v\); \}", cv, "cvector emplace_back")
    need(r"if \(current_size >= N\)\s*throw std::runtime_error", cv, "cvector check_not_full")
    need(r"constexpr void pop_back\(\) \{ current_size--; \}", cv, "cvector pop_back")
    need(r"auto from = first < begin\(\) \? begin\(\) : first;\s*auto to = last > end\(\) \? end\(\) : last;\s*size_type diff = to - from;", cv, "cvector erase")
    cq = src[src.index("class cqueue<T, N"):src.index("constexpr Container& sort(")]
    need(r"if \(size_ >= N\)\s*throw std::runtime_error\(\"Pushing out of range\"\);\s*data\[end\+\+\] = v;\s*if \(end == N\)\s*end = 0;\s*size_\+\+;", cq, "cqueue push")
    need(r"if \(empty\(\)\)\s*throw std::runtime_error\(\"Pop on empty\"\);\s*start\+\+;\s*if \(start == N\)\s*start = 0;\s*size_--;", cq, "cqueue pop")
    so = src[src.index("constexpr Container& sort("):src.index("namespace utils")]
    need(r"for \(auto i = 0u; i < std::size\(c\) - 1; i\+\+\)\s*\{\s*if \(p\(c\[i \+ 1\], c\[i\]\)\)", so, "stdex sort swap test")
    need(r"stdex::sort\(gi\.rule_infos, \[\]\(const auto& ri1, const auto& ri2\) \{ return ri1\.l_idx < ri2\.l_idx; \}\);", src, "stdex sort of rule_infos")
    # namespace utils (Model/Utils.v)
    ut = src[src.index("namespace utils"):src.index("namespace ftors")]
    need(r"while \(\*str1 == \*str2\)\s*\{\s*if \(\*str1 == 0\)\s*return true;\s*str1\+\+; str2\+\+;\s*\}\s*return false;", ut, "utils str_equal loop")
    need(r"size_t i = 0;\s*while \(\*str\)\s*\{\s*if \(\*str == c\)\s*return i;\s*str\+\+; i\+\+;\s*\}\s*return uninitialized;", ut, "utils find_char loop")
    need(r"for \(const auto& n : table\)\s*\{\s*if \(str_equal\(n, str\)\)\s*return res;\s*res\+\+;\s*\}\s*if \(res == N\)\s*throw std::runtime_error\(\"string not found\"\);", ut, "utils find_str loop")
    need(r"if \(idx_to_char\(i\) > 32 && idx_to_char\(i\) < 127\)", ut, "utils char_names printable bounds")
    need(r"arr\[i\]\[0\] = '\\\\';\s*arr\[i\]\[1\] = 'x';\s*arr\[i\]\[2\] = d\[i / 16\];\s*arr\[i\]\[3\] = d\[i % 16\];", ut, "utils char_names hex form")
    need(r"return static_cast<size_t>\(static_cast<unsigned char>\(c\)\) & 0xff;", ut, "utils char_to_idx")
    need(r"return dd\(d1\) \* 16 \+ dd\(d2\);", src, "regex hex_digits_to_char")
    # namespace buffers (Model/Buffers.v)
    bf = src[src.index("namespace buffers"):src.index("template<typename Buffer>\n    using iterator_t")]
    need(r"constexpr iterator end\(\) const \{ return iterator\{ data \+ N - 1 \}; \}", bf, "buffers cstring_buffer end")
    need(r"constexpr std::string_view get_view\(iterator start, iterator end\) const \{ return std::string_view\(start\.ptr, end\.ptr - start\.ptr\); \}", bf, "buffers cstring_buffer get_view")
    if len(re.findall(r"return std::string_view\(str\.data\(\) \+ \(start - str\.begin\(\)\), end - start\);", bf)) != 2: raise Lost("buffers string_buffer / string_view_buffer get_view")
    if len(re.findall(r"auto begin\(\) const \{ return str\.cbegin\(\); \}\s*auto end\(\) const \{ return str\.cend\(\); \}", bf)) != 2: raise Lost("buffers begin / end")
    return out

def emit(facts):
    root, terms, nterms, rules = facts["regex"]
    L = []
    L.append("(* GENERATED by tools/source_facts.py from /repo/include/ctpg/ctpg.hpp -- do not edit. *)")
    L.append("Require Import Ctpg.Base.Prelude Ctpg.Model.Grammar.")
    L.append(f"Definition sf_ws_newline : list nat := {coq_list(facts['ws_newline'])}.")
    L.append(f"Definition sf_ws_no_newline : list nat := {coq_list(facts['ws_no_newline'])}.")
    L.append(f"Definition sf_newline : nat := {facts['newline']}.")
    L.append(f"Definition sf_sp0 : nat * nat := ({facts['sp0'][0]}, {facts['sp0'][1]}).")
    L.append(f"Definition sf_printable : nat * nat := ({facts['printable'][0]}, {facts['printable'][1]}).")
    L.append(f"Definition sf_dec : nat * nat := ({facts['dec'][0]}, {facts['dec'][1]}).")
    L.append(f"Definition sf_hex : list nat := {coq_list(facts['hex'])}.")
    L.append("Definition sf_specials : list (nat * nat) := [" + "; ".join(f"({c}, {v})" for c, v in facts["specials"]) + "].")
    L.append(f"Definition sf_rec_slots : nat := {facts['rec_slots']}.")
    kinds = {"error": 0, "success": 1, "shift": 2, "shift_error_recovery_token": 3, "reduce": 4, "rr_conflict": 5}
    L.append("Definition sf_kind_order : list nat := " + coq_list([kinds.get(k, 99) for k in facts["kinds"]]) + ".")
    L.append(f"Definition sf_char_dfa_size : nat := {facts['char_dfa_size']}.")
    def sym(s):
        if s.startswith("'"): return f"RTerm {coq_list([c_char(s)])}"
        if s in nterms: return f"RNterm {coq_ident(s)}"
        return f"RTerm {coq_ident(s)}"
    L.append("Definition sf_regex_raw_grammar : raw_grammar :=")
    L.append(f"  mkRG {coq_ident(root)}")
    L.append("    [" + "; ".join(f"mkRT {coq_list([c_char(t)]) if t.startswith(chr(39)) else coq_ident(t)} 0 NoAssoc" for t in terms) + "]")
    L.append("    [" + "; ".join(coq_ident(n) for n in nterms) + "]")
    L.append("    [" + ";\n     ".join(f"mkRR {coq_ident(l)} [{'; '.join(sym(x) for x in r)}] None" for l, r, _ in rules) + "].")
    L.append("Definition sf_regex_contextual : list bool := [" + "; ".join("true" if c else "false" for _, _, c in rules) + "].")
    L.append("Definition sf_unguarded_writes : list (list nat) := [" + "; ".join(coq_ident(n) for n in facts["unguarded_writes"]) + "].")
    L.append(f"Definition sf_verbose_reads_outside_guards : nat := {facts['verbose_reads_not_guard']}.")
    L.append(f"Definition sf_cb_word_bits : nat := {facts['cb_word_bits']}.")
    L.append(f"Definition sf_cb_check_idx_calls : nat := {facts['cb_check_idx_calls']}.")
    return "\n".join(L) + "\n"

if __name__ == "__main__":
    hdr = sys.argv[1] if len(sys.argv) > 1 else "/repo/include/ctpg/ctpg.hpp"
    outp = sys.argv[2] if len(sys.argv) > 2 else "/verif/coq/Model/SourceFacts.v"
    try:
        text = emit(extract(open(hdr).read()))
    except Lost as e:
        print("SOURCE-FACTS-LOST " + str(e)); sys.exit(3)
    try: old = open(outp).read()
    except FileNotFoundError: old = None
    if old != text: open(outp, "w").write(text)
    print("source facts ok " + hashlib.sha256(text.encode()).hexdigest()[:12] + (" (changed)" if old != text else ""))
