#!/bin/bash
# coqdbg.sh <file.v> <line> : compile up to <line>, print the goals there (replaces that line by "Show. Abort All.")
f=$1; n=$2; d=$(dirname $f); b=$(basename $f .v)
head -n $((n-1)) $f > $d/Dbg_$b.v; echo "Show." >> $d/Dbg_$b.v; echo "Abort All." >> $d/Dbg_$b.v
cd /verif/coq && timeout 300 coqc -Q . Ctpg $d/Dbg_$b.v 2>&1 | head -${3:-80}; rm -f $d/Dbg_$b.* $d/.Dbg_$b.aux
