#!/bin/bash
# matrix.sh <seeded id> <check ids...>: runs checks against one seeded change and records the outcome in its meta.json
id=$1; shift
res=$(/verif/tools/run_against.sh /verif/seeded/$id/patch.diff "$@" 2>&1)
echo "$res"
python3 - "$id" <<PY
import json,sys,re
id=sys.argv[1]
m=json.load(open(f"/verif/seeded/{id}/meta.json"))
for line in """$res""".split("\n"):
    mm=re.match(r"^(C\d+) rc=(\d+) ?(.*)$", line)
    if mm:
        c,rc,rest=mm.groups()
        m["checks_that_catch_it"][c]= ("no alarm" if rc=="0" else ("VIOLATION with failing input" if "VIOLATION" in rest and "no-failing-input-found" not in rest else ("VIOLATION no-failing-input-found" if "VIOLATION" in rest else "rc="+rc+" "+rest)))
json.dump(m,open(f"/verif/seeded/{id}/meta.json","w"),indent=1)
PY
