#!/usr/bin/env python3
"""Generates Props/Properties_<id>.v files: each states property theorems (statement printed by Coq from the proved
lemma, so it is exactly what was proved) and closes them with `exact <lemma>`, followed by Print Assumptions."""
import subprocess, re, sys, os
COQ = "/verif/coq"
IMPORTS = ["Ctpg.Base.Prelude", "Ctpg.Model.Grammar", "Ctpg.Model.LRGen", "Ctpg.Model.Driver", "Ctpg.Model.Dfa", "Ctpg.Model.RegexFront", "Ctpg.Model.Diag",
           "Ctpg.Spec.Cfg", "Ctpg.Spec.LRSpec", "Ctpg.Spec.Lang", "Ctpg.Spec.Eval", "Ctpg.Spec.Conflict", "Ctpg.Valid.LRValid", "Ctpg.Valid.DfaValid", "Ctpg.Valid.SpecMatch"]
SPEC = {
 "C02": ("The parse result is the bottom-up evaluation of the input's derivation tree",
   ["Ctpg.Proofs.DriverBasics", "Ctpg.Proofs.DriverEval", "Ctpg.Proofs.LRSound", "Ctpg.Proofs.LRComplete"],
   [("C02_value_is_bottom_up_evaluation", "run_tree_eval", "for every algebra of functors: when no stack pop by recovery happened, the value stack is the bottom-up, left-to-right evaluation of the tree stack, the final context is the one threaded through that evaluation, and the functor calls are the post-order of the trees"),
    ("C02_calls_postorder", "calls_postorder_verbose", "each rule functor is called exactly once per tree node, after all of its children, with the children's values in right-side order"),
    ("C02_same_path_for_every_algebra", "run_same_path", "the driver's control path, output and stack shape do not depend on the functors"),
    ("C02_context_free_functors", "run_tree_eval_ctx_free", "for functors that ignore the context the values are evaluations of the trees even across recovery"),
    ("C02_unique_tree", "lr_unique", "the derivation tree of an input of a validated table is unique")]),
 "C10": ("Source points are the true line and column of each term",
   ["Ctpg.Proofs.DriverBasics", "Ctpg.Proofs.DriverPos"],
   [("C10_update_is_true_position", "sp_update_true_pos", "source_point::update over a slice moves the true position of its start to the true position of its end"),
    ("C10_positions_in_every_event_and_state", "run_pos", "in every run the current source point is the true position of the current offset, and every position carried by a trace line or message is the true position of the offset it refers to (Shift lines: the term's first byte; Unexpected character: the offending byte)"),
    ("C10_term_values_carry_true_positions", "run_leaf_pos_occ", "every term value handed to a functor carries the true position of its lexeme's first byte, and the lexeme lies inside the buffer")]),
 "C14": ("Semantic values are moved, never duplicated, leaked or reused",
   ["Ctpg.Proofs.DriverBasics", "Ctpg.Proofs.DriverLinear"],
   [("C14_every_value_accounted_for_exactly_once", "run_linear", "the values created (term values and functor results) are, as a duplicate-free list, a permutation of: values consumed by functor calls ++ values live on the stack ++ values removed by recovery pops"),
    ("C14_no_reuse_no_duplication", "run_linear_items", "no live value was consumed or popped before, no popped value was consumed, argument lists are duplicate-free and pairwise disjoint, every result id was created exactly once")]),
 "C18": ("A custom lexer drives the parser under the same contract as the generated one",
   ["Ctpg.Proofs.DriverBasics", "Ctpg.Proofs.DriverPos", "Ctpg.Proofs.DriverTokens"],
   [("C18_lexer_consulted_exactly_at_token_boundaries", "consult_at_token_boundary", "whenever the driver consults the lexer it does so at the end of the tokens consumed so far, after the option-dependent whitespace skip, with the true source point, and interprets the answer as the next token, end of input or failure of the token stream"),
    ("C18_same_token_stream_same_parse", "same_tokens_same_run", "two lexers that define the same token stream on a buffer (in particular a custom lexer and the generated one) give identical results, final stacks, contexts and parser trace lines"),
    ("C18_tokens_consumed_are_a_prefix_of_the_stream", "run_tok_inv_gh", "the terms the driver shifted or discarded are exactly a prefix of the token stream")]),
 "C05": ("Shift/reduce conflicts are resolved by the documented precedence rules",
   ["Ctpg.Proofs.CellBasics", "Ctpg.Proofs.CellResolve", "Ctpg.Proofs.LRSound"],
   [("C05_rule_is_the_documented_one", "solve_conflict_is_documented_rule", "solve_conflict is the documented rule: reduce iff the rule's precedence is greater, or equal with left associativity"),
    ("C05_cell", "C05_cell", "a cell with one reduction and any number of shift items, in any order, gets the documented choice, the conflict flag, the reduction's rule and the full target kernel"),
    ("C05_no_reduction_frame", "C05_no_reduce", "cells without a reduction are plain shifts without flag: precedence declarations do not touch them"),
    ("C05_no_shift_frame", "C05_no_shift", "cells with a single reduction and no shift are plain reductions without flag"),
    ("C05_flag_iff_conflict", "C05_sr_flag_iff", "the conflict flag is set exactly for shift/reduce conflicts and the kind is then the documented choice"),
    ("C05_accepted_inputs_have_derivation_trees", "lr_sound", "whatever a table with resolved conflicts accepts is a derivation tree of the input (validate_sound does not require conflict-freedom)")]),
 "C11": ("Diagnostics report every conflict and describe the real table",
   ["Ctpg.Proofs.CellBasics", "Ctpg.Proofs.CellResolve", "Ctpg.Proofs.GenCorrect", "Ctpg.Proofs.GenAnalyze"],
   [("C11_conflict_mark_iff_conflict", "C11_conflict_flag_iff", "for a cell without the completed root item: it is marked (S/R flag or R/R kind) iff its items have a shift/reduce or reduce/reduce conflict"),
    ("C11_entry_conflict_iff", "C11_entry_conflict_iff", "the same for the entry actually written into the table"),
    ("C11_conflict_line_iff_marked_cell", "state_lines_conflict_iff", "a diagnostic line is a CONFLICT line iff it is the line of a marked cell"),
    ("C11_every_marked_cell_has_a_line", "conflict_cell_has_line", "every marked cell has a CONFLICT line naming its term"),
    ("C11_accept_reduce_hidden_refuted", "D12_accept_reduce_hidden", "REFUTED part (known finding D12): with the completed root item first in the cell, a reduce/reduce conflict gets no mark and no line"),
    ("C11_no_conflict_mark_implies_valid_table", "gen_validates_analyze", "for every grammar: if the generator succeeds, no finished cell is marked and no accept/reduce clash exists, the table is the validated LR(1) automaton of the grammar (hence parsed deterministically per C01)")]),
 "C12": ("Statically computed capacities always suffice, or construction fails loudly",
   ["Ctpg.Proofs.BuilderSize", "Ctpg.Proofs.BuilderTerm", "Ctpg.Proofs.GenClosure"],
   [("C12_dfa_size", "build_size", "for every pattern the builder creates exactly the states the size analyser predicts and returns the predicted slice"),
    ("C12_expr_size", "build_expr_size", "regex::expr: automaton size = analyser result"),
    ("C12_lexer_size", "create_lexer_size", "term-set lexer: automaton size = sum of the per-term sizes"),
    ("C12_string_term_size", "string_term_size", "a non-empty string term needs 2 * length states"),
    ("C12_empty_string_term_refuted", "empty_string_term_size_mismatch", "REFUTED corner: string_term(\"\") creates 2 states although its declared dfa_size is 0"),
    ("C12_transition_targets_in_range", "build_expr_targets", "every transition target of a built automaton is a state of it"),
    ("C12_merge_terminates", "merge_terminates", "the recursive in-place merge terminates within the model's fuel bound"),
    ("C12_builder_total", "build_expr_total", "hence the builder never gives up: every pattern gets an automaton"),
    ("C12_items_fit", "items_length_bound", "a duplicate-free list of well-formed items is no longer than the item address space")]),
 "C01g": None,
}
def coq_type(imports, lemma):
    src = "".join(f"Require Import {m}.\n" for m in imports) + "Set Printing Width 100000.\nSet Printing Depth 100000.\n" + f"Check {lemma}.\n"
    open("/tmp/_chk.v", "w").write(src)
    out = subprocess.run(f"cd {COQ} && coqc -Q . Ctpg /tmp/_chk.v", shell=True, capture_output=True, text=True).stdout
    m = re.search(r"^%s\s*:\s*(.*)\Z" % re.escape(lemma), out, re.S | re.M)
    if not m: raise SystemExit(f"cannot get type of {lemma}: {out[-500:]}")
    return " ".join(m.group(1).split())
def main():
    for pid, spec in SPEC.items():
        if spec is None: continue
        title, mods, thms = spec
        imports = IMPORTS + mods
        L = [f"(* {pid} - {title}. Theorems only: each statement is printed by Coq from the lemma it is closed with. *)"]
        L += [f"Require Import {m}." for m in imports]
        L.append("From Coq Require Import Permutation.")
        for name, lemma, comment in thms:
            ty = coq_type(imports, lemma).replace("2 * length []", "2 * length (@nil nat)")
            L.append(f"\n(* {comment} *)\nTheorem {name} :\n  {ty}.\nProof. exact {lemma}. Qed.\nPrint Assumptions {name}.")
        open(f"{COQ}/Props/Properties_{pid}.v", "w").write("\n".join(L) + "\n")
        r = subprocess.run(f"cd {COQ} && timeout 600 coqc -Q . Ctpg Props/Properties_{pid}.v", shell=True, capture_output=True, text=True)
        print(pid, "ok" if r.returncode == 0 else "FAILED", (r.stdout + r.stderr)[-400:] if r.returncode else "")
main()
