#!/usr/bin/env python3
"""Generates Props/Properties_<id>.v files: each states property theorems (statement printed by Coq from the proved
lemma, so it is exactly what was proved) and closes them with `exact <lemma>`, followed by Print Assumptions."""
import subprocess, re, sys, os
COQ = os.path.join(os.path.dirname(os.path.dirname(os.path.abspath(__file__))), "coq")
IMPORTS = ["Ctpg.Base.Prelude", "Ctpg.Model.Grammar", "Ctpg.Model.LRGen", "Ctpg.Model.Driver", "Ctpg.Model.Dfa", "Ctpg.Model.RegexFront", "Ctpg.Model.Diag",
           "Ctpg.Spec.Cfg", "Ctpg.Spec.LRSpec", "Ctpg.Spec.Lang", "Ctpg.Spec.Eval", "Ctpg.Spec.Conflict", "Ctpg.Valid.LRValid", "Ctpg.Valid.DfaValid", "Ctpg.Valid.SpecMatch"]
SPEC = {
 "C02": ("The parse result is the bottom-up evaluation of the input's derivation tree",
   ["Ctpg.Proofs.DriverBasics", "Ctpg.Proofs.DriverEval", "Ctpg.Proofs.LRSound", "Ctpg.Proofs.LRComplete"],
   [("C02_value_is_bottom_up_evaluation", "run_tree_eval", "for every algebra of functors: when no stack pop by recovery happened, the value stack is the bottom-up, left-to-right evaluation of the tree stack, the final context is the one threaded through that evaluation, and the functor calls are the post-order of the trees"),
    ("C02_calls_postorder", "calls_postorder_verbose", "each rule functor is called exactly once per tree node, after all of its children, with the children's values in right-side order"),
    ("C02_same_path_for_every_algebra", "run_same_path", "the driver's control path, output and stack shape do not depend on the functors"),
    ("C02_context_free_functors", "run_tree_eval_ctx_free", "for functors that ignore the context the values are evaluations of the trees even across recovery"),
    ("C02_unique_tree", "lr_unique", "the derivation tree of an input of a validated table is unique")]),
 "C10": ("Source points are the true line and column of each term",
   ["Ctpg.Proofs.DriverBasics", "Ctpg.Proofs.DriverPos"],
   [("C10_update_is_true_position", "sp_update_true_pos", "source_point::update over a slice moves the true position of its start to the true position of its end"),
    ("C10_positions_in_every_event_and_state", "run_pos", "in every run the current source point is the true position of the current offset, and every position carried by a trace line or message is the true position of the offset it refers to (Shift lines: the term's first byte; Unexpected character: the offending byte)"),
    ("C10_term_values_carry_true_positions", "run_leaf_pos_occ", "every term value handed to a functor carries the true position of its lexeme's first byte, and the lexeme lies inside the buffer")]),
 "C14": ("Semantic values are moved, never duplicated, leaked or reused",
   ["Ctpg.Proofs.DriverBasics", "Ctpg.Proofs.DriverLinear"],
   [("C14_every_value_accounted_for_exactly_once", "run_linear", "the values created (term values and functor results) are, as a duplicate-free list, a permutation of: values consumed by functor calls ++ values live on the stack ++ values removed by recovery pops"),
    ("C14_no_reuse_no_duplication", "run_linear_items", "no live value was consumed or popped before, no popped value was consumed, argument lists are duplicate-free and pairwise disjoint, every result id was created exactly once")]),
 "C18": ("A custom lexer drives the parser under the same contract as the generated one",
   ["Ctpg.Proofs.DriverBasics", "Ctpg.Proofs.DriverPos", "Ctpg.Proofs.DriverTokens"],
   [("C18_lexer_consulted_exactly_at_token_boundaries", "consult_at_token_boundary", "whenever the driver consults the lexer it does so at the end of the tokens consumed so far, after the option-dependent whitespace skip, with the true source point, and interprets the answer as the next token, end of input or failure of the token stream"),
    ("C18_same_token_stream_same_parse", "same_tokens_same_run", "two lexers that define the same token stream on a buffer (in particular a custom lexer and the generated one) give identical results, final stacks, contexts and parser trace lines"),
    ("C18_tokens_consumed_are_a_prefix_of_the_stream", "run_tok_inv_gh", "the terms the driver shifted or discarded are exactly a prefix of the token stream")]),
 "C05": ("Shift/reduce conflicts are resolved by the documented precedence rules",
   ["Ctpg.Proofs.CellBasics", "Ctpg.Proofs.CellResolve", "Ctpg.Proofs.LRSound", "Ctpg.Valid.LRResolved", "Ctpg.Spec.Grouping", "Ctpg.Proofs.GroupingFacts", "Ctpg.Proofs.GroupingSpec", "Ctpg.Proofs.Grouping", "Ctpg.Proofs.GroupingConservative", "Ctpg.Proofs.GroupingAnalyze", "Ctpg.Proofs.GroupingUnique", "Ctpg.Proofs.GroupingPure", "Ctpg.Proofs.GroupingExamples", "Ctpg.Proofs.GroupingPureExamples"],
   [("C05_rule_is_the_documented_one", "solve_conflict_is_documented_rule", "solve_conflict is the documented rule: reduce iff the rule's precedence is greater, or equal with left associativity"),
    ("C05_cell", "C05_cell", "a cell with one reduction and any number of shift items, in any order, gets the documented choice, the conflict flag, the reduction's rule and the full target kernel"),
    ("C05_no_reduction_frame", "C05_no_reduce", "cells without a reduction are plain shifts without flag: precedence declarations do not touch them"),
    ("C05_no_shift_frame", "C05_no_shift", "cells with a single reduction and no shift are plain reductions without flag"),
    ("C05_flag_iff_conflict", "C05_sr_flag_iff", "the conflict flag is set exactly for shift/reduce conflicts and the kind is then the documented choice"),
    ("C05_accepted_inputs_have_derivation_trees", "lr_sound", "whatever a table with resolved conflicts accepts is a derivation tree of the input (validate_sound does not require conflict-freedom)"),
    ("C05_grouping", "grouping", "CONSEQUENTLY, for every grammar, every table whose S/R cells are decided by the documented rule (validate_resolved, a decidable check discharged on the real tables) and every input of any length: in the tree the parser returns, every node e -> e t e has a left operand node (a t0 b) only if the documented rule says reduce for (rule of t0, t), and a right operand node (b t2 c) only if it says shift for (its own rule, t2)"),
    ("C05_grouping_with_derivation", "grouping_derivation", "and that tree is a derivation tree of the input"),
    ("C05_groups_by_precedence_then_associativity", "well_grouped_by_precedence", "in the usual vocabulary: an operator of lower precedence is never a direct operand of one of higher precedence; equal precedence nests to the left for left-associative and to the right otherwise"),
    ("C05_resolved_cell_reading", "cell_resolved_iff", "what validate_resolved demands of one cell: the four cases of the documented resolution, nothing else"),
    ("C05_conflict_free_tables_are_resolved_tables", "validate_implies_resolved", "no other cell is affected: a table that passes the conflict-free validator passes the resolved one"),
    ("C05_operator_family_complete", "pure_complete", "pure operator grammars e -> e t_i e | atom (any number of operators, any declarations): the resolved table accepts every operator expression"),
    ("C05_operator_family_unique", "pure_unique", "and, without explicit rule precedences, the returned tree is the ONLY well-grouped derivation tree of the input"),
    ("C05_uniqueness_with_explicit_rule_precedence_refuted", "unique_refuted_explicit_prec", "REFUTED corner: with explicit rule precedences the choice relation need not be transitive and a second well-grouped tree exists (the parser still returns the tree of C05_grouping)"),
    ("C05_grammar_is_ambiguous_parser_picks_documented_tree", "other_trees_not_well_grouped", "non-vacuity: the example grammars have other derivation trees of the same inputs that are not well grouped"),
    ("C05_rules_without_explicit_precedence_are_plain", "analyze_binop_plain", "rule analysis: a rule without [n] gets the precedence and associativity of its last term")]),
 "C11": ("Diagnostics report every conflict and describe the real table",
   ["Ctpg.Proofs.CellBasics", "Ctpg.Proofs.CellResolve", "Ctpg.Proofs.GenCorrect", "Ctpg.Proofs.GenAnalyze"],
   [("C11_conflict_mark_iff_conflict", "C11_conflict_flag_iff", "for a cell without the completed root item: it is marked (S/R flag or R/R kind) iff its items have a shift/reduce or reduce/reduce conflict"),
    ("C11_entry_conflict_iff", "C11_entry_conflict_iff", "the same for the entry actually written into the table"),
    ("C11_conflict_line_iff_marked_cell", "state_lines_conflict_iff", "a diagnostic line is a CONFLICT line iff it is the line of a marked cell"),
    ("C11_every_marked_cell_has_a_line", "conflict_cell_has_line", "every marked cell has a CONFLICT line naming its term"),
    ("C11_accept_reduce_hidden_refuted", "D12_accept_reduce_hidden", "REFUTED part (known finding D12): with the completed root item first in the cell, a reduce/reduce conflict gets no mark and no line"),
    ("C11_no_conflict_mark_implies_valid_table", "gen_validates_analyze", "for every grammar: if the generator succeeds, no finished cell is marked and no accept/reduce clash exists, the table is the validated LR(1) automaton of the grammar (hence parsed deterministically per C01)")]),
 "C12": ("Statically computed capacities always suffice, or construction fails loudly",
   ["Ctpg.Proofs.BuilderSize", "Ctpg.Proofs.BuilderTerm", "Ctpg.Proofs.GenClosure"],
   [("C12_dfa_size", "build_size", "for every pattern the builder creates exactly the states the size analyser predicts and returns the predicted slice"),
    ("C12_expr_size", "build_expr_size", "regex::expr: automaton size = analyser result"),
    ("C12_lexer_size", "create_lexer_size", "term-set lexer: automaton size = sum of the per-term sizes"),
    ("C12_string_term_size", "string_term_size", "a non-empty string term needs 2 * length states"),
    ("C12_empty_string_term_refuted", "empty_string_term_size_mismatch", "REFUTED corner: string_term(\"\") creates 2 states although its declared dfa_size is 0"),
    ("C12_transition_targets_in_range", "build_expr_targets", "every transition target of a built automaton is a state of it"),
    ("C12_merge_terminates", "merge_terminates", "the recursive in-place merge terminates within the model's fuel bound"),
    ("C12_builder_total", "build_expr_total", "hence the builder never gives up: every pattern gets an automaton"),
    ("C12_items_fit", "items_length_bound", "a duplicate-free list of well-formed items is no longer than the item address space")]),

 "C06": ("Parsing any byte string is memory-safe and terminates (index logic and bookkeeping; see DESIGN.md for the C++-level remainder)",
   ["Ctpg.Valid.LRSafe", "Ctpg.Proofs.DriverBasics", "Ctpg.Proofs.SafeBasics", "Ctpg.Proofs.SafeDriver", "Ctpg.Proofs.SafeTerm", "Ctpg.Proofs.SafeDfa", "Ctpg.Proofs.DriverPos", "Ctpg.Proofs.BuilderTerm", "Ctpg.Valid.LRProductive", "Ctpg.Proofs.TermViable", "Ctpg.Proofs.TermAll", "Ctpg.Proofs.TermGeneric"],
   [("C06_no_out_of_range_access", "no_crash_safe_ok", "every unchecked array/stack access of the driver (table row and column, rule_infos, erase/back/pop on the stacks, the goto after a reduction, the lexeme extent) is in range: the run never ends in Crash, for any input, options, stack capacity, functors, also through error recovery"),
    ("C06_table_indices_any_table", "no_crash_table_wf", "the table / rule_infos indices alone are in range for any dimensionally well-formed table, conflicts included"),
    ("C06_positions_stay_inside_the_buffer", "run_pos", "the cursor and the lexeme end never leave the buffer"),
    ("C06_matcher_never_out_of_range_on_any_pattern", "built_dfa_no_oob_total", "the automaton built for ANY pattern is never indexed out of range by the matcher on ANY string (although the builder is semantically wrong on some patterns)"),
    ("C06_matcher_reads_each_byte_once", "dfa_match_reads_prefix", "the matcher reads a prefix of the input, left to right, each element at most once"),
    ("C06_matcher_length_within_input", "dfa_match_len_le", "the recognised length never exceeds the input"),
    ("C06_terminates_on_accepted_inputs", "accepted_fuel_exact", "an accepted parse takes exactly length(input) + nodes(tree) + 1 iterations"),
    ("C06_terminates_on_every_input", "generic_run_halts_checked", "TERMINATION ON EVERY INPUT, accepted or not: for any functors, options, buffer and lexer (non-empty in-range lexemes), a table that passes term_checks (validated LR(1) automaton with justified lookaheads of a productive grammar - discharged on the real tables) and has no error rules: some fuel suffices and more fuel changes nothing"),
    ("C06_machine_halts_also_with_error_rules", "machine_halts_checked", "the LR machine itself (shift/reduce/accept/error cell) halts on every token string, error rules or not: no endless chain of reductions"),
    ("C06_parse_up_to_the_first_error_terminates", "first_error_or_end", "with error rules: the run ends or reaches recovery mode (what happens from there is covered by the two progress lemmas below, not by a termination theorem)"),
    ("C06_every_action_is_viable", "action_viable_checked", "the reason: every reduction is made on a lookahead that continues some sentence"),
    ("C06_halting_needs_justified_lookaheads_refuted", "halting_refuted_without_lookahead_generated", "REFUTED without the lookahead check: a table that passes validate and loops forever"),
    ("C06_decides_the_language", "decides_language_checked", "hence parse is a decision procedure: accepted with a derivation tree iff derivable, rejected iff not"),
    ("C06_terminates_after_an_error_without_error_rules", "error_run_terminates", "without error rules a reported error ends the parse within stack-height further iterations"),
    ("C06_consume_mode_progress", "consume_progress", "every iteration in consume mode ends the run, leaves the mode or consumes one term"),
    ("C06_recovery_mode_progress", "recovery_progress", "every iteration in recovery mode ends the run, pops one state, shifts the error symbol or reduces"),
    ("C06_merge_terminates", "merge_terminates", "automaton construction: the recursive merge terminates")]),
 "C07": ("Compile-time and run-time parsing agree, for every buffer kind (model part: the driver observes nothing of the buffer but its bytes, and the fixed stack capacity only through Throw)",
   ["Ctpg.Proofs.DriverBasics", "Ctpg.Proofs.SafeBasics", "Ctpg.Proofs.SafeCap"],
   [("C07_capacity_irrelevant", "capacity_irrelevant", "a parse whose stacks never exceed n gives the same result, final state and output with any fixed capacity above n as with unbounded stacks (cstring_buffer vs the other buffers)"),
    ("C07_capacity_too_small_fails_loudly", "capacity_throw_or_same", "with a fixed capacity the run either equals the unbounded run or ends in Throw - never a different value"),
    ("C07_too_small_is_throw", "capacity_too_small", "and it is Throw exactly when the unbounded run exceeds the capacity"),
    ("C07_run_depends_only_on_what_it_is_given", "run_ext", "runs with extensionally equal lexers and functors are equal: nothing else is observed")]),
 "C08": ("Error recovery follows the documented algorithm",
   ["Ctpg.Spec.Recovery", "Ctpg.Proofs.DriverBasics", "Ctpg.Proofs.RecoveryRefines"],
   [("C08_pop_phase", "pop_phase_refines", "on a syntax error the driver reports once and then discards exactly the states above the topmost one that accepts the error symbol (none if the top does), keeping everything below"),
    ("C08_no_pop_when_top_accepts", "C08_no_pop_when_top_accepts", "discarding none if the current state already can"),
    ("C08_keeps_lower_values", "C08_keeps_lower_values", "values of states that are not discarded are kept"),
    ("C08_pops_only_rejecting_states", "C08_pops_only_rejecting_states", "every discarded state rejects the error symbol"),
    ("C08_acting_on_the_error_symbol", "recovering_step", "in recovery mode an accepting top state performs exactly the table's action for the error symbol"),
    ("C08_consume_phase", "consume_phase_refines", "after the shift, terms are discarded one at a time until the first one the parser can act on"),
    ("C08_fails_iff", "C08_fails_iff", "recovery fails exactly when the stack is exhausted, the input ends while discarding, or the lexer fails"),
    ("C08_one_report_per_error", "C08_one_report_per_error", "each error is reported once: between two reports the error symbol was shifted"),
    ("C08_whole_run_refines_spec", "C08_refines_run", "whole runs: whatever the declarative specification predicts, the driver does"),
    ("C08_whole_run_predicted_by_spec", "C08_run_predicted", "and whatever the driver does, the specification predicts")]),
 "C09": ("Failures are reported once, at the right place, and never silently",
   ["Ctpg.Proofs.DriverBasics", "Ctpg.Proofs.DriverPos", "Ctpg.Proofs.ReportOne", "Ctpg.Proofs.ReportLang", "Ctpg.Proofs.ReportLazy", "Ctpg.Proofs.ReportViable", "Ctpg.Proofs.ReportHalt", "Ctpg.Proofs.ReportCex", "Ctpg.Proofs.LRComplete", "Ctpg.Valid.LRProductive", "Ctpg.Proofs.TermViable", "Ctpg.Proofs.TermAll"],
   [("C09_one_message", "one_message_quiet", "without error rules a quiet parse writes nothing on success and exactly one message on failure"),
    ("C09_one_message_any_verbosity", "one_message", "the same count among the verbose lines"),
    ("C09_message_position_and_byte", "one_message_pos", "the message carries the true position, and Unexpected character names the byte at that position"),
    ("C09_unexpected_character_stops_at_once", "unexpected_char_stops", "a lexical failure ends the parse immediately; it is the last line"),
    ("C09_error_not_later_than_necessary", "error_not_later_than_necessary", "immediate error detection: when the syntax error names term a after prefix u, no sentence has the prefix u ++ [a] (and at end of input the input is not a sentence)"),
    ("C09_lexer_not_consulted_beyond_the_offending_term", "syntax_error_lexer_lazy", "reported before any later input is examined"),
    ("C09_reject_iff_not_in_language_for_halting_runs", "reject_iff_not_in_language_halting", "empty result exactly when the input is not in the language (for runs that halt; halting on every non-sentence is not proved)"),
    ("C09_reject_iff_not_in_language", "decides_language_checked", "never silently, unconditionally: for a table that passes term_checks and has no error rules, some fuel decides - derivable inputs are accepted with their tree, all others are rejected (and rejected runs write their one message, C09_one_message)"),
    ("C09_every_outcome", "tree_run_outcomes", "every outcome is: accepted with a derivation tree, rejected and not derivable, or out of fuel"),
    ("C09_shifted_prefix_is_viable_partial", "shifted_prefix_viable_partial", "the 'not earlier' half for productive grammars: what has been shifted is a prefix of a sentence"),
    ("C09_nonproductive_refuted", "shifted_prefix_not_viable", "REFUTED in general (known finding NP): a validated table can shift a term no sentence continues")]),
 "C13": ("context_parse hands the caller's context to exactly the contextual functors",
   ["Ctpg.Proofs.DriverBasics", "Ctpg.Proofs.DriverEval"],
   [("C13_context_threaded_in_reduction_order", "run_tree_eval", "the context the caller gets back is the one threaded through the functor calls in post-order (reduction order); every call receives the context left by the previous call"),
    ("C13_parse_equals_context_parse_when_context_is_ignored", "run_tree_eval_ctx_free", "functors that ignore the context ('>=') leave it untouched and the result does not depend on it"),
    ("C13_same_calls_for_every_context_type", "run_same_path", "the sequence of reductions does not depend on the context or value types")]),
 "C15": ("A parser object is immutable: parses are independent and thread-safe",
   ["Ctpg.Model.FrameFacts", "Ctpg.Proofs.Conc"],
   [("C15_frame_condition_holds_on_the_source", "frame_holds", "regenerated from ctpg.hpp on every run: every member function on the parse / diagnostics path is const, no mutable, const_cast, thread_local or non-const static data, library globals are constexpr, the custom lexer instance is a local"),
    ("C15_schedule_independent", "schedule_independent", "after any interleaving each call is exactly where it would be after running alone for as many steps"),
    ("C15_concurrent_result_is_isolated_result", "concurrent_result_is_isolated_result", "each call gets the result it would give in isolation"),
    ("C15_history_independent", "history_independent", "earlier calls (accepted, failed, recovered) cannot influence a later one"),
    ("C15_result_is_final", "result_is_final", "a finished call keeps its result whatever the others do")]),
 "C19": ("Helper functors pick and forward exactly the documented positions",
   ["Ctpg.Model.Helpers", "Ctpg.Proofs.HelpersCorrect"],
   [("C19_element", "element_is_nth", "_eN returns the N-th right-side value for every arity"),
    ("C19_element_reads_nothing_else", "element_reads_only_its_position", "and depends on no other argument"),
    ("C19_construct", "construct_is_mk_nth", "construct<T,I> builds T from the I-th value"),
    ("C19_append", "append_to_picks_C_and_A", "push_back<C,A> / emplace_back<C,A> append the A-th value to the C-th, container before or after the element"),
    ("C19_append_reads_nothing_else", "append_to_reads_only_C_and_A", "and depend on no other argument"),
    ("C19_val", "val_ignores_arguments", "val(v) returns v regardless of arguments"),
    ("C19_create", "create_ignores_arguments", "create<T> returns a default T regardless of arguments")]),

 "C17": ("Malformed patterns and grammars are rejected at construction",
   ["Ctpg.Valid.LRSafe", "Ctpg.Proofs.DriverBasics", "Ctpg.Proofs.SafeDriver", "Ctpg.Proofs.PatternLex", "Ctpg.Proofs.PatternParse", "Ctpg.Proofs.PatternDecode", "Ctpg.Proofs.AnalyzeUndeclared"],
   [("C17_scanning_never_reads_past_the_end", "no_over_read", "scanning ANY byte string as a pattern, well-formed or not, at any offset, never reads beyond the terminator"),
    ("C17_tokens_in_range", "lex_at_in_range", "every token the scanner delivers is non-empty, lies inside the pattern and is one of the ten pattern terms"),
    ("C17_pattern_parse_never_crashes", "pattern_parse_no_crash", "parsing any string as a pattern never performs an out-of-range access"),
    ("C17_only_wellformed_patterns_get_a_meaning", "parse_pattern_wellformed", "if a pattern gets a meaning then the whole string was scanned into tokens and the token string is derivable in the pattern grammar: nothing outside the syntax is given a meaning"),
    ("C17_raw_nonprintable_byte_rejected", "nonprintable_rejected", "a raw non-printable byte anywhere (in a set, after a backslash, bytes >= 0x80) makes the pattern invalid"),
    ("C17_empty_pattern_rejected", "empty_pattern_rejected", "the empty pattern is invalid"),
    ("C17_unterminated_set_rejected", "unterminated_set_rejected", "an unterminated set is invalid"),
    ("C17_decoder_stays_inside_the_lexeme", "decoder_in_range", "the set decoder re-scans exactly the lexeme the scanner delivered and reads nothing outside it"),
    ("C17_undeclared_symbol_rejected", "find_str_none_analyze_none", "a rule mentioning a nonterminal or term that is not declared makes rule analysis fail ('string not found')")]),
 "C01g": None,
}
def coq_type(imports, lemma):
    src = "".join(f"Require Import {m}.\n" for m in imports) + "Set Printing Width 100000.\nSet Printing Depth 100000.\n" + f"Check {lemma}.\n"
    open(f"{COQ}/Dbg_chk.v", "w").write(src)
    out = subprocess.run(f"cd {COQ} && coqc -Q . Ctpg Dbg_chk.v", shell=True, capture_output=True, text=True).stdout
    for ext in (".v", ".vo", ".vok", ".vos", ".glob"):
        try: os.remove(f"{COQ}/Dbg_chk{ext}")
        except OSError: pass
    m = re.search(r"^%s\s*:\s*(.*)\Z" % re.escape(lemma), out, re.S | re.M)
    if not m: raise SystemExit(f"cannot get type of {lemma}: {out[-500:]}")
    return " ".join(m.group(1).split())
def main():
    for pid, spec in SPEC.items():
        if spec is None or (len(sys.argv) > 1 and pid not in sys.argv[1:]): continue
        title, mods, thms = spec
        imports = IMPORTS + mods
        L = [f"(* {pid} - {title}. Theorems only: each statement is printed by Coq from the lemma it is closed with. *)"]
        L += [f"Require Import {m}." for m in imports]
        L.append("From Coq Require Import Permutation.")
        for name, lemma, comment in thms:
            ty = coq_type(imports, lemma).replace("2 * length []", "2 * length (@nil nat)")
            L.append(f"\n(* {comment} *)\nTheorem {name} :\n  {ty}.\nProof. exact {lemma}. Qed.\nPrint Assumptions {name}.")
        open(f"{COQ}/Props/Properties_{pid}.v", "w").write("\n".join(L) + "\n")
        r = subprocess.run(f"cd {COQ} && timeout 600 coqc -Q . Ctpg Props/Properties_{pid}.v", shell=True, capture_output=True, text=True)
        print(pid, "ok" if r.returncode == 0 else "FAILED", (r.stdout + r.stderr)[-400:] if r.returncode else "")
main()
