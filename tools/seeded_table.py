#!/usr/bin/env python3
"""seeded_table.py: markdown table of the seeded changes and which checks catch them (from seeded/*/meta.json, matrix.json)."""
import json, glob, os, re
rows = []
for d in sorted(glob.glob("/verif/seeded/*/")):
    sid = os.path.basename(d[:-1]); own = sid.split("-")[0]
    try: m = json.load(open(d + "meta.json"))
    except Exception: continue
    c = m.get("checks_that_catch_it", {})
    desc = m.get("summary", "")
    if not desc:
        try:
            txt = open(d + "README.txt", errors="replace").read()
            lines = [l.strip() for l in txt.split("\n") if l.strip() and not set(l.strip()) <= set("=-#*")]
            desc = " ".join(lines[:2])
        except Exception: desc = ""
    desc = re.sub(r"\s+", " ", desc)[:150].replace("|", "/")
    o = c.get(own, "not run")
    o = {"VIOLATION with failing input": "failing input", "VIOLATION no-failing-input-found": "no-failing-input-found", "no alarm": "**no alarm**"}.get(o, o[:40])
    others = sorted(k for k, v in c.items() if k != own and v.startswith("VIOLATION"))
    rows.append(f"| {sid} | {desc} | {o} | {' '.join(others) or '-'} |")
print("| change | what it does (from the sub-agent's README) | check of its own property | other checks that fire |\n|---|---|---|---|")
print("\n".join(rows))
