#!/usr/bin/env python3
"""adopt_mutations.py <property id> <scratch worktree> <first new index>: copies mutations/<i> of a sub-agent's worktree to
seeded/<id>-<n>, confirms each with tools/confirm_mutation.sh (tests pass with the change, demo fails with it, passes without)
and writes meta.json. Keeps only confirmed ones."""
import sys, os, json, shutil, subprocess
pid, wt, first = sys.argv[1], sys.argv[2], int(sys.argv[3])
n = first
for i in (1, 2, 3):
    src = f"{wt}/mutations/{i}"
    if not os.path.exists(src + "/patch.diff"): continue
    dst = f"/verif/seeded/{pid}-{n}"
    shutil.rmtree(dst, ignore_errors=True); shutil.copytree(src, dst)
    out = subprocess.run(["/verif/tools/confirm_mutation.sh", wt, dst], capture_output=True, text=True).stdout
    lines = out.strip().split("\n")
    ok = "demo_without_change_exit=0" in lines and any(l.startswith("demo_with_change_exit=") and not l.endswith("=0") for l in lines) and any("100% tests passed" in l for l in lines)
    print(pid, n, "CONFIRMED" if ok else "NOT CONFIRMED", lines)
    if not ok: shutil.rmtree(dst); continue
    for junk in ("demo_orig.log", "demo_mut.log", "demo_orig.out"): 
        try: os.remove(f"{dst}/{junk}")
        except OSError: pass
    json.dump({"breaks_property": pid, "round": int(os.environ.get("ROUND", "2")), "source": "independent sub-agent given only the property text and a scratch worktree (round %s)" % os.environ.get("ROUND", "2"),
               "needs_to_manifest": "see README.txt (written by the sub-agent)",
               "confirmed_by_me": {"what_i_ran": "tools/confirm_mutation.sh <worktree> <mutation dir>: 56 tests with the change (cmake+ctest), demo with the change, demo without", "result": lines},
               "checks_that_catch_it": {}}, open(f"{dst}/meta.json", "w"), indent=1)
    n += 1
