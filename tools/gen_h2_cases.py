#!/usr/bin/env python3
"""usage: gen_h2_cases.py <out.cases> <seed> <n_patterns> <n_termsets> <exhaustive_len> <malformed:0/1> [meta.json]
Pattern families for H2: grammar-directed random patterns, the forced shapes named in C03/C04, a deterministic-only
stream, malformed patterns (one-edit neighbours, exhaustive short strings over a special alphabet), term sets."""
import sys, json, random, itertools

ATOMS = ["a", "b", "c", "[a-c]", "[^a]", ".", "\\x41", "\\|", "[ab]", "d", "\\.", "[a\\]c]", "\\x", "\\x4", "0", "7", "[b-a]", "[a-c-e]", "[\\x61-\\x63]", "[]", "[^]", "]", "-", "^"]
SIMPLE_ATOMS = ["a", "b", "c", "[a-c]", "[ab]", "d"]

def rand_pattern(rng, depth, atoms):
    if depth <= 0 or rng.random() < 0.25: return rng.choice(atoms)
    k = rng.random()
    sub = lambda: rand_pattern(rng, depth - 1, atoms)
    def grp(p): return p if len(p) == 1 or (p.startswith("[") and p.endswith("]") and p.count("[") == 1 and "\\]" not in p) else "(" + p + ")"
    if k < 0.30: return sub() + sub()
    if k < 0.45: return grp(sub()) + "|" + grp(sub()) if rng.random() < 0.5 else "(" + sub() + "|" + sub() + ")"
    if k < 0.57: return grp(sub()) + "*"
    if k < 0.69: return grp(sub()) + "+"
    if k < 0.79: return grp(sub()) + "?"
    if k < 0.89: return grp(sub()) + "{" + str(rng.choice([0, 1, 2, 2, 3, 4, 10])) + "}"
    return "(" + sub() + ")"

FORCED = ["a*a", "a+a", "a?a", "[ab]*b", "(a|b)*abb", "(ab)*a", "(a*|bc)+c", "(b+|c?)+", "(a*|c)+", "(c*){0}", "c((c+){0})*",
          "ab|ac", "(ab|ac)d", "a(b|c)*", "(a{2}){3}", "a{0}", "a{1}", "a{3}b", "(ab){2}c", "(a|b){2}", "a|b|c", "(a|b)|c", "a|(b|c)",
          "abc", "a", ".", ".*", "[^a]*", "[a-c]+d", "\\x41\\x42", "\\(a\\)", "a\\*", "(a)", "((a))", "(a)(b)", "a?b?c?", "(ab)?c", "a*b*", "(a*)*",
          "(a+)+", "(a?)*", "x(y|z)+w", "[0-9]+", "[a-zA-Z_][a-zA-Z_0-9]*", "0|[1-9][0-9]*", "\"[^\"]*\"", "1{2}", "12", "a{10}", "(a|ab)(c|bcd)",
          "[\\x20-\\xff]", "[a-\\xff]+", "[^\\x00-\\x9f]", "[\\x7f-\\x80]", "a b", "a  b*", "[ab] c", "( a)", "a{100}", "a{123}b", "(ab){101}c",
          "\\x", "\\x4", "\\x4g", "[\\x]", "[a-\\x63]", "[--a]", "[a\\-c]", "\\\\", "[\\\\]", "\\x00", "[\\x00-\\x1f]", "[^\\x00-\\x7f]", "\\xff", "[\\x80-\\xff]+"]
DET_ONLY = ["abc", "a|b", "ab|cd", "(ab|cd)e", "a(b|c)d", "a?b", "ab*c", "ab+c", "(ab)+c", "(ab)*c", "a{3}", "(ab){2}", "[a-c]d", "a|b|c|d", "(a|b)(c|d)", "ab?c", "a(bc)?d", "x[0-9]+y", "(ab|c)*d"]
MALFORMED = ["(", ")", "(a", "a)", "()", "a|", "|a", "a||b", "*", "+a", "?", "a**", "a*+", "a{", "a{}", "a{2", "a{x}", "{2}", "[", "[a", "[a-", "[a-]", "[^", "\\", "a\\", "(|a)", "(a|)", "a{2}{3}", "a{-1}", "\x01", "a\x7f", "a\x80b", "\t", " a", "a b", "[\x01]", "[a-\x01]", "\\\x01", "((a)", "(a))", "a|*", "(*a)", "a{2,3}", "[a-]]", "[]]"]
SPECIAL_ALPHABET = ["a", "b", "0", "(", ")", "[", "]", "|", "*", "+", "?", "{", "}", "\\", "-", "^", ".", "x", "\x00", "\x80"]

def alphabet_of(p):
    al = sorted({c for c in p if c.isalnum()})[:3] or ["a"]
    return al

def strings_for(p, rng, exl, extra):
    al = [ord(c) for c in alphabet_of(p)] + [rng.choice([122, 0, 200, 10, 65])]
    out = []
    for L in range(0, exl + 1):
        for combo in itertools.product(al, repeat=L): out.append(list(combo))
    for _ in range(extra):
        out.append([rng.choice(al) for _ in range(rng.randint(exl + 1, 30))])
    return out

def w(f, tag, bs): f.write(f"{tag} {len(bs)} " + " ".join(str(b) for b in bs) + "\n")
def enc(s): return [ord(c) & 255 for c in s]

def main():
    out, seed, npat, nts, exl, mal = sys.argv[1], int(sys.argv[2]), int(sys.argv[3]), int(sys.argv[4]), int(sys.argv[5]), int(sys.argv[6])
    rng = random.Random(seed); meta = {}; cid = 0
    with open(out, "w") as f:
        def pat_case(p, fam, nstr=None):
            nonlocal cid
            f.write(f"CASE {cid}\n"); w(f, "PAT", enc(p))
            strs = strings_for(p, rng, exl, 4) if nstr is None else nstr
            for s in strs: w(f, "STR", s)
            f.write("END\n"); meta[str(cid)] = {"family": fam, "pattern": p, "n_strings": len(strs)}; cid += 1
        for p in FORCED: pat_case(p, "forced")
        # repetition counts with three digits need strings that long
        A = lambda n, tail="": [97] * n + [ord(c) for c in tail]
        pat_case("a{100}", "forced-count", [A(100), A(10), A(99), A(101), A(1), []])
        pat_case("a{123}b", "forced-count", [A(123, "b"), A(33, "b"), A(122, "b"), A(124, "b"), A(123)])
        pat_case("(ab){101}c", "forced-count", [[97, 98] * 101 + [99], [97, 98] * 11 + [99], [97, 98] * 100 + [99], [97, 98] * 101])
        pat_case("b[01]{128}", "forced-count", [[98] + [48, 49] * 64, [98] + [48] * 38, [98] + [49] * 127, [98] + [48] * 129])
        for p in DET_ONLY: pat_case(p, "deterministic")
        for _ in range(npat):
            if rng.random() < 0.3: pat_case(rand_pattern(rng, rng.randint(1, 4), SIMPLE_ATOMS), "random-simple")
            else: pat_case(rand_pattern(rng, rng.randint(1, 5), ATOMS), "random")
        if mal:
            for p in MALFORMED: pat_case(p, "malformed", [])
            # one-edit neighbours of well-formed patterns
            for _ in range(npat // 2):
                p = list(rand_pattern(rng, rng.randint(1, 3), ATOMS))
                op = rng.choice(["drop", "dup", "ins"])
                pos = rng.randrange(len(p)) if p else 0
                if op == "drop" and p: p.pop(pos)
                elif op == "dup" and p: p.insert(pos, p[pos])
                else: p.insert(pos, rng.choice(["(", ")", "[", "]", "*", "+", "?", "{", "}", "|", "\\", "\x01", "\x80"]))
                pat_case("".join(p), "mutated", [])
            # exhaustive short strings over the special alphabet
            for L in range(0, mal + 1):
                for combo in itertools.product(SPECIAL_ALPHABET, repeat=L): pat_case("".join(combo), "exhaustive-special", [])
        # term sets
        TS_FORCED = [
            [(1, "if"), (2, "[a-z]+")], [(2, "[a-z]+"), (1, "if")], [(0, "="), (1, "==")], [(1, "=="), (0, "=")],
            [(1, "ab"), (1, "abc"), (1, "a")], [(1, "for"), (1, "for")], [(2, "[0-9]+"), (2, "[0-9]+\\.[0-9]+"), (0, ".")],
            [(2, "a+"), (2, "a*b"), (1, "aab"), (0, "a"), (2, "[ab]+"), (2, "a|b")], [(0, "a"), (0, "b"), (0, "c")],
            [(2, "\"[^\"]*\""), (2, "[a-z]+"), (0, "\n")], [(1, "int"), (1, "integer"), (2, "[a-z]+"), (2, "[0-9]+")],
            [(2, "a"), (2, "a"), (2, "a"), (2, "a"), (2, "a"), (2, "a")],
        ]
        def ts_case(ts, fam):
            nonlocal cid
            f.write(f"CASE {cid}\n")
            for k, s in ts: f.write(f"TERM {k} {len(s)} " + " ".join(str(ord(c) & 255) for c in s) + "\n")
            al = sorted({c for _, s in ts for c in s if c.isalnum() or c in "=."})[:4] or ["a"]
            ab = [ord(c) for c in al] + [32]
            strs = []
            for L in range(0, min(exl, 3) + 1):
                for combo in itertools.product(ab, repeat=L): strs.append(list(combo))
            for k, s in ts:
                if k != 2: strs.append(enc(s)); strs.append(enc(s) + [rng.choice(ab)]); strs.append(enc(s)[:-1])
            for s in strs: w(f, "STR", s)
            f.write("END\n"); meta[str(cid)] = {"family": fam, "terms": ts, "n_strings": len(strs)}; cid += 1
        for ts in TS_FORCED: ts_case(ts, "termset-forced")
        for _ in range(nts):
            n = rng.randint(1, 6); ts = []
            for _ in range(n):
                k = rng.choice([0, 1, 1, 2, 2])
                if k == 0: ts.append((0, rng.choice("abc=+")))
                elif k == 1: ts.append((1, "".join(rng.choice("abc") for _ in range(rng.randint(1, 4)))))
                else: ts.append((2, rand_pattern(rng, rng.randint(1, 3), SIMPLE_ATOMS)))
            ts_case(ts, "termset-random")
    if len(sys.argv) > 7: json.dump(meta, open(sys.argv[7], "w"))
    print(f"cases={cid}")
main()
