#!/usr/bin/env python3
"""usage: gen_h1_cases.py <carriers.json> <out.cases> <seed> <n_random_grammars> <n_inputs> <exhaustive_len> [meta.json]"""
import sys, json, random
sys.path.insert(0, __file__.rsplit("/", 1)[0])
from grammars import *
from inputs import make_inputs

def main():
    cj, out, seed, ng, nin, exl = sys.argv[1], sys.argv[2], int(sys.argv[3]), int(sys.argv[4]), int(sys.argv[5]), int(sys.argv[6])
    carriers = json.load(open(cj)); rng = random.Random(seed)
    meta = {}
    with open(out, "w") as f:
        cid = 0
        def emit(ab, cname):
            nonlocal cid
            cm = carriers[cname]
            case = fit(ab, cm, random.Random(int(__import__('hashlib').sha256(repr((ab.name, ab.rules, seed)).encode()).hexdigest()[:8], 16)))
            if case is None: return False
            lex = default_lex(cm["terms"])
            ins = make_inputs(case, rng, cm["lexer"] == "generated", nin * 4 if ab.name == "rand-ops" else nin, exl)
            name = f"{cid}:{ab.name}:{cname}"
            write_case(f, cid, cname, cm, case, lex, ins)
            meta[str(cid)] = {"name": ab.name, "carrier": cname, "rules": [[l, r] for l, r in ab.rules], "prec": ab.prec, "rule_prec": {str(k): v for k, v in ab.rule_prec.items()}, "info": case["info"], "n_inputs": len(ins)}
            cid += 1; return True
        for ab in FORCED:
            has_err = any(ERR in r for _, r in ab.rules)
            for cname in (["E", "B"] if has_err else ["A", "E", "B", "C"]):
                emit(ab, cname)
        rng_ops = random.Random(seed * 7919 + 13)        # its own stream: the other families keep their cases
        for i in range(max(12, ng // 8)):
            cname = rng_ops.choice(["A", "E", "B", "C"])
            emit(random_operators(rng_ops, carriers[cname]), cname)
        for i in range(ng):
            cname = rng.choice(["A", "A", "E", "E", "B", "C"])
            ab = random_abstract(rng, carriers[cname], allow_err=(cname in ("E", "B") and rng.random() < 0.5))
            emit(ab, cname)
    if len(sys.argv) > 7: json.dump(meta, open(sys.argv[7], "w"))
    print(f"cases={cid}")
main()
