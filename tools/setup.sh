#!/bin/bash
# Builds the framework from files on disk: full Coq .vo build, extraction + OCaml drivers, C++ harnesses.
set -e
cd /verif/coq
python3 /verif/tools/source_facts.py || true
coq_makefile -f _CoqProject -o Makefile > /dev/null
timeout 3000 make -j16 2>&1 | tail -5
cd /verif
python3 - <<'PY'
import sys; sys.path.insert(0, "/verif/lib")
from common import *
print("model bins:", ensure_model_bins())
print("h1:", ensure_h1()[0]); print("h2:", ensure_h2()[0])
PY
