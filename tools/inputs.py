"""Input families for H1: exhaustive short strings, sentences sampled from the grammar, token-level mutations,
whitespace/newline interleaving, multi-byte lexemes."""
import itertools, random

def used_terms(case):
    T = case["tc"] - 2
    ts = sorted({i for r, syms in enumerate(case["rs"][:-1]) for (t, i) in syms if t and i < T and case_slot_used(case, r)})
    return ts or [0]

def case_slot_used(case, r):
    pad = case["ntc"] - 2
    return any(l != pad and rr == r for (l, rr, n) in case["ri"])

def sample_sentence(case, rng, maxdepth=7):
    """random derivation from the root; returns list of term indices or None"""
    ntc = case["ntc"]; root_rule = case["rc"] - 1
    by_l = {}
    for (l, r, n) in case["ri"]: by_l.setdefault(l, []).append(r)
    T = case["tc"] - 2
    out = []
    def go(sym, depth):
        t, i = sym
        if t:
            if i >= T: return False       # error symbol is not input
            out.append(i); return True
        rules = by_l.get(i, [])
        if not rules: return False
        if depth > 3 * maxdepth: return False
        if depth > maxdepth: rules = sorted(rules, key=lambda r: len(case["rs"][r]))[:1]
        r = rng.choice(rules)
        for s in case["rs"][r]:
            if not go(s, depth + 1): return False
            if len(out) > 60: return False
        return True
    ok = go((0, case["rs"][root_rule][0][1]), 0)
    return out if ok else None

def encode(tokens, rng, generated_lexer, ws_level):
    b = []
    for t in tokens:
        if ws_level and rng.random() < 0.3 * ws_level:
            b += rng.choice([[32], [9], [10], [13], [11, 12], [32, 10, 32], [10, 10]])
        if t < 0: b.append(rng.choice([120, 63, 0, 200, 255]))     # a byte no term matches
        elif generated_lexer or rng.random() < 0.8: b.append(97 + t)
        elif rng.random() < 0.7: b += [65 + t, rng.choice([97, 10, 32, 122, 0, 255])]
        else: b += [48 + t, rng.choice([10, 98]), rng.choice([10, 99])]
    if ws_level and rng.random() < 0.3: b += rng.choice([[32], [10], [9, 10]])
    return b

def make_inputs(case, rng, generated_lexer, n_random, exhaustive_len):
    ts = used_terms(case)
    ins = []
    seen = set()
    def add(tokens, ws_level, opts=None):
        b = encode(tokens, rng, generated_lexer, ws_level)
        v, w, n = opts if opts else (rng.random() < 0.6, rng.random() < 0.85, rng.random() < 0.8)
        key = (tuple(b), v, w, n)
        if key in seen: return
        seen.add(key); ins.append((int(v), int(w), int(n), b))
    for L in range(0, exhaustive_len + 1):
        for combo in itertools.product(ts, repeat=L):
            add(list(combo), 0, (L % 2 == 0, True, True))
    for _ in range(n_random):
        s = sample_sentence(case, rng)
        if s is None: s = [rng.choice(ts) for _ in range(rng.randint(0, 8))]
        add(s, rng.choice([0, 1, 2]))
        m = list(s)
        for _ in range(rng.choice([1, 1, 2, 3])):
            op = rng.choice(["ins", "del", "sub", "junk", "dup"])
            pos = rng.randint(0, len(m))
            if op == "ins": m.insert(pos, rng.choice(ts))
            elif op == "del" and m: m.pop(min(pos, len(m) - 1))
            elif op == "sub" and m: m[min(pos, len(m) - 1)] = rng.choice(ts)
            elif op == "junk": m.insert(pos, -1)
            elif op == "dup" and m: m.insert(pos, m[min(pos, len(m) - 1)])
        add(m, rng.choice([0, 1, 2]))
    return ins
