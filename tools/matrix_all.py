#!/usr/bin/env python3
"""matrix_all.py [-j K] [--checks C01,C02,...] [seeded ids...]: runs the checks against every seeded change, each in its own
scratch copy of /verif and its own scratch worktree of /repo (outside both, removed afterwards), K changes at a time.
Writes seeded/<id>/matrix.json and updates meta.json (checks_that_catch_it). /repo itself is never touched."""
import sys, os, json, subprocess, re, shutil, argparse, concurrent.futures as cf
V = "/verif"; SNAP = None; SCR = f"/var/tmp/ctpg_mx_{os.getpid()}"
ALL = [f"C{i:02d}" for i in range(1, 20)]

def sh(cmd, **kw):
    p = subprocess.run(cmd, shell=True, stdout=subprocess.PIPE, stderr=subprocess.STDOUT, **kw)
    return p.returncode, p.stdout.decode("latin1")

def one(sid, checks):
    d = f"{SCR}/{sid}"; shutil.rmtree(d, ignore_errors=True); os.makedirs(d)
    res = {}
    try:
        rc, out = sh(f"git -C /repo worktree add --detach {d}/repo HEAD && git -C {d}/repo apply {V}/seeded/{sid}/patch.diff")
        if rc: return sid, {"error": "patch does not apply: " + out[-300:]}
        sh(f"rsync -a --exclude /.git --exclude /.cache --exclude /replays --exclude /evidence --exclude /seeded {SNAP}/ {d}/verif/")
        os.makedirs(f"{d}/verif/evidence", exist_ok=True)
        env = dict(os.environ, CTPG_VERIF_ROOT=f"{d}/verif", CTPG_REPO=f"{d}/repo")
        for c in checks:
            try:
                rc, out = sh(f"timeout 3000 {d}/verif/check {c} --tier quick", env=env, timeout=3100)
            except subprocess.TimeoutExpired:
                rc, out = 124, "TIMEOUT"
            v = [l for l in out.split("\n") if l.startswith("VIOLATION")]
            b = [l for l in out.split("\n") if l.startswith("CHECK-BROKEN")]
            if rc == 0 and not v: r = "no alarm"
            elif v: r = "VIOLATION no-failing-input-found" if "no-failing-input-found" in v[0] else "VIOLATION with failing input"
            else: r = f"rc={rc} " + (b[0][:200] if b else out[-200:])
            what = ""
            m = re.search(r"replay=(\S+)", v[0]) if v else None
            if m and os.path.exists(m.group(1)):
                try:
                    rj = json.load(open(m.group(1)))
                    what = json.dumps(rj.get("failures", rj.get("what", rj)))[:400]
                except Exception: what = open(m.group(1), errors="replace").read()[:400]
            res[c] = {"result": r, "what": what}
    finally:
        sh(f"git -C /repo worktree remove --force {d}/repo; git -C /repo worktree prune")
        shutil.rmtree(d, ignore_errors=True)
    return sid, res

def main():
    ap = argparse.ArgumentParser(); ap.add_argument("-j", type=int, default=4); ap.add_argument("--checks", default=",".join(ALL)); ap.add_argument("--own", action="store_true", help="only the check of the property the change was made for"); ap.add_argument("ids", nargs="*")
    a = ap.parse_args()
    ids = a.ids or sorted(x for x in os.listdir(V + "/seeded") if os.path.exists(f"{V}/seeded/{x}/patch.diff"))
    checks = a.checks.split(",")
    os.makedirs(SCR, exist_ok=True)
    global SNAP
    SNAP = SCR + "/snapshot"      # the machinery as it is now: later edits under /verif do not leak into running jobs
    sh(f"rsync -a --exclude /.git --exclude /.cache --exclude /replays --exclude /evidence --exclude /seeded {V}/ {SNAP}/")
    with cf.ThreadPoolExecutor(a.j) as ex:
        for sid, res in ex.map(lambda s: one(s, [s.split('-')[0]] if a.own else checks), ids):
            mp = f"{V}/seeded/{sid}/meta.json"
            m = json.load(open(mp)) if os.path.exists(mp) else {}
            if "error" not in res:
                m.setdefault("checks_that_catch_it", {})
                for c, r in res.items(): m["checks_that_catch_it"][c] = r["result"]
                json.dump(m, open(mp, "w"), indent=1)
            json.dump(res, open(f"{V}/seeded/{sid}/matrix.json", "w"), indent=1)
            own = sid.split("-")[0]
            fired = [c for c, r in res.items() if isinstance(r, dict) and r.get("result", "").startswith("VIOLATION")]
            print(sid, "own:", res.get(own, {}).get("result") if "error" not in res else res["error"], "| fired:", " ".join(fired), flush=True)
    shutil.rmtree(SCR, ignore_errors=True)

if __name__ == "__main__":
    main()
