// D6 [C06,C07]: on a lexical error get_current_term formed current_it + 65535 before testing for failure.
#include "common.hpp"
#include "checked_buffer.hpp"
constexpr nterm<V> S("S");
constexpr parser p(S, terms('a','b'), nterms(S), rules(S('a','b')));
#ifdef __clang__
// clang's constant evaluator rejects out-of-range pointer arithmetic: this must be a constant expression.
constexpr bool ce = p.parse(cstring_buffer("a?")).has_value();
static_assert(!ce);
#endif
int main() {
  for (std::string in : {"a?", "?", "ab?", "a b", "ab"}) {
    checked_buffer buf(in);
    std::stringstream err;
    auto r = p.parse(buf, err);
    EXPECT(buf.faults == 0, "input '" << in << "': " << buf.first_fault);
    EXPECT(r.has_value() == (in == "ab" || in == "a b"), "wrong verdict on " << in);
  }
  return 0;
}
