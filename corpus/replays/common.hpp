// Shared by the replay programs: each replays one confirmed defect through the public API.
// exit 0 = behaves as the property demands, exit 1 = defect present.
#pragma once
#include <ctpg/ctpg.hpp>
#include <iostream>
#include <sstream>
#include <string>
using namespace ctpg;
using namespace ctpg::buffers;
struct V { template<class... A> constexpr explicit V(A&&...) {} };
#define EXPECT(cond, msg) do { if (!(cond)) { std::cout << "DEFECT: " << msg << "\n"; return 1; } } while (0)
