// D8 [C06,C07,C12] KNOWN FINDING: cstring_buffer stack capacity N + EmptyRulesCount + 1 does not bound
// the number of empty reductions on the stack. S->A A A A A A b; A->eps ; "b" needs 8 stack slots, capacity is 4.
#include "common.hpp"
struct E { constexpr E() {} template<class... A> constexpr explicit E(A&&...) {} };   // trivially destructible + default constructible => cvector stacks
constexpr nterm<E> S("S"), A("A");
constexpr parser p(S, terms('b'), nterms(S,A), rules(S(A,A,A,A,A,A,'b') >= [](auto...){ return E{}; }, A() >= [](){ return E{}; }));
int main() {
  bool viaString = p.parse(string_buffer("b")).has_value();
  EXPECT(viaString, "string_buffer parse of b rejected");
  try {
    bool viaC = p.parse(cstring_buffer("b")).has_value();
    EXPECT(viaC == viaString, "cstring_buffer result differs from string_buffer result");
  } catch (const std::exception& e) { std::cout << "DEFECT: cstring_buffer parse threw: " << e.what() << "\n"; return 1; }
  return 0;
}
