// D9 [C11]: "S/R CONFLICT, prefer shift over reduce(N)" printed rule_infos[target state].r_idx instead of the rule of the reduction.
// Dangling else: E -> x | i E | i E e E ; conflict on 'e' in the state holding  E -> i E .  and  E -> i E . e E ; rule involved: 1.
#include "common.hpp"
constexpr nterm<V> E("E");
constexpr parser p(E, terms('x','i','e'), nterms(E), rules(E('x'), E('i',E), E('i',E,'e',E)));
int main() {
  std::stringstream d; p.write_diag_str(d); std::string s = d.str();
  auto pos = s.find("S/R CONFLICT, prefer shift over reduce(");
  EXPECT(pos != std::string::npos, "no 'prefer shift' conflict line at all");
  size_t n = 0;
  while (pos != std::string::npos) {
    std::string num = s.substr(pos + 39, s.find(')', pos + 39) - (pos + 39));
    EXPECT(num == "1", "conflict line names rule " << num << " but the reduction involved is rule 1 (E <- i E)");
    ++n; pos = s.find("S/R CONFLICT, prefer shift over reduce(", pos + 1);
  }
  std::cout << n << " conflict lines name rule 1\n";
  return 0;
}
