// D13 [C08]: recovery popped the erroring state before offering it the error symbol.
#include "common.hpp"
#include <vector>
using namespace ctpg::ftors;
using L = std::vector<int>;
constexpr nterm<L> exprs("exprs");
constexpr nterm<int> expr("expr");
constexpr char num_pat[] = "[0-9]+";
constexpr regex_term<num_pat> number("number");
constexpr char_term o_plus('+', 1, associativity::ltor);
constexpr int to_int(std::string_view sv) { int r = 0; for (char c : sv) r = r * 10 + (c - '0'); return r; }
constexpr parser p(exprs, terms(number, o_plus, ';', '(', ')'), nterms(exprs, expr),
  rules(
    exprs() >= create<L>{},
    exprs(exprs, expr, ';') >= push_back<1, 2>{},
    exprs(exprs, error, ';') >= _e1,
    expr(expr, '+', expr) >= [](int a, skip, int b) { return a + b; },
    expr('(', expr, ')') >= _e2,
    expr('(', error, ')') >= [](skip, skip, skip) { return -1; },
    expr(number) >= [](const auto& sv) { return to_int(sv); }));
static bool run(const char* in, bool ok, L want) {
  std::stringstream err;
  auto r = p.parse(string_buffer(in), err);
  if (r.has_value() != ok || (ok && *r != want)) {
    std::cout << "DEFECT: input '" << in << "' gave " << (r ? "value [" : "no value");
    if (r) { for (int x : *r) std::cout << x << ","; std::cout << "]"; }
    std::cout << "\n"; return false; }
  return true;
}
int main() {
  bool ok = true;
  ok &= run("1;2;", true, {1, 2});
  ok &= run("1;;2;", true, {1, 2});          // error in a state that itself accepts the error symbol: keep "1;"
  ok &= run("(+)+1;", true, {0});            // inner ( error ) rule applies: -1 + 1
  ok &= run("+;1;", true, {1});              // state 0 reduces exprs->eps on the error symbol, then shifts it
  ok &= run(";", true, {});
  ok &= run("1;+", false, {});               // input ends while discarding
  return ok ? 0 : 1;
}
