// D2 [C01]: slice FIRST memo stride. S->a A; B->b; A->C B; C->eps | c  (rule order matters), "ab" derivable.
#include "common.hpp"
constexpr nterm<V> S("S"), A("A"), B("B"), C("C");
constexpr parser p(S, terms('a','b','c'), nterms(S,A,B,C),
  rules(S('a',A), B('b'), A(C,B), C(), C('c')));
int main() {
  std::stringstream d; p.write_diag_str(d);
  EXPECT(d.str().find("CONFLICT") == std::string::npos, "unexpected conflict line");
  EXPECT(p.parse(string_buffer("ab")).has_value(), "derivable input ab rejected");
  EXPECT(p.parse(string_buffer("acb")).has_value(), "derivable input acb rejected");
  EXPECT(!p.parse(string_buffer("ac")).has_value(), "underivable input ac accepted");
  return 0;
}
