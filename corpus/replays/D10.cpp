// D10 [C12]: custom limits that are too small must make construction fail loudly, not overflow silently.
// Sweeps max_sit_count_per_state_cap 1..40 and state_count_cap 1..12 at run time: each value must either throw
// or give a parser whose diagnostic text (minus the caps line) and verdicts equal those of generous limits.
#include "common.hpp"
#include <utility>
constexpr nterm<V> S("S"), A("A");
template<size_t SC, size_t MS> struct lim { static const size_t state_count_cap = SC; static const size_t max_sit_count_per_state_cap = MS; };
template<class L> static auto make(L l) {
  return parser(S, terms('a','b','c'), nterms(S,A), rules(S(A,'c'), A('a',A), A('b'), A()), use_generated_lexer{}, l);
}
static std::string strip(std::string s) {  // drop the header lines (object size, caps)
  auto p = s.find("RULES"); return p == std::string::npos ? s : s.substr(p);
}
template<class P> static std::string observe(const P& p) {
  std::stringstream d; p.write_diag_str(d); std::string o = strip(d.str());
  for (const char* in : {"aabc", "c", "bc", "ca", "ab", ""}) o += p.parse(string_buffer(in)).has_value() ? "1" : "0";
  return o;
}
static std::string reference;
static int bad = 0, threw = 0, same = 0;
template<size_t SC, size_t MS> static void probe() {
  try { auto p = make(lim<SC, MS>{}); std::string o = observe(p);
        if (o != reference) { ++bad; std::cout << "DEFECT: limits state_count_cap=" << SC << " max_sit_count_per_state_cap=" << MS << " built a parser that differs from the reference without any error\n"; }
        else ++same; }
  catch (const std::exception& e) { ++threw; }
}
template<size_t... I> static void sweep_ms(std::index_sequence<I...>) { (probe<64, I + 1>(), ...); }
template<size_t... I> static void sweep_sc(std::index_sequence<I...>) { (probe<I + 1, 64>(), ...); }
int main() {
  reference = observe(make(lim<64, 64>{}));
  sweep_ms(std::make_index_sequence<40>{});
  sweep_sc(std::make_index_sequence<12>{});
  std::cout << "threw=" << threw << " same=" << same << " bad=" << bad << "\n";
  return bad ? 1 : 0;
}
