// D3 [C01]: closure memo. S->a B b | a A c | d A c; A->B b; B->z ; "dzbc" derivable.
#include "common.hpp"
constexpr nterm<V> S("S"), A("A"), B("B");
constexpr parser p(S, terms('a','b','c','d','z'), nterms(S,A,B),
  rules(S('a',B,'b'), S('a',A,'c'), S('d',A,'c'), A(B,'b'), B('z')));
int main() {
  std::stringstream d; p.write_diag_str(d);
  EXPECT(d.str().find("CONFLICT") == std::string::npos, "unexpected conflict line");
  EXPECT(p.parse(string_buffer("dzbc")).has_value(), "derivable input dzbc rejected");
  EXPECT(p.parse(string_buffer("azb")).has_value(), "derivable input azb rejected");
  EXPECT(p.parse(string_buffer("azbc")).has_value(), "derivable input azbc rejected");
  return 0;
}
