// D4 [C03,C04] KNOWN FINDING: dfa_builder merges states in place where a subset construction is needed.
#include "common.hpp"
#define PAT(name, lit) static constexpr char name##_p[] = lit; constexpr regex::expr<name##_p> name;
PAT(m1a, "a*a") PAT(m1b, "a+a") PAT(m1c, "[ab]*b") PAT(m2, "(a*|c)+") PAT(m3, "(c*){0}") PAT(okp, "(ab|c)*d")
int main() {
  int bad = 0;
  auto chk = [&](const char* pat, bool got, bool want, const char* in) { if (got != want) { ++bad; std::cout << "DEFECT: /" << pat << "/ on '" << in << "' gave " << got << ", language says " << want << "\n"; } };
  chk("a*a", m1a.match(string_buffer("a")), true, "a");
  chk("a+a", m1b.match(string_buffer("a")), false, "a");
  chk("[ab]*b", m1c.match(string_buffer("b")), true, "b");
  chk("(a*|c)+", m2.match(string_buffer("ac")), true, "ac");
  chk("(c*){0}", m3.match(string_buffer("c")), false, "c");
  chk("(ab|c)*d", okp.match(string_buffer("abcd")), true, "abcd");
  return bad ? 1 : 0;
}
