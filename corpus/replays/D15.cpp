// D15 [C11]: the RULES section of write_diag_str numbered rules by their position in the table sorted by left side, while
// "reduce using (N)", the S/R conflict lines and the verbose trace use the position in rules(...). With rules not grouped by
// nonterminal the number N of an action line pointed at a different rule in the RULES list.
#include "common.hpp"
constexpr nterm<V> S("S"), A("A");
// rules(...) order: 0: A -> a ; 1: S -> A b ; 2: A -> c     (A's rules are not adjacent; S is the first nonterminal)
constexpr parser p(S, terms('a','b','c'), nterms(S,A), rules(A('a'), S(A,'b'), A('c')));
int main() {
  std::stringstream d; p.write_diag_str(d); std::string s = d.str();
  // the action "reduce using (0)" is the reduction by  A <- a ; the RULES list must show  A <- a  under number 0
  EXPECT(s.find("reduce using (0)") != std::string::npos, "no 'reduce using (0)' line");
  auto rules = s.substr(s.find("RULES"), s.find("STATES") - s.find("RULES"));
  EXPECT(rules.find("\n0    A <- a\n") != std::string::npos, "RULES lists under number 0: " << rules.substr(rules.find("\n0 ") + 1, rules.find("\n", rules.find("\n0 ") + 1) - rules.find("\n0 ") - 1) << "  (the reduction named 'reduce using (0)' is A <- a)");
  EXPECT(rules.find("\n1    S <- A b\n") != std::string::npos && rules.find("\n2    A <- c\n") != std::string::npos, "RULES numbering differs from rules(...) order");
  return 0;
}
