// D17 [C06] KNOWN FINDING (found by the seed sweep, seed 29): with error rules AND a reachable non-productive nonterminal the parse may
// never terminate: a reduction is made on a lookahead that nothing can continue (the items of non-productive nonterminals contribute no
// lookaheads), the next state rejects the same term, recovery shifts the error symbol again without consuming anything - forever.
// (The proved termination theorem C06_terminates_on_every_input assumes a productive grammar: term_checks.)
#include "common.hpp"
struct stop {};
static long steps = 0;
static int tick() { if (++steps > 100000) throw stop{}; return 0; }
constexpr nterm<int> S("S"), C("C"), A("A");      // A has no rules, C cannot derive a term string
int main() {
  auto p = parser(S, terms('b', 'c'), nterms(S, C, A), rules(
    S('c', error, S) >= [](skip, skip, int) { return tick(); }, C(S, C, A) >= [](int, int, int) { return tick(); },
    S(error) >= [](skip) { return tick(); }, S(C, error, A) >= [](int, skip, int) { return tick(); },
    S('b', A) >= [](skip, int) { return tick(); }, C(C, A, 'b') >= [](int, int, skip) { return tick(); }));
  std::stringstream d; p.write_diag_str(d);
  EXPECT(d.str().find("CONFLICT") == std::string::npos, "the diagnostics report a conflict");
  try { steps = 0; (void)p.parse(string_buffer("bbb")); }
  catch (const stop&) { std::cout << "DEFECT: parse of 'bbb' made more than 100000 reductions: it does not terminate\n"; return 1; }
  return 0;
}
