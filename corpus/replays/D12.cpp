// D12 [C11] KNOWN FINDING: an accept/reduce conflict is hidden by the `break` on success in transitions().
// S -> b | A ; A -> S : the state after S holds  ## -> S .  and  A -> S .  both on <eof>, yet no conflict line is printed.
#include "common.hpp"
constexpr nterm<V> S("S"), A("A");
constexpr parser p(S, terms('b'), nterms(S,A), rules(S('b'), S(A), A(S)));
int main() {
  std::stringstream d; p.write_diag_str(d);
  EXPECT(d.str().find("CONFLICT") != std::string::npos, "no conflict line although '## <- S .' and 'A <- S .' share the lookahead <eof>");
  return 0;
}
