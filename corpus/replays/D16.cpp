// D16 [C06,C07,C12] KNOWN FINDING (found while proving the capacity theorem): the cstring_buffer stack capacity N + EmptyRulesCount + 1
// does not count error-recovery tokens, which take a stack entry without consuming a byte. S -> error a error b ; "ab" needs 5 slots, capacity is 4.
#include "common.hpp"
struct E { constexpr E() {} template<class... A> constexpr explicit E(A&&...) {} };   // trivially destructible + default constructible => cvector stacks
constexpr nterm<E> S("S");
constexpr parser p(S, terms('a', 'b'), nterms(S), rules(S(error, 'a', error, 'b') >= [](auto...){ return E{}; }));
int main() {
  bool viaString = p.parse(string_buffer("ab")).has_value();
  EXPECT(viaString, "string_buffer parse of ab (two recoveries) rejected");
  try {
    bool viaC = p.parse(cstring_buffer("ab")).has_value();
    EXPECT(viaC == viaString, "cstring_buffer result differs from string_buffer result");
  } catch (const std::exception& e) { std::cout << "DEFECT: cstring_buffer parse threw: " << e.what() << "\n"; return 1; }
  return 0;
}
