// D7 [C06]: regex::expr::match on a non-matching string dereferenced begin() + 65535.
#include "common.hpp"
#include "checked_buffer.hpp"
static constexpr char pat[] = "ab";
constexpr regex::expr<pat> r;
int main() {
  for (std::string in : {"zz", "", "a", "abc", "ab", "b"}) {
    checked_buffer buf(in);
    std::stringstream err;
    bool m = r.match(buf, err);
    EXPECT(buf.faults == 0, "input '" << in << "': " << buf.first_fault);
    EXPECT(m == (in == "ab"), "wrong verdict on '" << in << "'");
  }
  return 0;
}
