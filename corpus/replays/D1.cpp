// D1 [C01]: FIRST under mutual left recursion. S->C A q | x C B c; A->B y | a; B->A z | b; C->eps ; "xazc" is derivable.
#include "common.hpp"
constexpr nterm<V> S("S"), A("A"), B("B"), C("C");
constexpr parser p(S, terms('q','x','c','y','a','z','b'), nterms(S,A,B,C),
  rules(S(C,A,'q'), S('x',C,B,'c'), A(B,'y'), A('a'), B(A,'z'), B('b'), C()));
int main() {
  std::stringstream d; p.write_diag_str(d);
  EXPECT(d.str().find("CONFLICT") == std::string::npos, "unexpected conflict line");
  EXPECT(p.parse(string_buffer("xazc")).has_value(), "derivable input xazc rejected");
  EXPECT(p.parse(string_buffer("xbc")).has_value(), "derivable input xbc rejected");
  EXPECT(!p.parse(string_buffer("xac")).has_value(), "underivable input xac accepted");
  return 0;
}
