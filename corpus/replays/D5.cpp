// D5 [C05]: an explicit rule precedence [0] was treated as "not given".
// E -> n | E + E | (- E)[0]  with '+' prec 1 ltor, '-' prec 5: on "-n+n" the conflict (reduce -E vs shift +) must compare 0 with 1 => shift => -(n+n).
#include "common.hpp"
#include <string>
constexpr nterm<int> E("E");
constexpr char_term o_plus('+', 1, associativity::ltor);
constexpr char_term o_minus('-', 5, associativity::no_assoc);
constexpr parser p0(E, terms('n', o_plus, o_minus), nterms(E),
  rules(E('n') >= [](skip){ return 1; }, E(E, o_plus, E) >= [](int a, skip, int b){ return a + b; }, E(o_minus, E)[0] >= [](skip, int a){ return -a; }));
constexpr parser p9(E, terms('n', o_plus, o_minus), nterms(E),
  rules(E('n') >= [](skip){ return 1; }, E(E, o_plus, E) >= [](int a, skip, int b){ return a + b; }, E(o_minus, E)[9] >= [](skip, int a){ return -a; }));
constexpr parser pn(E, terms('n', o_plus, o_minus), nterms(E),
  rules(E('n') >= [](skip){ return 1; }, E(E, o_plus, E) >= [](int a, skip, int b){ return a + b; }, E(o_minus, E)[-2] >= [](skip, int a){ return -a; }));
int main() {
  auto r9 = p9.parse(string_buffer("-n+n")); EXPECT(r9 && *r9 == 0, "[9] should reduce first: (-n)+n = 0");
  auto rn = pn.parse(string_buffer("-n+n")); EXPECT(rn && *rn == -2, "[-2] should shift: -(n+n) = -2, got " << (rn ? *rn : 99));
  auto r0 = p0.parse(string_buffer("-n+n")); EXPECT(r0 && *r0 == -2, "[0] should shift: -(n+n) = -2, got " << (r0 ? *r0 : 99));
  return 0;
}
