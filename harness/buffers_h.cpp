// Correspondence harness for namespace buffers: every lexeme get_view(begin + s, begin + e), 0 <= s <= e <= size, of the three
// buffer kinds over the same text (string_view_buffer as a window inside a larger string), plus the bytes under the iterators.
#include <cstdio>
#include <cstring>
#include <fstream>
#include <iostream>
#include <sstream>
#include <string>
#include <vector>
#include <ctpg/ctpg.hpp>
using namespace ctpg::buffers;
static std::string unhex(const std::string& h) { std::string s; if (h == "-") return s; for (size_t i = 0; i + 1 < h.size(); i += 2) s.push_back(char(std::stoi(h.substr(i, 2), nullptr, 16))); return s; }
static std::string hex(std::string_view v) { static const char* d = "0123456789abcdef"; std::string o; for (unsigned char c : v) { o += d[c >> 4]; o += d[c & 15]; } return o.empty() ? "-" : o; }
template<class B> static std::string views(const B& b, size_t n)
{
    std::string out; auto bg = b.begin();
    for (size_t s = 0; s <= n; ++s) for (size_t e = s; e <= n; ++e)
    {
        auto i1 = bg; for (size_t k = 0; k < s; ++k) ++i1;
        auto i2 = bg; for (size_t k = 0; k < e; ++k) ++i2;
        out += hex(b.get_view(i1, i2)); out += ",";
    }
    out += "|";
    { auto it = bg; size_t cnt = 0; while (!(it == b.end())) { char tmp[4]; std::snprintf(tmp, 4, "%02x", (unsigned char)*it); out += tmp; ++it; ++cnt; } out += "|" + std::to_string(cnt); }
    return out;
}
template<size_t N> static std::string cs_views(const std::string& t)
{
    char arr[N]; for (size_t i = 0; i < N - 1; ++i) arr[i] = t[i]; arr[N - 1] = 0;
    cstring_buffer<N> b(arr);
    std::string o = views(b, N - 1);
    char tmp[8]; std::snprintf(tmp, 8, "|%02x", (unsigned char)*b.end()); return o + tmp;       // *end() of a cstring_buffer is its terminator
}
#define CS(n) case n: return cs_views<n + 1>(t);
static std::string cs_dispatch(const std::string& t) { switch (t.size()) { CS(0) CS(1) CS(2) CS(3) CS(4) CS(5) CS(6) CS(7) CS(8) } return "?"; }
int main(int argc, char** argv)
{
    std::ifstream in(argv[1]); std::string line; size_t k = 0;
    while (std::getline(in, line))
    {
        std::istringstream is(line); std::string pre, text, post; is >> pre >> text >> post;
        std::string p = unhex(pre), t = unhex(text), q = unhex(post);
        std::string whole = p + t + q;
        string_buffer sb{std::string(t)};
        string_view_buffer vb{std::string_view(whole).substr(p.size(), t.size())};
        std::cout << k << " C " << cs_dispatch(t) << "\n" << k << " S " << views(sb, t.size()) << "\n" << k << " V " << views(vb, t.size()) << "\n"; ++k;
    }
    return 0;
}
