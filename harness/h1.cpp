// H1: runs the REAL state_analyzer, write_diag_str and context_parse of /repo's ctpg.hpp on grammars injected at run time
// into fixed "carrier" parser types (see gen_carriers.py). Reads a case file, prints one observable block per case.
// Built with -DCTPG_VERIF (friend access through ctpg::verif_access).
#include <ctpg/ctpg.hpp>
#include <cstdio>
#include <cstring>
#include <fstream>
#include <iostream>
#include <sstream>
#include <string>
#include <vector>
#include <array>
#include <memory>
#include "checked_buffer.hpp"

struct node { std::string s; bool leaf = false; };
using TV = ctpg::term_value<node>;
struct ctxlog { std::vector<int> calls; };

static std::string hex(std::string_view sv) { static const char* d = "0123456789abcdef"; std::string o; for (unsigned char c : sv) { o += d[c >> 4]; o += d[c & 15]; } return o; }
static node leaf_ftor_impl(std::string_view sv) { node n; n.s = "t[" + hex(sv) + "]"; n.leaf = true; return n; }
constexpr auto leaf_ftor = [](std::string_view sv) { return leaf_ftor_impl(sv); };
static std::string render(const TV& a) {
  const node& n = a.get_value();
  if (n.leaf) return n.s + "@" + std::to_string(a.get_line()) + ":" + std::to_string(a.get_column());
  return n.s;
}
static bool g_probe = false;   // during the termination probe the values stay empty (a looping parse would otherwise build ever longer strings)
static TV mk_node(int rule, std::initializer_list<std::string> ch) {
  node n; if (g_probe) return TV(n, ctpg::source_point{}); n.s = "r" + std::to_string(rule) + "("; bool first = true;
  for (auto& c : ch) { if (!first) n.s += ","; n.s += c; first = false; }
  n.s += ")"; return TV(n, ctpg::source_point{});
}

// table-driven custom lexer: the first byte decides term and length (see case file line LEX)
static int g_lex_term[256]; static int g_lex_len[256];
static std::vector<long> g_lex_remaining;
struct table_lexer {
  template<typename Iterator, typename ErrorStream>
  ctpg::recognized_term match(ctpg::match_options, ctpg::source_point, Iterator start, Iterator end, ErrorStream&) {
    { long rem = 0; for (Iterator i = start; !(i == end); ++i) ++rem; g_lex_remaining.push_back(rem); }
    unsigned char c = static_cast<unsigned char>(*start);
    if (g_lex_term[c] < 0) return ctpg::recognized_term{};
    int len = g_lex_len[c]; Iterator it = start;
    for (int i = 0; i < len; ++i) { if (it == end) return ctpg::recognized_term{}; ++it; }
    return ctpg::recognized_term(ctpg::size16_t(g_lex_term[c]), size_t(len));
  }
};
template<size_t SC, size_t MS> struct verif_limits { static const size_t state_count_cap = SC; static const size_t max_sit_count_per_state_cap = MS; };

#include "carriers.hpp"

struct sym { int term; int idx; };
struct gcase {
  std::string id, carrier; int tc, ntc, rc, me;
  std::vector<std::vector<sym>> rs; std::vector<std::array<int,3>> ri; std::vector<std::array<int,2>> sl;
  std::vector<std::array<int,2>> tp; std::vector<std::array<int,3>> rp;
  struct input { int verbose, skipws, skipnl; std::string bytes; };
  std::vector<input> inputs;
};

namespace ctpg {
struct verif_access {
  template<class P> static void inject(P& p, const gcase& c) {
    using GI = typename P::grammar_info;
    if ((int)P::term_count != c.tc || (int)P::nterm_count != c.ntc || (int)P::rule_count != c.rc || (int)P::max_rule_element_count != c.me)
      throw std::runtime_error("case does not fit the carrier");
    GI gi{};
    for (int r = 0; r < c.rc; ++r)
      for (size_t k = 0; k < c.rs[r].size(); ++k)
        gi.right_sides[r][k] = typename P::symbol(c.rs[r][k].term != 0, size16_t(c.rs[r][k].idx));
    for (int r = 0; r < c.rc; ++r) gi.rule_infos[r] = typename P::rule_info{ size16_t(c.ri[r][0]), size16_t(c.ri[r][1]), size16_t(c.ri[r][2]) };
    for (int n = 0; n < c.ntc; ++n) gi.nterm_rule_slices[n] = utils::slice{ size32_t(c.sl[n][0]), size32_t(c.sl[n][1]) };
    for (int t = 0; t < c.tc; ++t) { gi.term_precedences[t] = c.tp[t][0]; gi.term_associativities[t] = associativity(c.tp[t][1]); }
    for (int r = 0; r < c.rc; ++r) { gi.rule_precedences[r] = c.rp[r][0]; gi.rule_associativities[r] = associativity(c.rp[r][1]); gi.rule_last_terms[r] = c.rp[r][2] < 0 ? uninitialized16 : size16_t(c.rp[r][2]); }
    std::memcpy((void*)&p.gi, &gi, sizeof(GI));
    for (size_t i = 0; i < P::state_count_cap; ++i) { p.states[i].reset(); for (size_t j = 0; j < P::symbol_count; ++j) p.parse_table[i][j] = typename P::parse_table_entry{}; }
    p.state_count = 0;
    std::unique_ptr<typename P::state_analyzer> sa(new typename P::state_analyzer(p.gi, p.states, p.parse_table));
    p.state_count = sa->analyze_states();
    // the generator's intermediate sets (cbitsets of the real state_analyzer): nullable nonterminals and FIRST of every nonterminal
    std::string& fs = first_sets(); fs = "NULLABLE ";
    for (size_t n = 0; n < P::nterm_count; ++n) fs += sa->nterm_empty.test(n) ? '1' : '0';
    fs += "\n";
    for (size_t n = 0; n < P::nterm_count; ++n) { fs += "FIRST " + std::to_string(n) + " "; for (size_t t = 0; t < P::term_count; ++t) fs += sa->nterm_first[n].test(t) ? '1' : '0'; fs += "\n"; }
  }
  static std::string& first_sets() { static thread_local std::string s; return s; }
  template<class P> static void dump(const P& p, std::ostream& o) {
    o << first_sets();
    o << "STATES " << p.state_count << "\n";
    for (size16_t s = 0; s < p.state_count; ++s) {
      o << "S" << s << ":";
      for (size32_t i = 0; i < P::situation_address_space_size; ++i)
        if (p.states[s].test(i)) { auto inf = P::make_situation_info(i); o << " " << inf.rule_info_idx << "." << inf.after << "." << inf.t; }
      o << "\n";
      o << "R" << s << ":";
      for (size_t c = 0; c < P::symbol_count; ++c) {
        const auto& e = p.parse_table[s][c];
        o << " " << int(e.kind) << "," << (e.arg == uninitialized16 ? -1 : int(e.arg)) << "," << int(e.has_sr_conflict);
      }
      o << "\n";
    }
  }
  template<class P> static bool has_rr(const P& p) {
    for (size16_t s = 0; s < p.state_count; ++s) for (size_t c = 0; c < P::symbol_count; ++c)
      if (p.parse_table[s][c].kind == P::parse_table_entry_kind::rr_conflict) return true;
    return false;
  }
  template<class P> static void dump_lexer(const P& p, std::ostream& o) {
    o << "LEXER " << p.lexer_sm.size() << "\n";
  }
};
}

// a stream that throws after a number of lines: the step limit for parses that never end
struct line_limit : std::runtime_error { line_limit() : std::runtime_error("line limit") {} };
struct limited_buf : std::streambuf {
  long lines = 0, limit;
  explicit limited_buf(long l) : limit(l) {}
  int_type overflow(int_type ch) override { if (ch == '\n' && ++lines > limit) throw line_limit(); return ch; }
  std::streamsize xsputn(const char* s, std::streamsize n) override { for (std::streamsize i = 0; i < n; ++i) if (s[i] == '\n' && ++lines > limit) throw line_limit(); return n; }
};

static std::string strip_header(const std::string& d) { auto p = d.find("RULES\n"); return p == std::string::npos ? d : d.substr(p); }

template<class P> static void run_case(P& p, const gcase& c, std::ostream& o) {
  o << "CASE " << c.id << "\n";
  try { ctpg::verif_access::inject(p, c); }
  catch (const std::exception& e) { o << "GEN throw " << e.what() << "\n"; o << "ENDCASE\n"; return; }
  o << "GEN ok\n";
  ctpg::verif_access::dump(p, o);
  { std::stringstream d; p.write_diag_str(d); std::string s = strip_header(d.str()); auto lp = s.find("LEXICAL ANALYZER"); if (lp != std::string::npos) s = s.substr(0, lp);
    while (!s.empty() && s.back() == '\n') s.pop_back();
    o << "DIAG " << s.size() << "\n" << s << "\nENDDIAG\n"; }
  if (ctpg::verif_access::has_rr(p)) { o << "INPUTS skipped-rr\nENDCASE\n"; return; }
  int k = 0;
  for (auto& in : c.inputs) {
    o << "IN " << k++ << "\n";
    ctpg::parse_options opt; opt.set_verbose(in.verbose != 0).set_skip_whitespace(in.skipws != 0).set_skip_newline(in.skipnl != 0);
    std::string r1, r2, r3; std::string e1, e2; ctxlog log1, log2, log3;
    {
      // probe: a verbose parse into a line-limited stream; a parse that does not end within 200000 lines is reported as LOOP
      bool loops = false; ctxlog lg; limited_buf lb(200000); std::ostream ls(&lb); ls.exceptions(std::ios_base::badbit);
      ctpg::parse_options vo = opt; vo.set_verbose(true);
      g_probe = true;
      try { p.context_parse(lg, vo, ctpg::buffers::string_view_buffer(in.bytes), ls); }
      catch (const line_limit&) { loops = true; }
      catch (const std::ios_base::failure&) { loops = lb.lines > lb.limit; }
      catch (const std::exception&) {}
      g_probe = false;
      if (loops) { o << "RES LOOP\nCTX\nLEXCALLS\nERR 0\n\nENDERR\nRES2 LOOP\nERR2 0\n\nENDERR2\nRES3 LOOP\n"; continue; }
    }
    {
      checked_buffer buf(in.bytes); std::stringstream err; g_lex_remaining.clear();
      try { auto r = p.context_parse(log1, opt, buf, err); r1 = r ? "VALUE " + r->get_value().s : "NONE"; }
      catch (const std::exception& e) { r1 = std::string("THROW ") + e.what(); }
      e1 = err.str();
      if (buf.faults) r1 += " BUFFERFAULT " + buf.first_fault;
    }
    o << "RES " << r1 << "\n";
    o << "CTX"; for (int x : log1.calls) o << " " << x; o << "\n";
    o << "LEXCALLS"; for (long x : g_lex_remaining) o << " " << (long(in.bytes.size()) - x); o << "\n";
    o << "ERR " << e1.size() << "\n" << e1 << "\nENDERR\n";
    // the same parse with verbosity flipped, through string_view_buffer: result must not depend on either (C07/C16)
    {
      ctpg::parse_options opt2 = opt; opt2.set_verbose(!in.verbose); std::stringstream err;
      bool dflt2 = !opt2.verbose && opt2.skip_whitespace && opt2.skip_newline;      // then the overload without options must behave the same
      // the view is a proper sub-view of a larger text (followed by blanks and more input): nothing behind it may be looked at
      std::string larger = in.bytes + " \n\ta b"; std::string_view sub(larger.data(), in.bytes.size());
      try { auto r = dflt2 ? p.context_parse(log2, ctpg::buffers::string_view_buffer(sub), err) : p.context_parse(log2, opt2, ctpg::buffers::string_view_buffer(sub), err); r2 = r ? "VALUE " + r->get_value().s : "NONE"; }
      catch (const std::exception& e) { r2 = std::string("THROW ") + e.what(); }
      e2 = err.str();
    }
    o << "RES2 " << r2 << "\n";
    o << "ERR2 " << e2.size() << "\n" << e2 << "\nENDERR2\n";
    // and without any stream, through string_buffer
    {
      ctpg::utils::no_stream ns;
      bool dflt3 = !opt.verbose && opt.skip_whitespace && opt.skip_newline;         // then the overload without options and stream must behave the same
      try { auto r = dflt3 ? p.context_parse(log3, ctpg::buffers::string_buffer(std::string(in.bytes))) : p.context_parse(log3, opt, ctpg::buffers::string_buffer(std::string(in.bytes)), ns); r3 = r ? "VALUE " + r->get_value().s : "NONE"; }
      catch (const std::exception& e) { r3 = std::string("THROW ") + e.what(); }
    }
    o << "RES3 " << r3 << "\n";
  }
  o << "ENDCASE\n";
}

static bool read_case(std::istream& f, gcase& c) {
  std::string tok; c = gcase{};
  while (f >> tok) {
    if (tok == "CASE") f >> c.id;
    else if (tok == "CARRIER") f >> c.carrier;
    else if (tok == "CINFO") { int a, b, d, n, x; f >> a >> b >> d >> n; for (int i = 0; i < n; ++i) f >> x; }
    else if (tok == "DIM") { f >> c.tc >> c.ntc >> c.rc >> c.me; }
    else if (tok == "RS") { int r, n; f >> r >> n; if ((int)c.rs.size() <= r) c.rs.resize(r + 1); for (int i = 0; i < n; ++i) { sym s; f >> s.term >> s.idx; c.rs[r].push_back(s); } }
    else if (tok == "RI") { std::array<int,3> a; f >> a[0] >> a[1] >> a[2]; c.ri.push_back(a); }
    else if (tok == "SL") { std::array<int,2> a; f >> a[0] >> a[1]; c.sl.push_back(a); }
    else if (tok == "TP") { std::array<int,2> a; f >> a[0] >> a[1]; c.tp.push_back(a); }
    else if (tok == "RP") { std::array<int,3> a; f >> a[0] >> a[1] >> a[2]; c.rp.push_back(a); }
    else if (tok == "LEX") { for (int i = 0; i < 256; ++i) f >> g_lex_term[i]; for (int i = 0; i < 256; ++i) f >> g_lex_len[i]; }
    else if (tok == "IN") { gcase::input in; int n; f >> in.verbose >> in.skipws >> in.skipnl >> n; for (int i = 0; i < n; ++i) { int b; f >> b; in.bytes.push_back(char(b)); } c.inputs.push_back(in); }
    else if (tok == "END") return true;
    else { std::cerr << "bad token " << tok << "\n"; return false; }
  }
  return false;
}

static const char* g_casefile = nullptr;
static void* real_main(void*) {
  std::ifstream f(g_casefile);
  auto pa = std::make_unique<decltype(carrier_A::make())>(carrier_A::make());
  auto pe = std::make_unique<decltype(carrier_E::make())>(carrier_E::make());
  auto pb = std::make_unique<decltype(carrier_B::make())>(carrier_B::make());
  auto pc = std::make_unique<decltype(carrier_C::make())>(carrier_C::make());
  gcase c;
  while (read_case(f, c)) {
    if (c.carrier == "A") run_case(*pa, c, std::cout);
    else if (c.carrier == "E") run_case(*pe, c, std::cout);
    else if (c.carrier == "B") run_case(*pb, c, std::cout);
    else if (c.carrier == "C") run_case(*pc, c, std::cout);
    else { std::cout << "CASE " << c.id << "\nGEN unknown-carrier\nENDCASE\n"; }
  }
  std::cout.flush();
  return nullptr;
}

#include <pthread.h>
int main(int argc, char** argv) {
  if (argc < 2) { std::cerr << "usage: h1 <casefile>\n"; return 2; }
  g_casefile = argv[1];
  // the parser constructor keeps a multi-megabyte state_analyzer on the stack
  pthread_attr_t attr; pthread_attr_init(&attr); pthread_attr_setstacksize(&attr, size_t(1) << 30);
  pthread_t th; if (pthread_create(&th, &attr, real_main, nullptr) != 0) { std::cerr << "pthread_create failed\n"; return 2; }
  pthread_join(th, nullptr);
  return 0;
}
