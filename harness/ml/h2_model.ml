(* The extracted Coq model run on the H2 case file; prints the same observable blocks as harness/h2.cpp. *)
open Model
open Conv

let dump_dfa = H2dump.dump_dfa

let match_inputs ?(spec = fun _ -> None) sm inputs =
  List.iteri (fun k s ->
    if Array.length Sys.argv > 2 then (match spec (bytes_of_string s) with Some (t, l) -> Printf.printf "SPEC %d %d %d\n" k (int_of_nat t) (int_of_nat l) | None -> Printf.printf "SPEC %d -1 -1\n" k);
    let (ev, rt) = dfa_match sm (k mod 2 = 0) sp0 (bytes_of_string s) in
    (match rt with Some (t, l) -> Printf.printf "M %d %d %d\n" k (int_of_nat t) (int_of_nat l) | None -> Printf.printf "M %d -1 -1\n" k);
    let e = String.concat "" (List.map lex_event_str ev) in
    Printf.printf "V %d\n%s\nENDV\n" (String.length e) e) inputs

let nmax = 1024

let () =
  let ic = open_in Sys.argv.(1) in
  let next = make_reader ic in
  let tok () = match next () with Some t -> t | None -> raise End_of_file in
  let int () = int_of_string (tok ()) in
  let read_bytes () = let n = int () in let b = Bytes.create n in for i = 0 to n - 1 do Bytes.set b i (Char.chr (int ())) done; Bytes.to_string b in
  let gt = match regex_grammar_table with Some x -> x | None -> failwith "regex grammar table" in
  let parse p = parse_pattern_with (fst gt) (snd gt) (bytes_of_string p) in
  let id = ref "" and kind = ref 0 and pat = ref "" and terms = ref [] and inputs = ref [] in
  let run_case () =
    Printf.printf "CASE %s\n" !id;
    (if !kind = 0 then begin
      match parse !pat with
      | None -> print_string "ANALYZE fail 0\n"
      | Some r ->
          let (sl, _) = analyze_size r O in
          let predicted = int_of_nat sl.sl_n in
          Printf.printf "ANALYZE ok %d\n" predicted;
          if predicted <= nmax then begin
            match build_expr r with
            | Some sm -> Printf.printf "BUILD ok size %d\n" (List.length sm);
                dump_dfa sm; match_inputs ~spec:(spec_longest [TRegex r]) sm (List.rev !inputs)
            | None -> print_string "BUILD fuel\n"
          end else print_string "BUILD skipped-too-large\n"
    end else begin
      let ts = List.rev_map (fun (k, s) -> match k with
        | 0 -> Some (TChar (nat_of_int (Char.code s.[0])))
        | 1 -> Some (TString (bytes_of_string s))
        | _ -> (match parse s with Some r -> Some (TRegex r) | None -> None)) !terms in
      if List.mem None ts then print_string "THROW Regex parse error\n" else
      let tl = List.map (function Some t -> t | None -> assert false) ts in
      match create_lexer tl with
      | Some sm -> Printf.printf "LEXER size %d\n" (List.length sm);
          dump_dfa sm; match_inputs ~spec:(spec_longest tl) sm (List.rev !inputs)
      | None -> print_string "LEXER fuel\n"
    end);
    print_string "ENDCASE\n" in
  (try while true do
    match tok () with
    | "CASE" -> id := tok (); kind := 0; pat := ""; terms := []; inputs := []
    | "PAT" -> kind := 0; pat := read_bytes ()
    | "TERM" -> kind := 1; let k = int () in let s = read_bytes () in terms := (k, s) :: !terms
    | "STR" -> inputs := read_bytes () :: !inputs
    | "END" -> run_case ()
    | t -> failwith ("bad token " ^ t)
  done with End_of_file -> ())
