open Model
open Conv

let dump_dfa (sm : dstate list) =
  let n = List.length sm in
  Printf.printf "DFA %d\n" n;
  List.iteri (fun i (st : dstate) ->
    Printf.printf "ST %d %d%d%d r" i (if st.d_start then 1 else 0) (if st.d_end then 1 else 0) (if st.d_unreach then 1 else 0);
    let recs = ints st.d_rec in
    for k = 0 to 3 do Printf.printf " %d" (match List.nth_opt recs k with Some x -> x | None -> -1) done;
    print_string " m";
    List.iter (fun k -> Printf.printf " %d" k) (List.sort_uniq compare (List.filter (fun k -> k < n) (ints st.d_merged)));
    print_string " t";
    let tr = Array.of_list (List.map opt_int st.d_trans) in
    let c = ref 0 in
    while !c < 256 do
      if tr.(!c) < 0 then incr c else begin
        let e = ref !c in while !e + 1 < 256 && tr.(!e + 1) = tr.(!c) do incr e done;
        Printf.printf " %d-%d>%d" !c !e tr.(!c); c := !e + 1 end
    done;
    print_string "\n") sm

