(* The extracted Coq model run on the H1 case file; prints the same observable blocks as harness/h1.cpp. *)
open Model
open Conv

type input = { verbose : bool; skipws : bool; skipnl : bool; bytes : string }

(* optional: take item sets and tables from a dump of the real code (argument "--tables <real.out>") instead of LRGen.gen *)
let real_tables : (string, (item list list * entry list list) option) Hashtbl.t = Hashtbl.create 64
let load_tables path =
  let ic = open_in_bin path in
  let cur = ref "" and sts = ref [] and rows = ref [] and ok = ref false in
  let flush () = if !cur <> "" then Hashtbl.replace real_tables !cur (if !ok then Some (List.rev !sts, List.rev !rows) else None) in
  (try while true do
    let l = input_line ic in
    let n = String.length l in
    if n > 5 && String.sub l 0 5 = "CASE " then (flush (); cur := String.sub l 5 (n - 5); sts := []; rows := []; ok := false)
    else if l = "GEN ok" then ok := true
    else (try if n > 1 && (l.[0] = 'S' || l.[0] = 'R') && (match String.index_opt l ':' with Some i -> i > 1 && (try ignore (int_of_string (String.sub l 1 (i - 1))); true with _ -> false) | None -> false) && not (n > 6 && String.sub l 0 6 = "STATES") then begin
      let i = String.index l ':' in
      let body = String.sub l (i + 1) (n - i - 1) in
      let toks = List.filter (fun x -> x <> "") (String.split_on_char ' ' body) in
      if l.[0] = 'S' then
        sts := List.map (fun t -> match String.split_on_char '.' t with
                 | [a; b; c] -> { it_r = nat_of_int (int_of_string a); it_d = nat_of_int (int_of_string b); it_t = nat_of_int (int_of_string c) }
                 | _ -> failwith "bad item") toks :: !sts
      else
        rows := List.map (fun t -> match String.split_on_char ',' t with
                 | [k; a; f] -> let a = int_of_string a in
                     { e_kind = (match int_of_string k with 0 -> KError | 1 -> KSuccess | 2 -> KShift | 3 -> KShiftErr | 4 -> KReduce | _ -> KRR);
                       e_arg = (if a < 0 then None else Some (nat_of_int a)); e_sr = (f = "1") }
                 | _ -> failwith "bad entry") toks :: !rows
    end with Failure _ | Invalid_argument _ -> ok := false)      (* a garbled dump: the case counts as not generated *)
  done with End_of_file -> flush ()); close_in ic

let () =
  let use_real = Array.length Sys.argv > 3 && Sys.argv.(2) = "--tables" in
  if use_real then load_tables Sys.argv.(3);
  let ic = open_in Sys.argv.(1) in
  let next = make_reader ic in
  let tok () = match next () with Some t -> t | None -> raise End_of_file in
  let int () = int_of_string (tok ()) in
  let lex_term = Array.make 256 (-1) and lex_len = Array.make 256 1 in
  let id = ref "" and carrier = ref "" in
  let lexkind = ref 0 and lim = ref (0, 0) and ctxflags = ref [||] in
  let dim = ref (0, 0, 0, 0) in
  let rs = ref [] and ri = ref [] and sl = ref [] and tp = ref [] and rp = ref [] and inputs = ref [] in
  let reset () = rs := []; ri := []; sl := []; tp := []; rp := []; inputs := [] in
  let run_case () =
    let (tc, ntc, rc, me) = !dim in
    let rs_sorted = List.sort compare !rs in
    let g = { term_count = nat_of_int tc; nterm_count = nat_of_int ntc; rule_count = nat_of_int rc; max_elems = nat_of_int me;
              right_sides = List.map (fun (_, syms) -> List.map (fun (t, i) -> if t <> 0 then T (nat_of_int i) else NT (nat_of_int i)) syms) rs_sorted;
              rule_infos = List.rev_map (fun (l, r, n) -> { ri_l = nat_of_int l; ri_r = nat_of_int r; ri_n = nat_of_int n }) !ri;
              slices = List.rev_map (fun (a, b) -> (nat_of_int a, nat_of_int b)) !sl;
              term_prec = List.rev_map (fun (p, _) -> z_of_int p) !tp;
              term_assoc = List.rev_map (fun (_, a) -> match a with 1 -> Ltor | 2 -> Rtol | _ -> NoAssoc) !tp;
              rule_prec = List.rev_map (fun (p, _, _) -> z_of_int p) !rp;
              rule_assoc = List.rev_map (fun (_, a, _) -> match a with 1 -> Ltor | 2 -> Rtol | _ -> NoAssoc) !rp;
              rule_last_term = List.rev_map (fun (_, _, l) -> if l < 0 then None else Some (nat_of_int l)) !rp } in
    let user_t = tc - 2 in
    let tn = Array.init tc (fun i -> if i = user_t then "<eof>" else if i = user_t + 1 then "<error_recovery_token>"
                                     else if !lexkind = 1 then String.make 1 (Char.chr (97 + i)) else Printf.sprintf "t%d" i) in
    let ntn = Array.init ntc (fun i -> if i = ntc - 1 then "##" else Printf.sprintf "N%d" i) in
    let nm = { tn; ntn } in
    Printf.printf "CASE %s\n" !id;
    let limits = if !lim = (0, 0) then default_limits g else { state_cap = nat_of_int (fst !lim); sit_cap = nat_of_int (snd !lim) } in
    let generated =
      if use_real then
        (match Hashtbl.find_opt real_tables !id with
         | Some (Some (sl, tb)) -> Inl (List.map (fun its -> { st_all = its; st_kernel = [] }) sl, tb)
         | _ -> Inr GenOutOfFuel)
      else gen_with g limits in
    (match generated with
     | Inr StateCapExceeded -> print_string "GEN throw State count exceeds the cap\n"
     | Inr VectorCapExceeded -> print_string "GEN throw cvector capacity exceeded\n"
     | Inr GenOutOfFuel -> print_string (if use_real then "GEN not-ok-in-real-dump\n" else "GEN fuel\n")
     | Inl (sts, tb) ->
         print_string "GEN ok\n";
         (* the generator's intermediate sets: nullable nonterminals, FIRST of every nonterminal (LRGen.nterm_empty / nterm_first) *)
         let ne = nterm_empty g in
         let bits l = String.concat "" (List.map (fun b -> if b then "1" else "0") l) in
         Printf.printf "NULLABLE %s\n" (bits ne);
         List.iteri (fun n f -> Printf.printf "FIRST %d %s\n" n (bits f)) (nterm_first g ne);
         Printf.printf "STATES %d\n" (List.length sts);
         List.iteri (fun i (st : lrstate) ->
           Printf.printf "S%d:" i;
           List.iter (fun (it : item) -> Printf.printf " %d.%d.%d" (int_of_nat it.it_r) (int_of_nat it.it_d) (int_of_nat it.it_t)) (sort_items g st.st_all);
           print_string "\n";
           Printf.printf "R%d:" i;
           List.iter (fun (e : entry) -> Printf.printf " %d,%d,%d" (kind_code e.e_kind) (opt_int e.e_arg) (if e.e_sr then 1 else 0)) (List.nth tb i);
           print_string "\n") sts;
         (* cell logic re-run on the REAL item sets (C05/C11 tie that does not depend on the closure/FIRST mirror) *)
         if use_real then List.iteri (fun i (st : lrstate) ->
           Printf.printf "RC%d:" i;
           let items = sort_items g st.st_all in
           for c = 0 to tc + ntc - 1 do
             let its = bucket g items (nat_of_int c) in
             if its = [] then print_string " -" else begin
               let sc = scan_cell g its scan0 in
               let root_complete = List.exists (fun (it : item) -> is_complete g it && int_of_nat (List.nth g.rule_infos (int_of_nat it.it_r)).ri_r = rc - 1) its in
               let k = match sc.sc_kind with KShift when c = ntc + tc - 1 -> 3 | k -> kind_code k in
               let sr = match sc.sc_kind with KReduce -> sc.sc_has_shift | _ -> sc.sc_sr in
               Printf.printf " %d,%d,%d,%d" k (match sc.sc_kind with KReduce -> opt_int sc.sc_red | _ -> -1) (if sr then 1 else 0) (if root_complete then 1 else 0)
             end
           done; print_string "\n") sts;
         if Array.length Sys.argv = 3 then Printf.printf "VALID %b SOUND %b NOERR %b\n" (validate g (List.map (fun (s : lrstate) -> s.st_all) sts) tb) (validate_sound g (List.map (fun (s : lrstate) -> s.st_all) sts) tb) (no_error_symbol g tb);
         let d = diag_text nm g sts tb in
         Printf.printf "DIAG %d\n%s\nENDDIAG\n" (String.length d) d;
         if List.exists (List.exists (fun (e : entry) -> e.e_kind = KRR)) tb then print_string "INPUTS skipped-rr\n" else
         let lexer =
           if !lexkind = 1 then
             (match create_lexer (List.init user_t (fun i -> TChar (nat_of_int (97 + i)))) with
              | Some sm -> (fun v p rest -> dfa_match sm v p rest)
              | None -> failwith "create_lexer failed")
           else
             (fun _ _ rest -> match rest with
                | [] -> ([], None)
                | c :: _ -> let c = int_of_nat c in
                    if lex_term.(c) < 0 then ([], None)
                    else if List.compare_length_with rest lex_len.(c) < 0 then ([], None)
                    else ([], Some (nat_of_int lex_term.(c), nat_of_int lex_len.(c)))) in
         let ctxf = !ctxflags in
         List.iteri (fun k inp ->
           Printf.printf "IN %d\n" k;
           let buf = bytes_of_string inp.bytes in
           let term_f _ a l (p : spoint) = Printf.sprintf "t[%s]@%d:%d" (hex (String.sub inp.bytes (int_of_nat a) (int_of_nat l))) (int_of_nat p.sp_line) (int_of_nat p.sp_col) in
           let err_f _ = "err" in
           let rule_f r c args = let r = int_of_nat r in
             ((if r < Array.length ctxf && ctxf.(r) then r :: c else c), Printf.sprintf "r%d(%s)" r (String.concat "," args)) in
           let fuel = nat_of_int (50 * String.length inp.bytes + 2000) in
           let calls = ref [] in
           let lexer' v p rest = calls := (String.length inp.bytes - List.length rest) :: !calls; lexer v p rest in
           let go verbose =
             let opts = { o_verbose = verbose; o_skip_ws = inp.skipws; o_skip_nl = inp.skipnl } in
             calls := [];
             run g tb opts buf None lexer' term_f err_f rule_f fuel [] in
           let res_str r = match r with
             | Accept v -> "VALUE " ^ v | Reject -> "NONE" | Throw -> "THROW cvector capacity exceeded"
             | Crash c -> "CRASH " ^ crash_str c | OutOfFuel -> "FUEL" in
           let ((r1, s1), tr1) = go inp.verbose in
           if r1 = OutOfFuel then print_string "RES LOOP\nCTX\nLEXCALLS\nERR 0\n\nENDERR\nRES2 LOOP\nERR2 0\n\nENDERR2\nRES3 LOOP\n" else begin
           Printf.printf "RES %s\n" (res_str r1);
           print_string "CTX"; List.iter (fun x -> Printf.printf " %d" x) (List.rev s1.ps_ctx); print_string "\n";
           print_string "LEXCALLS"; (if !lexkind = 0 then List.iter (fun x -> Printf.printf " %d" x) (List.rev !calls)); print_string "\n";
           let e = String.concat "" (List.map (event_str nm g inp.bytes) tr1) in
           Printf.printf "ERR %d\n%s\nENDERR\n" (String.length e) e;
           let ((r2, _), tr2) = go (not inp.verbose) in
           Printf.printf "RES2 %s\n" (res_str r2);
           let e2 = String.concat "" (List.map (event_str nm g inp.bytes) tr2) in
           Printf.printf "ERR2 %d\n%s\nENDERR2\n" (String.length e2) e2;
           Printf.printf "RES3 %s\n" (res_str r1) end) (List.rev !inputs));
    print_string "ENDCASE\n"
  in
  (try
    while true do
      match tok () with
      | "CASE" -> reset (); id := tok ()
      | "CARRIER" -> carrier := tok ()
      | "CINFO" -> lexkind := int (); let a = int () in let b = int () in lim := (a, b);
                   let n = int () in ctxflags := Array.init n (fun _ -> int () <> 0)
      | "DIM" -> let a = int () in let b = int () in let c = int () in let d = int () in dim := (a, b, c, d)
      | "RS" -> let r = int () in let n = int () in
                let syms = List.init n (fun _ -> let t = int () in let i = int () in (t, i)) in rs := (r, syms) :: !rs
      | "RI" -> let a = int () in let b = int () in let c = int () in ri := (a, b, c) :: !ri
      | "SL" -> let a = int () in let b = int () in sl := (a, b) :: !sl
      | "TP" -> let a = int () in let b = int () in tp := (a, b) :: !tp
      | "RP" -> let a = int () in let b = int () in let c = int () in rp := (a, b, c) :: !rp
      | "LEX" -> for i = 0 to 255 do lex_term.(i) <- int () done; for i = 0 to 255 do lex_len.(i) <- int () done
      | "IN" -> let v = int () in let w = int () in let n = int () in let len = int () in
                let b = Bytes.create len in for i = 0 to len - 1 do Bytes.set b i (Char.chr (int ())) done;
                inputs := { verbose = v <> 0; skipws = w <> 0; skipnl = n <> 0; bytes = Bytes.to_string b } :: !inputs
      | "END" -> run_case ()
      | t -> failwith ("bad token " ^ t)
    done
  with End_of_file -> ())
