(* The extracted Coq model run on H3 case files (raw grammars as the user wrote them: names, ids, precedences);
   prints the same observable blocks as the generated H3 programs. *)
open Model
open Conv

type termd = { kind : int; tid : string; tname : string; prec : int; assoc : int; data : string }
type rule = { lhs : string; rhs : (int * string) list; pg : bool; rprec : int; ctx : bool; default : bool }

let () =
  let ic = open_in Sys.argv.(1) in
  let next = make_reader ic in
  let tok () = match next () with Some t -> t | None -> raise End_of_file in
  let int () = int_of_string (tok ()) in
  let read_bytes () = let n = int () in let b = Bytes.create n in for i = 0 to n - 1 do Bytes.set b i (Char.chr (int ())) done; Bytes.to_string b in
  let gt = match regex_grammar_table with Some x -> x | None -> failwith "regex grammar table" in
  let id = ref "" and terms = ref [] and nts = ref [] and root = ref "" and rules = ref [] and inputs = ref [] in
  let assoc_of = function 1 -> Ltor | 2 -> Rtol | _ -> NoAssoc in
  let run_case () =
    let terms = List.rev !terms and ntl = List.rev !nts and rules = List.rev !rules and inputs = List.rev !inputs in
    Printf.printf "CASE %s\n" !id;
    let rg = { rg_root = bytes_of_string !root;
               rg_terms = List.map (fun t -> { rt_id = bytes_of_string t.tid; rt_prec = z_of_int t.prec; rt_assoc = assoc_of t.assoc }) terms;
               rg_nterms = List.map bytes_of_string ntl;
               rg_rules = List.map (fun r -> { rr_l = bytes_of_string r.lhs;
                                               rr_r = List.map (fun (k, s) -> match k with 0 -> RNterm (bytes_of_string s) | 1 -> RTerm (bytes_of_string s) | _ -> RTerm id_error) r.rhs;
                                               rr_prec = if r.pg then Some (z_of_int r.rprec) else None }) rules } in
    (match analyze rg with
     | None -> print_string "ANALYZE fail\n"
     | Some g ->
        let tc = int_of_nat g.term_count and ntc = int_of_nat g.nterm_count and rc = int_of_nat g.rule_count in
        Printf.printf "GI %d %d %d %d\n" tc ntc rc (int_of_nat g.max_elems);
        List.iteri (fun r syms -> Printf.printf "RS %d" r; List.iter (function T i -> Printf.printf " t%d" (int_of_nat i) | NT i -> Printf.printf " n%d" (int_of_nat i)) syms; print_string "\n") g.right_sides;
        print_string "RI"; List.iter (fun ri -> Printf.printf " %d,%d,%d" (int_of_nat ri.ri_l) (int_of_nat ri.ri_r) (int_of_nat ri.ri_n)) g.rule_infos; print_string "\n";
        print_string "SL"; List.iter (fun (a, b) -> Printf.printf " %d,%d" (int_of_nat a) (int_of_nat b)) g.slices; print_string "\n";
        let z_int = function Z0 -> 0 | Zpos p -> let rec go = function XH -> 1 | XO q -> 2 * go q | XI q -> 2 * go q + 1 in go p | Zneg p -> let rec go = function XH -> 1 | XO q -> 2 * go q | XI q -> 2 * go q + 1 in - (go p) in
        let acode = function NoAssoc -> 0 | Ltor -> 1 | Rtol -> 2 in
        print_string "TP"; List.iter2 (fun p a -> Printf.printf " %d,%d" (z_int p) (acode a)) g.term_prec g.term_assoc; print_string "\n";
        print_string "RP"; List.iteri (fun i p -> Printf.printf " %d,%d,%d" (z_int p) (acode (List.nth g.rule_assoc i)) (opt_int (List.nth g.rule_last_term i))) g.rule_prec; print_string "\n";
        let tdata = List.map (fun t -> match t.kind with
                      | 0 -> Some (TChar (nat_of_int (Char.code t.data.[0]))) | 1 -> Some (TString (bytes_of_string t.data))
                      | _ -> (match parse_pattern_with (fst gt) (snd gt) (bytes_of_string t.data) with Some r -> Some (TRegex r) | None -> None)) terms in
        let lim = default_limits g in
        let sm = if List.mem None tdata then None else create_lexer (List.map (function Some x -> x | None -> assert false) tdata) in
        let empties = List.length (List.filter (fun r -> r.rhs = []) rules) in
        Printf.printf "CAPS %d %d %d %d\n" (int_of_nat lim.state_cap) (int_of_nat lim.sit_cap) (match sm with Some s -> List.length s | None -> -1) empties;
        let nm = { tn = Array.of_list (List.map (fun t -> t.tname) terms @ ["<eof>"; "<error_recovery_token>"]); ntn = Array.of_list (ntl @ ["##"]) } in
        (match gen_with g lim with
         | Inr _ -> print_string "GEN throw\n"
         | Inl (sts, tb) ->
            Printf.printf "STATES %d\n" (List.length sts);
            List.iteri (fun i (st : lrstate) ->
              Printf.printf "S%d:" i;
              List.iter (fun (it : item) -> Printf.printf " %d.%d.%d" (int_of_nat it.it_r) (int_of_nat it.it_d) (int_of_nat it.it_t)) (sort_items g st.st_all);
              Printf.printf "\nR%d:" i;
              List.iter (fun (e : entry) -> Printf.printf " %d,%d,%d" (kind_code e.e_kind) (opt_int e.e_arg) (if e.e_sr then 1 else 0)) (List.nth tb i);
              print_string "\n") sts;
            (match sm with
             | Some sm -> H2dump.dump_dfa sm
             | None -> print_string "DFA fail\n");
            let d = diag_text nm g sts tb in
            Printf.printf "DIAG %d\n%s\nENDDIAG\n" (String.length d) d;
            if List.exists (List.exists (fun (e : entry) -> e.e_kind = KRR)) tb then print_string "INPUTS skipped-rr\n" else
            let lexer = match sm with Some sm -> (fun v p rest -> dfa_match sm v p rest) | None -> (fun _ _ _ -> ([], None)) in
            let rarr = Array.of_list rules in
            List.iteri (fun k (flags, bytes) ->
              Printf.printf "IN %d\n" k;
              let buf = bytes_of_string bytes in
              let term_f _ a l (p : spoint) = Printf.sprintf "t[%s]@%d:%d" (hex (String.sub bytes (int_of_nat a) (int_of_nat l))) (int_of_nat p.sp_line) (int_of_nat p.sp_col) in
              let rule_f r c args = let r = int_of_nat r in
                if r < Array.length rarr && rarr.(r).default then (c, List.hd args)
                else ((if r < Array.length rarr && rarr.(r).ctx then r :: c else c), Printf.sprintf "r%d(%s)" r (String.concat "," args)) in
              let fuel = nat_of_int (50 * String.length bytes + 2000) in
              let go verbose = run g tb { o_verbose = verbose; o_skip_ws = flags land 2 <> 0; o_skip_nl = flags land 4 <> 0 } buf None lexer term_f (fun _ -> "err") rule_f fuel [] in
              let res_str = function Accept v -> "VALUE " ^ v | Reject -> "NONE" | Throw -> "THROW cvector capacity exceeded" | Crash c -> "CRASH " ^ crash_str c | OutOfFuel -> "FUEL" in
              let v0 = flags land 1 <> 0 in
              let ((r1, s1), tr1) = go v0 in
              if r1 = OutOfFuel then print_string "RES LOOP\nCTX\nERR 0\n\nENDERR\nRES2 LOOP\nERR2 0\n\nENDERR2\n" else begin
                Printf.printf "RES %s\nCTX" (res_str r1); List.iter (fun x -> Printf.printf " %d" x) (List.rev s1.ps_ctx);
                let e = String.concat "" (List.map (event_str nm g bytes) tr1) in
                Printf.printf "\nERR %d\n%s\nENDERR\n" (String.length e) e;
                let ((r2, _), tr2) = go (not v0) in
                let e2 = String.concat "" (List.map (event_str nm g bytes) tr2) in
                Printf.printf "RES2 %s\nERR2 %d\n%s\nENDERR2\n" (res_str r2) (String.length e2) e2 end) inputs));
    print_string "ENDCASE\n" in
  (try while true do
    match tok () with
    | "CASE" -> id := tok (); terms := []; nts := []; rules := []; inputs := []
    | "RAW" -> ()
    | "TERMD" -> let kind = int () in let tid = read_bytes () in let tname = read_bytes () in let prec = int () in let assoc = int () in let data = read_bytes () in
                 terms := { kind; tid; tname; prec; assoc; data } :: !terms
    | "NTERM" -> nts := read_bytes () :: !nts
    | "ROOT" -> root := read_bytes ()
    | "RULE" -> let lhs = read_bytes () in let n = int () in
                let rhs = List.init n (fun _ -> let k = int () in let s = read_bytes () in (k, s)) in
                let pg = int () <> 0 in let rprec = int () in let ctx = int () <> 0 in let default = int () <> 0 in
                rules := { lhs; rhs; pg; rprec; ctx; default } :: !rules
    | "IN" -> let fl = int () in let b = read_bytes () in inputs := (fl, b) :: !inputs
    | "END" -> run_case ()
    | t -> failwith ("bad token " ^ t)
  done with End_of_file -> ())
