(* The extracted Coq model run on H3 case files (raw grammars as the user wrote them: names, ids, precedences);
   prints the same observable blocks as the generated H3 programs. *)
open Model
open Conv

type termd = { kind : int; tid : string; tname : string; prec : int; assoc : int; data : string }
type rule = { lhs : string; rhs : (int * string) list; pg : bool; rprec : int; ctx : bool; default : bool }

(* optional "--real <p.real>": take grammar_info, item sets, table and lexer automaton from the dump of the REAL constructor,
   so that only the driver mirror is exercised (properties about the driver are then not disturbed by changes elsewhere) *)
type realdump = { mutable r_gi : (int * int * int * int) option; mutable r_rs : (int * symbol list) list; mutable r_ri : rule_info list;
                  mutable r_sl : (nat * nat) list; mutable r_tp : (int * int) list; mutable r_rp : (int * int * int) list;
                  mutable r_sts : item list list; mutable r_rows : entry list list; mutable r_dfa : dstate list; mutable r_nodfa : bool }
let real_dumps : (string, realdump) Hashtbl.t = Hashtbl.create 16
let load_real path =
  let ic = open_in_bin path in
  let cur = ref None in
  let toks body = List.filter (fun x -> x <> "") (String.split_on_char ' ' body) in
  let triple t = match String.split_on_char ',' t with [a; b; c] -> (int_of_string a, int_of_string b, int_of_string c) | _ -> failwith "triple" in
  let pair t = match String.split_on_char ',' t with [a; b] -> (int_of_string a, int_of_string b) | _ -> failwith "pair" in
  let starts l p = String.length l >= String.length p && String.sub l 0 (String.length p) = p in
  let rest l p = String.sub l (String.length p) (String.length l - String.length p) in
  let in_diag = ref false in
  (try while true do
    let l = input_line ic in
    if starts l "CASE " then begin
      let d = { r_gi = None; r_rs = []; r_ri = []; r_sl = []; r_tp = []; r_rp = []; r_sts = []; r_rows = []; r_dfa = []; r_nodfa = false } in
      Hashtbl.replace real_dumps (rest l "CASE ") d; cur := Some d; in_diag := false end
    else match !cur with
    | None -> ()
    | Some d ->
      if starts l "DIAG " then in_diag := true
      else if l = "ENDDIAG" then in_diag := false
      else if !in_diag then ()
      else if starts l "GI " then (match List.map int_of_string (toks (rest l "GI ")) with [a; b; c; e] -> d.r_gi <- Some (a, b, c, e) | _ -> ())
      else if starts l "RS " then (match toks (rest l "RS ") with
             | r :: syms -> d.r_rs <- (int_of_string r, List.map (fun x -> let i = nat_of_int (int_of_string (String.sub x 1 (String.length x - 1))) in if x.[0] = 't' then T i else NT i) syms) :: d.r_rs
             | [] -> ())
      else if starts l "RI" && not (starts l "RIG") then d.r_ri <- List.map (fun t -> let (a, b, c) = triple t in { ri_l = nat_of_int a; ri_r = nat_of_int b; ri_n = nat_of_int c }) (toks (rest l "RI"))
      else if starts l "SL" then d.r_sl <- List.map (fun t -> let (a, b) = pair t in (nat_of_int a, nat_of_int b)) (toks (rest l "SL"))
      else if starts l "TP" then d.r_tp <- List.map pair (toks (rest l "TP"))
      else if starts l "RP" then d.r_rp <- List.map triple (toks (rest l "RP"))
      else if l = "DFA fail" then d.r_nodfa <- true
      else if starts l "ST " then begin
        match toks (rest l "ST ") with
        | _ :: fl :: "r" :: a :: b :: c :: e :: "m" :: more ->
            let rec split acc = function "t" :: tl -> (List.rev acc, tl) | x :: tl -> split (x :: acc) tl | [] -> (List.rev acc, []) in
            let (ms, ts) = split [] more in
            let tr = Array.make 256 None in
            List.iter (fun t -> match String.split_on_char '>' t with
                        | [rng; q] -> (match String.split_on_char '-' rng with
                                       | [x; y] -> for k = int_of_string x to int_of_string y do tr.(k) <- Some (nat_of_int (int_of_string q)) done
                                       | _ -> failwith "range")
                        | _ -> failwith "trans") ts;
            let recs = List.filter (fun x -> x >= 0) (List.map int_of_string [a; b; c; e]) in
            d.r_dfa <- { d_start = fl.[0] = '1'; d_end = fl.[1] = '1'; d_unreach = fl.[2] = '1'; d_rec = List.map nat_of_int recs;
                         d_trans = Array.to_list tr; d_merged = List.map (fun x -> nat_of_int (int_of_string x)) ms } :: d.r_dfa
        | _ -> failwith ("bad ST line: " ^ l) end
      else if String.length l > 1 && (l.[0] = 'S' || l.[0] = 'R') && (match String.index_opt l ':' with Some i -> i > 1 && (try ignore (int_of_string (String.sub l 1 (i - 1))); true with _ -> false) | None -> false) then begin
        let i = String.index l ':' in
        let tk = toks (String.sub l (i + 1) (String.length l - i - 1)) in
        if l.[0] = 'S' then
          d.r_sts <- List.map (fun t -> match String.split_on_char '.' t with
                        | [a; b; c] -> { it_r = nat_of_int (int_of_string a); it_d = nat_of_int (int_of_string b); it_t = nat_of_int (int_of_string c) }
                        | _ -> failwith "bad item") tk :: d.r_sts
        else
          d.r_rows <- List.map (fun t -> let (k, a, f) = triple t in
                        { e_kind = (match k with 0 -> KError | 1 -> KSuccess | 2 -> KShift | 3 -> KShiftErr | 4 -> KReduce | _ -> KRR);
                          e_arg = (if a < 0 then None else Some (nat_of_int a)); e_sr = (f = 1) }) tk :: d.r_rows end
  done with End_of_file -> ()); close_in ic

let () =
  let use_real = Array.length Sys.argv > 3 && Sys.argv.(2) = "--real" in
  if use_real then load_real Sys.argv.(3);
  let ic = open_in Sys.argv.(1) in
  let next = make_reader ic in
  let tok () = match next () with Some t -> t | None -> raise End_of_file in
  let int () = int_of_string (tok ()) in
  let read_bytes () = let n = int () in let b = Bytes.create n in for i = 0 to n - 1 do Bytes.set b i (Char.chr (int ())) done; Bytes.to_string b in
  let gt = match regex_grammar_table with Some x -> x | None -> failwith "regex grammar table" in
  let id = ref "" and terms = ref [] and nts = ref [] and root = ref "" and rules = ref [] and inputs = ref [] in
  let assoc_of = function 1 -> Ltor | 2 -> Rtol | _ -> NoAssoc in
  let run_case () =
    let terms = List.rev !terms and ntl = List.rev !nts and rules = List.rev !rules and inputs = List.rev !inputs in
    Printf.printf "CASE %s\n" !id;
    let rg = { rg_root = bytes_of_string !root;
               rg_terms = List.map (fun t -> { rt_id = bytes_of_string t.tid; rt_prec = z_of_int t.prec; rt_assoc = assoc_of t.assoc }) terms;
               rg_nterms = List.map bytes_of_string ntl;
               rg_rules = List.map (fun r -> { rr_l = bytes_of_string r.lhs;
                                               rr_r = List.map (fun (k, s) -> match k with 0 -> RNterm (bytes_of_string s) | 1 -> RTerm (bytes_of_string s) | _ -> RTerm id_error) r.rhs;
                                               rr_prec = if r.pg then Some (z_of_int r.rprec) else None }) rules } in
    let assoc_i = function 1 -> Ltor | 2 -> Rtol | _ -> NoAssoc in
    let real = if use_real then Hashtbl.find_opt real_dumps !id else None in
    let analysed = match real with
      | Some { r_gi = Some (tc, ntc, rc, me); r_rs; r_ri; r_sl; r_tp; r_rp; _ } ->
          Some { term_count = nat_of_int tc; nterm_count = nat_of_int ntc; rule_count = nat_of_int rc; max_elems = nat_of_int me;
                 right_sides = List.map snd (List.sort compare r_rs); rule_infos = r_ri; slices = r_sl;
                 term_prec = List.map (fun (p, _) -> z_of_int p) r_tp; term_assoc = List.map (fun (_, a) -> assoc_i a) r_tp;
                 rule_prec = List.map (fun (p, _, _) -> z_of_int p) r_rp; rule_assoc = List.map (fun (_, a, _) -> assoc_i a) r_rp;
                 rule_last_term = List.map (fun (_, _, l) -> if l < 0 then None else Some (nat_of_int l)) r_rp }
      | Some _ -> None
      | None -> if use_real then None else analyze rg in
    (match analysed with
     | None -> print_string "ANALYZE fail\n"
     | Some g ->
        let tc = int_of_nat g.term_count and ntc = int_of_nat g.nterm_count and rc = int_of_nat g.rule_count in
        Printf.printf "GI %d %d %d %d\n" tc ntc rc (int_of_nat g.max_elems);
        List.iteri (fun r syms -> Printf.printf "RS %d" r; List.iter (function T i -> Printf.printf " t%d" (int_of_nat i) | NT i -> Printf.printf " n%d" (int_of_nat i)) syms; print_string "\n") g.right_sides;
        print_string "RI"; List.iter (fun ri -> Printf.printf " %d,%d,%d" (int_of_nat ri.ri_l) (int_of_nat ri.ri_r) (int_of_nat ri.ri_n)) g.rule_infos; print_string "\n";
        print_string "SL"; List.iter (fun (a, b) -> Printf.printf " %d,%d" (int_of_nat a) (int_of_nat b)) g.slices; print_string "\n";
        let z_int = function Z0 -> 0 | Zpos p -> let rec go = function XH -> 1 | XO q -> 2 * go q | XI q -> 2 * go q + 1 in go p | Zneg p -> let rec go = function XH -> 1 | XO q -> 2 * go q | XI q -> 2 * go q + 1 in - (go p) in
        let acode = function NoAssoc -> 0 | Ltor -> 1 | Rtol -> 2 in
        print_string "TP"; List.iter2 (fun p a -> Printf.printf " %d,%d" (z_int p) (acode a)) g.term_prec g.term_assoc; print_string "\n";
        print_string "RP"; List.iteri (fun i p -> Printf.printf " %d,%d,%d" (z_int p) (acode (List.nth g.rule_assoc i)) (opt_int (List.nth g.rule_last_term i))) g.rule_prec; print_string "\n";
        let tdata = List.map (fun t -> match t.kind with
                      | 0 -> Some (TChar (nat_of_int (Char.code t.data.[0]))) | 1 -> Some (TString (bytes_of_string t.data))
                      | _ -> (match parse_pattern_with (fst gt) (snd gt) (bytes_of_string t.data) with Some r -> Some (TRegex r) | None -> None)) terms in
        let lim = default_limits g in
        let sm = match real with
          | Some d -> if d.r_nodfa || d.r_dfa = [] then None else Some (List.rev d.r_dfa)
          | None -> if List.mem None tdata then None else create_lexer (List.map (function Some x -> x | None -> assert false) tdata) in
        let empties = List.length (List.filter (fun r -> r.rhs = []) rules) in
        Printf.printf "CAPS %d %d %d %d\n" (int_of_nat lim.state_cap) (int_of_nat lim.sit_cap) (match sm with Some s -> List.length s | None -> -1) empties;
        let nm = { tn = Array.of_list (List.map (fun t -> t.tname) terms @ ["<eof>"; "<error_recovery_token>"]); ntn = Array.of_list (ntl @ ["##"]) } in
        let generated = match real with
          | Some d -> if d.r_rows = [] then Inr GenOutOfFuel else Inl (List.map (fun its -> { st_all = its; st_kernel = [] }) (List.rev d.r_sts), List.rev d.r_rows)
          | None -> gen_with g lim in
        (match generated with
         | Inr _ -> print_string "GEN throw\n"
         | Inl (sts, tb) ->
            Printf.printf "STATES %d\n" (List.length sts);
            List.iteri (fun i (st : lrstate) ->
              Printf.printf "S%d:" i;
              List.iter (fun (it : item) -> Printf.printf " %d.%d.%d" (int_of_nat it.it_r) (int_of_nat it.it_d) (int_of_nat it.it_t)) (sort_items g st.st_all);
              Printf.printf "\nR%d:" i;
              List.iter (fun (e : entry) -> Printf.printf " %d,%d,%d" (kind_code e.e_kind) (opt_int e.e_arg) (if e.e_sr then 1 else 0)) (List.nth tb i);
              print_string "\n") sts;
            (match sm with
             | Some sm -> H2dump.dump_dfa sm;
                          (* the derivative validator on this automaton (in --real mode: the REAL lexer_sm): false = the automaton is not the longest-match lexer of the terms *)
                          if not (List.mem None tdata) then Printf.printf "LEXVALID %b\n" (lexer_ok sm (List.map (function Some x -> x | None -> assert false) tdata))
             | None -> print_string "DFA fail\n");
            let d = diag_text nm g sts tb in
            Printf.printf "DIAG %d\n%s\nENDDIAG\n" (String.length d) d;
            if List.exists (List.exists (fun (e : entry) -> e.e_kind = KRR)) tb then print_string "INPUTS skipped-rr\n" else
            let lexer = match sm with Some sm -> (fun v p rest -> dfa_match sm v p rest) | None -> (fun _ _ _ -> ([], None)) in
            let rarr = Array.of_list rules in
            List.iteri (fun k (flags, bytes) ->
              Printf.printf "IN %d\n" k;
              let buf = bytes_of_string bytes in
              let term_f _ a l (p : spoint) = Printf.sprintf "t[%s]@%d:%d" (hex (String.sub bytes (int_of_nat a) (int_of_nat l))) (int_of_nat p.sp_line) (int_of_nat p.sp_col) in
              let rule_f r c args = let r = int_of_nat r in
                if r < Array.length rarr && rarr.(r).default then (c, List.hd args)
                else ((if r < Array.length rarr && rarr.(r).ctx then r :: c else c), Printf.sprintf "r%d(%s)" r (String.concat "," args)) in
              let fuel = nat_of_int (50 * String.length bytes + 2000) in
              let go verbose = run g tb { o_verbose = verbose; o_skip_ws = flags land 2 <> 0; o_skip_nl = flags land 4 <> 0 } buf None lexer term_f (fun _ -> "err") rule_f fuel [] in
              let res_str = function Accept v -> "VALUE " ^ v | Reject -> "NONE" | Throw -> "THROW cvector capacity exceeded" | Crash c -> "CRASH " ^ crash_str c | OutOfFuel -> "FUEL" in
              let v0 = flags land 1 <> 0 in
              let ((r1, s1), tr1) = go v0 in
              if r1 = OutOfFuel then print_string "RES LOOP\nCTX\nERR 0\n\nENDERR\nRES2 LOOP\nERR2 0\n\nENDERR2\n" else begin
                Printf.printf "RES %s\nCTX" (res_str r1); List.iter (fun x -> Printf.printf " %d" x) (List.rev s1.ps_ctx);
                let e = String.concat "" (List.map (event_str nm g bytes) tr1) in
                Printf.printf "\nERR %d\n%s\nENDERR\n" (String.length e) e;
                let ((r2, _), tr2) = go (not v0) in
                let e2 = String.concat "" (List.map (event_str nm g bytes) tr2) in
                Printf.printf "RES2 %s\nERR2 %d\n%s\nENDERR2\n" (res_str r2) (String.length e2) e2 end) inputs));
    print_string "ENDCASE\n" in
  (try while true do
    match tok () with
    | "CASE" -> id := tok (); terms := []; nts := []; rules := []; inputs := []
    | "RAW" -> ()
    | "TERMD" -> let kind = int () in let tid = read_bytes () in let tname = read_bytes () in let prec = int () in let assoc = int () in let data = read_bytes () in
                 terms := { kind; tid; tname; prec; assoc; data } :: !terms
    | "NTERM" -> nts := read_bytes () :: !nts
    | "ROOT" -> root := read_bytes ()
    | "RULE" -> let lhs = read_bytes () in let n = int () in
                let rhs = List.init n (fun _ -> let k = int () in let s = read_bytes () in (k, s)) in
                let pg = int () <> 0 in let rprec = int () in let ctx = int () <> 0 in let default = int () <> 0 in
                rules := { lhs; rhs; pg; rprec; ctx; default } :: !rules
    | "IN" -> let fl = int () in let b = read_bytes () in inputs := (fl, b) :: !inputs
    | "END" -> run_case ()
    | t -> failwith ("bad token " ^ t)
  done with End_of_file -> ())
