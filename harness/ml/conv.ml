(* Conversions between OCaml ints/strings and the extracted Coq datatypes, plus shared text rendering
   (the exact message templates of ctpg.hpp; a disagreement here shows up as a correspondence failure). *)
open Model

let rec nat_of_int_acc n acc = if n <= 0 then acc else nat_of_int_acc (n - 1) (S acc)
let nat_of_int n = nat_of_int_acc n O
let int_of_nat n = let rec go n acc = match n with O -> acc | S m -> go m (acc + 1) in go n 0
let rec pos_of_int n = if n <= 1 then XH else if n land 1 = 0 then XO (pos_of_int (n lsr 1)) else XI (pos_of_int (n lsr 1))
let z_of_int n = if n = 0 then Z0 else if n > 0 then Zpos (pos_of_int n) else Zneg (pos_of_int (-n))
let nats l = List.map nat_of_int l
let ints l = List.map int_of_nat l
let bytes_of_string s = List.init (String.length s) (fun i -> nat_of_int (Char.code s.[i]))
let string_of_bytes l = let b = Buffer.create 16 in List.iter (fun n -> Buffer.add_char b (Char.chr (int_of_nat n land 255))) l; Buffer.contents b
let hex s = let b = Buffer.create 16 in String.iter (fun c -> Buffer.add_string b (Printf.sprintf "%02x" (Char.code c))) s; Buffer.contents b
let opt_int = function Some n -> int_of_nat n | None -> -1
let opt_u16 = function Some n -> int_of_nat n | None -> 65535

(* utils::char_names *)
let cname c = if c > 32 && c < 127 then String.make 1 (Char.chr c) else Printf.sprintf "\\x%X%X" (c / 16) (c mod 16)
let sp_str (p : spoint) = Printf.sprintf "[%d:%d]" (int_of_nat p.sp_line) (int_of_nat p.sp_col)

let kind_code = function KError -> 0 | KSuccess -> 1 | KShift -> 2 | KShiftErr -> 3 | KReduce -> 4 | KRR -> 5

type names = { tn : string array; ntn : string array }

let sym_name nm = function T i -> nm.tn.(int_of_nat i) | NT i -> nm.ntn.(int_of_nat i)
let get_ri g i = List.nth g.rule_infos i
let get_rhs g r = List.nth g.right_sides r

(* write_rule_diag_str *)
let rule_diag nm g rule_info_idx =
  let ri = get_ri g rule_info_idx in
  let rhs = get_rhs g (int_of_nat ri.ri_r) in
  nm.ntn.(int_of_nat ri.ri_l) ^ " <- " ^ String.concat " " (List.map (sym_name nm) rhs)

(* write_situation_diag_str *)
let item_diag nm g (it : item) =
  let ri = get_ri g (int_of_nat it.it_r) in
  let rhs = get_rhs g (int_of_nat ri.ri_r) in
  let d = int_of_nat it.it_d in
  let b = Buffer.create 64 in
  Buffer.add_string b (nm.ntn.(int_of_nat ri.ri_l) ^ " <- ");
  List.iteri (fun i s -> if i = d then Buffer.add_string b ". "; Buffer.add_string b (sym_name nm s ^ " ")) rhs;
  if d >= List.length rhs then Buffer.add_string b ". ";
  Buffer.add_string b ("==> " ^ nm.tn.(int_of_nat it.it_t));
  Buffer.contents b

let diag_line_str nm = function
  | DlGoto (nt, st) -> Printf.sprintf "On %s go to %d\n" nm.ntn.(opt_int nt) (opt_u16 st)
  | DlSuccess t -> Printf.sprintf "On %s success \n" nm.tn.(int_of_nat t)
  | DlSRReduce (t, r) -> Printf.sprintf "On %s S/R CONFLICT, prefer reduce(%d) over shift\n" nm.tn.(int_of_nat t) (opt_u16 r)
  | DlSRShift (t, r) -> Printf.sprintf "On %s S/R CONFLICT, prefer shift over reduce(%d)\n" nm.tn.(int_of_nat t) (opt_u16 r)
  | DlShift (t, st) -> Printf.sprintf "On %s shift to %d\n" nm.tn.(int_of_nat t) (opt_u16 st)
  | DlReduce (t, r) -> Printf.sprintf "On %s reduce using (%d)\n" nm.tn.(int_of_nat t) (opt_u16 r)
  | DlRR t -> Printf.sprintf "On %s R/R CONFLICT - !!! FIX IT !!! \n" nm.tn.(int_of_nat t)

(* write_diag_str from "RULES" on, without the lexer section, trailing newlines stripped *)
let diag_text nm g (sts : lrstate list) (tb : entry list list) =
  let b = Buffer.create 4096 in
  Buffer.add_string b "RULES\n\n";
  List.iteri (fun i (ri : rule_info) -> Buffer.add_string b (Printf.sprintf "%d    %s\n" (int_of_nat ri.ri_r) (rule_diag nm g i))) g.rule_infos;
  Buffer.add_string b "\nSTATES\n\n";
  List.iteri (fun i (st : lrstate) ->
    Buffer.add_string b (Printf.sprintf "STATE %d\n" i);
    List.iter (fun it -> Buffer.add_string b (item_diag nm g it ^ "\n")) (sort_items g st.st_all);
    Buffer.add_string b "\n";
    List.iter (fun l -> Buffer.add_string b (diag_line_str nm l)) (state_lines g st.st_all (List.nth tb i));
    Buffer.add_string b "\n") sts;
  let s = Buffer.contents b in
  let n = ref (String.length s) in
  while !n > 0 && s.[!n - 1] = '\n' do decr n done;
  String.sub s 0 !n

let lex_event_str = function
  | LxRecognized (p, t) -> Printf.sprintf "%s REGEX MATCH: Recognized %d\n" (sp_str p) (int_of_nat t)
  | LxChar (p, c) -> Printf.sprintf "%s REGEX MATCH: Current char %s\n" (sp_str p) (cname (int_of_nat c))
  | LxNewState (p, s) -> Printf.sprintf "%s REGEX MATCH: New state %d\n" (sp_str p) (int_of_nat s)
  | LxCustom (p, t) -> Printf.sprintf "%s LEXER MATCH: Recognized %d \n" (sp_str p) (int_of_nat t)

let event_str nm g (input : string) = function
  | EvLex e -> lex_event_str e
  | EvRecognized (p, t) -> Printf.sprintf "%s PARSE: Recognized %s \n" (sp_str p) nm.tn.(int_of_nat t)
  | EvShift (p, st, a, l) -> Printf.sprintf "%s PARSE: Shift to %d, term: %s\n" (sp_str p) (int_of_nat st) (String.sub input (int_of_nat a) (int_of_nat l))
  | EvShiftErr (p, st) -> Printf.sprintf "%s PARSE: Shift to %d, term: <error_recovery_token>\n" (sp_str p) (int_of_nat st)
  | EvReduce (p, r, rii) -> Printf.sprintf "%s PARSE: Reduced using rule %d  %s\n" (sp_str p) (int_of_nat r) (rule_diag nm g (int_of_nat rii))
  | EvGoto (p, st) -> Printf.sprintf "%s PARSE: Go to %d\n" (sp_str p) (opt_u16 st)
  | EvRR p -> Printf.sprintf "%s PARSE: R/R conflict encountered \n" (sp_str p)
  | EvSyntaxError (p, t) -> Printf.sprintf "%s PARSE: Syntax error: Unexpected '%s'\n" (sp_str p) nm.tn.(int_of_nat t)
  | EvUnexpectedChar (p, c) -> Printf.sprintf "%s PARSE: Unexpected character: %c\n" (sp_str p) (Char.chr (int_of_nat c))
  | EvEnterRecovery p -> Printf.sprintf "%s PARSE: Entering recovery mode \n" (sp_str p)
  | EvLeaveRecovery p -> Printf.sprintf "%s PARSE: Leaving recovery mode \n" (sp_str p)
  | EvEnterConsume p -> Printf.sprintf "%s PARSE: Entering consume mode \n" (sp_str p)
  | EvLeaveConsume p -> Printf.sprintf "%s PARSE: Leaving consume mode \n" (sp_str p)
  | EvRecoveringTo (p, st) -> Printf.sprintf "%s PARSE: Recovering to state %d\n" (sp_str p) (int_of_nat st)
  | EvCouldNotRecover p -> Printf.sprintf "%s PARSE: Could not recover from error \n" (sp_str p)
  | EvConsuming (p, t) -> Printf.sprintf "%s PARSE: Recovery, consuming term %s \n" (sp_str p) nm.tn.(int_of_nat t)
  | EvSuccess p -> Printf.sprintf "%s PARSE: Success \n" (sp_str p)

let crash_str = function
  | CrTableRow -> "table-row" | CrTableCol -> "table-col" | CrRuleInfo -> "rule-info" | CrStackUnderflow -> "stack-underflow"
  | CrEmptyStack -> "empty-stack" | CrGotoUninit -> "goto-uninit" | CrNoValue -> "no-value" | CrBufferOverrun -> "buffer-overrun" | CrRRArg -> "rr-arg"

(* whitespace separated token reader *)
let make_reader ic =
  let buf = Buffer.create 64 in
  let rec next () =
    Buffer.clear buf;
    let rec skip () = match input_char ic with
      | ' ' | '\n' | '\t' | '\r' -> skip ()
      | c -> c in
    match (try Some (skip ()) with End_of_file -> None) with
    | None -> None
    | Some c ->
        Buffer.add_char buf c;
        (try
          let rec go () = match input_char ic with
            | ' ' | '\n' | '\t' | '\r' -> ()
            | c -> Buffer.add_char buf c; go () in go ()
        with End_of_file -> ());
        Some (Buffer.contents buf)
  in next
