// H2: drives the REAL pattern parser (regex_parser_object), dfa_size_analyzer, dfa_builder and dfa_match of /repo's
// ctpg.hpp at run time on patterns, term sets and strings from a case file; prints one observable block per case.
#include <ctpg/ctpg.hpp>
#include <cstdio>
#include <fstream>
#include <iostream>
#include <sstream>
#include <string>
#include <vector>
#include <memory>
#include <pthread.h>

using namespace ctpg;
constexpr size_t NMAX = 1024;
using dfa_t = regex::dfa<NMAX>;

// A buffer that behaves like cstring_buffer (the terminator at index size is readable, end() points at it)
// and records any access beyond the terminator.
struct pattern_buffer {
  std::string s; mutable int faults = 0; mutable long max_read = -1;
  explicit pattern_buffer(std::string str) : s(std::move(str)) {}
  struct iterator {
    const pattern_buffer* b; long off;
    char operator*() const { if (off > b->max_read) b->max_read = off; if (off < 0 || off > (long)b->s.size()) { ++b->faults; return 0; } return off == (long)b->s.size() ? 0 : b->s[off]; }
    iterator& operator++() { ++off; return *this; }
    iterator operator++(int) { iterator i(*this); ++off; return i; }
    bool operator==(const iterator& o) const { return off == o.off; }
    bool operator!=(const iterator& o) const { return off != o.off; }
    iterator& operator+=(size_t n) { off += (long)n; return *this; }
    iterator operator+(size_t n) const { iterator i(*this); i.off += (long)n; return i; }
  };
  iterator begin() const { return iterator{this, 0}; }
  iterator end() const { return iterator{this, (long)s.size()}; }
  std::string_view get_view(iterator a, iterator e) const {
    if (a.off < 0 || e.off < a.off || e.off > (long)s.size()) { ++faults; return {}; }
    return std::string_view(s.data() + a.off, e.off - a.off);
  }
};

static void dump_dfa(const dfa_t& sm, std::ostream& o) {
  o << "DFA " << sm.size() << "\n";
  for (size_t i = 0; i < sm.size(); ++i) {
    const auto& st = sm[i];
    o << "ST " << i << " " << int(st.start_state) << int(st.end_state) << int(st.unreachable) << " r";
    for (int k = 0; k < 4; ++k) o << " " << (st.conflicted_recognition[k] == uninitialized16 ? -1 : int(st.conflicted_recognition[k]));
    o << " m";
    for (size_t k = 0; k < sm.size() && k < NMAX; ++k) if (st.merged_from.test(k)) o << " " << k;
    o << " t";
    size_t c = 0;
    while (c < 256) {
      if (st.transitions[c] == uninitialized16) { ++c; continue; }
      size_t e = c; while (e + 1 < 256 && st.transitions[e + 1] == st.transitions[c]) ++e;
      o << " " << c << "-" << e << ">" << st.transitions[c]; c = e + 1;
    }
    o << "\n";
  }
}

struct tdata { int kind; std::string s; };   // 0 char, 1 string, 2 regex
struct hcase { std::string id; int kind = 0; std::string pattern; std::vector<tdata> terms; std::vector<std::string> inputs; };

template<size_t N> static void add_str_n(const std::string& s, regex::dfa_builder<NMAX>& b, size16_t idx) {
  char arr[N]; for (size_t i = 0; i < N - 1; ++i) arr[i] = s[i]; arr[N - 1] = 0;
  regex::add_term_data_to_dfa(arr, b, idx);      // the real string overload
}
static void add_str(const std::string& s, regex::dfa_builder<NMAX>& b, size16_t idx) {
  switch (s.size()) {
    case 1: add_str_n<2>(s, b, idx); break; case 2: add_str_n<3>(s, b, idx); break; case 3: add_str_n<4>(s, b, idx); break;
    case 4: add_str_n<5>(s, b, idx); break; case 5: add_str_n<6>(s, b, idx); break; case 6: add_str_n<7>(s, b, idx); break;
    case 7: add_str_n<8>(s, b, idx); break; case 8: add_str_n<9>(s, b, idx); break;
    default: throw std::runtime_error("string term length not supported by the harness");
  }
}

static void match_inputs(const dfa_t& sm, const hcase& c, std::ostream& o) {
  int k = 0;
  for (auto& in : c.inputs) {
    std::stringstream err; match_options mo; mo.set_verbose(k % 2 == 0);
    pattern_buffer buf(in);
    auto rt = regex::dfa_match(sm, mo, source_point{}, buf.begin(), buf.end(), err);
    o << "M " << k << " " << (rt.term_idx == uninitialized16 ? -1 : int(rt.term_idx)) << " " << (rt.term_idx == uninitialized16 ? -1 : long(rt.len));
    if (buf.max_read >= (long)in.size()) o << " OVERREAD";
    o << "\n";
    std::string e = err.str();
    o << "V " << e.size() << "\n" << e << "\nENDV\n";
    ++k;
  }
}

// the library's own entry point regex::analyze_dfa_size takes an array of exactly the pattern's size: dispatch on the length
template<size_t L> static bool ads_exact(const std::string& p, size32_t& out) {
  char a[L + 1]; for (size_t i = 0; i < L; ++i) a[i] = p[i]; a[L] = 0;
  try { out = regex::analyze_dfa_size(a); return true; } catch (const std::exception&) { return false; }
}
template<size_t... I> static int ads_dispatch(const std::string& p, size32_t& out, std::index_sequence<I...>) {
  int r = -1; ((p.size() == I + 1 ? void(r = ads_exact<I + 1>(p, out) ? 1 : 0) : void()), ...); return r;
}
static void run_case(const hcase& c, std::ostream& o) {
  o << "CASE " << c.id << "\n";
  auto sm = std::make_unique<dfa_t>();
  try {
    if (c.kind == 0) {
      utils::no_stream ns;
      size32_t predicted = 0; bool ok1 = false;
      { regex::dfa_size_analyzer a; pattern_buffer buf(c.pattern);
        auto r = regex::regex_parser::regex_parser_object.context_parse(a, parse_options{}.set_skip_whitespace(false), buf, ns);
        ok1 = r.has_value(); if (ok1) predicted = r.value().n;
        o << "ANALYZE " << (ok1 ? "ok " : "fail ") << predicted << (buf.faults ? " OVERREAD" : "") << "\n"; }
      { size32_t n = 0; int r = ads_dispatch(c.pattern, n, std::make_index_sequence<24>{});      // regex::analyze_dfa_size itself (what dfa_size of regex_term / regex::expr is)
        if (r >= 0) o << "ADS " << (r ? "ok " : "fail ") << n << "\n"; }
      if (ok1 && predicted <= NMAX) {
        regex::dfa_builder<NMAX> b(*sm); pattern_buffer buf(c.pattern);
        auto r = regex::regex_parser::regex_parser_object.context_parse(b, parse_options{}.set_skip_whitespace(false), buf, ns);
        o << "BUILD " << (r.has_value() ? "ok" : "fail") << " size " << b.size() << "\n";
        if (r.has_value()) { b.mark_end_states(r.value(), 0); dump_dfa(*sm, o); match_inputs(*sm, c, o); }
      } else if (ok1) o << "BUILD skipped-too-large\n";
    } else {
      regex::dfa_builder<NMAX> b(*sm); utils::no_stream ns; size16_t idx = 0;
      for (auto& t : c.terms) {
        if (t.kind == 0) regex::add_term_data_to_dfa(t.s[0], b, idx);
        else if (t.kind == 1) add_str(t.s, b, idx);
        else {  // the regex overload needs a compile-time array; same steps through the real builder and pattern parser
          pattern_buffer buf(t.s);
          auto r = regex::regex_parser::regex_parser_object.context_parse(b, parse_options{}.set_skip_whitespace(false), buf, ns);
          if (!r.has_value()) throw std::runtime_error("Regex parse error");
          utils::slice prev{0, size32_t(b.size())};
          b.mark_end_states(r.value(), idx); b.alt(prev, r.value());
        }
        ++idx;
      }
      o << "LEXER size " << b.size() << "\n";
      dump_dfa(*sm, o); match_inputs(*sm, c, o);
    }
  } catch (const std::exception& e) { o << "THROW " << e.what() << "\n"; }
  o << "ENDCASE\n";
}

static std::string read_bytes(std::istream& f) { int n; f >> n; std::string s; for (int i = 0; i < n; ++i) { int b; f >> b; s.push_back(char(b)); } return s; }

static const char* g_casefile = nullptr;
static void* real_main(void*) {
  std::ifstream f(g_casefile); std::string tok; hcase c;
  while (f >> tok) {
    if (tok == "CASE") { c = hcase{}; f >> c.id; }
    else if (tok == "PAT") { c.kind = 0; c.pattern = read_bytes(f); }
    else if (tok == "TERM") { c.kind = 1; tdata t; f >> t.kind; t.s = read_bytes(f); c.terms.push_back(t); }
    else if (tok == "STR") c.inputs.push_back(read_bytes(f));
    else if (tok == "END") run_case(c, std::cout);
    else { std::cerr << "bad token " << tok << "\n"; break; }
  }
  std::cout.flush(); return nullptr;
}
int main(int argc, char** argv) {
  if (argc < 2) return 2; g_casefile = argv[1];
  pthread_attr_t attr; pthread_attr_init(&attr); pthread_attr_setstacksize(&attr, size_t(1) << 28);
  pthread_t th; pthread_create(&th, &attr, real_main, nullptr); pthread_join(th, nullptr); return 0;
}
