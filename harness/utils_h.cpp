// Correspondence harness for namespace utils and regex::hex_digits_to_char: runs the REAL functions of /repo's header
// exhaustively over the 256 bytes and on string cases read from a file (see coq/Model/Utils.v).
#include <cstdio>
#include <cstring>
#include <fstream>
#include <iostream>
#include <sstream>
#include <string>
#include <vector>
#include <ctpg/ctpg.hpp>

static std::vector<std::string> toks(const std::string& l) { std::istringstream is(l); std::vector<std::string> v; std::string t; while (is >> t) v.push_back(t); return v; }
static std::string unhex(const std::string& h) { std::string s; if (h == "-") return s; for (size_t i = 0; i + 1 < h.size(); i += 2) s.push_back(char(std::stoi(h.substr(i, 2), nullptr, 16))); return s; }
// the string in its own heap block followed by a terminator and bytes that must never influence the result
static std::vector<char> region(const std::string& s, const char* tail) { std::vector<char> v(s.begin(), s.end()); v.push_back(0); for (const char* p = tail; *p; ++p) v.push_back(*p); v.push_back(0); return v; }

template<size_t N> static std::string find_in(const std::vector<std::vector<char>>& names, const char* s)
{
    ctpg::str_table<N> t; for (size_t i = 0; i < N; ++i) t[i] = names[i].data();
    try { return std::to_string(ctpg::utils::find_str<N>(t, s)); } catch (const std::exception&) { return "T"; }     // T = threw ("string not found")
}

int main(int argc, char** argv)
{
    using namespace ctpg;
    std::cout << "CLASS ";
    for (int b = 0; b < 256; ++b) { char c = char((unsigned char)b); std::cout << (utils::is_printable(c) ? 1 : 0) << (utils::is_hex_digit(c) ? 1 : 0) << (utils::is_dec_digit(c) ? 1 : 0) << (b < 255 ? "," : ""); }
    std::cout << "\nNAMES ";
    for (int b = 0; b < 256; ++b) { const char* n = utils::c_names.name(char((unsigned char)b)); size_t l = std::strlen(n); for (size_t i = 0; i <= l; ++i) std::printf("%02x", (unsigned char)n[i]); std::fflush(stdout); std::cout << (b < 255 ? "," : ""); }
    std::cout << "\nIDX ";
    for (int b = 0; b < 256; ++b) { char c = char((unsigned char)b); size_t i = utils::char_to_idx(c); std::cout << i << ":" << int((unsigned char)utils::idx_to_char(i)) << (b < 255 ? "," : ""); }
    std::cout << "\nHEX ";
    const char* hd = "0123456789abcdefABCDEF";
    for (int i = 0; i < 22; ++i) for (int j = 0; j < 22; ++j) std::cout << int((unsigned char)hd[i]) << ":" << int((unsigned char)hd[j]) << ":" << int((unsigned char)regex::hex_digits_to_char(hd[i], hd[j])) << ((i == 21 && j == 21) ? "" : ",");
    std::cout << "\n";
    std::ifstream in(argv[1]); std::string line; size_t k = 0;
    while (std::getline(in, line))
    {
        auto t = toks(line); if (t.empty()) continue;
        std::cout << k++ << " " << t[0] << " ";
        if (t[0] == "E") { auto a = region(unhex(t[1]), "xy"), b = region(unhex(t[2]), "q"); std::cout << (utils::str_equal(a.data(), b.data()) ? 1 : 0); }
        else if (t[0] == "C") { auto s = region(unhex(t[2]), "\t \n"); size_t r = utils::find_char(char((unsigned char)std::stoi(t[1])), s.data()); if (r == uninitialized) std::cout << "-"; else std::cout << r; }
        else if (t[0] == "L") { auto s = region(unhex(t[1]), "abc"); std::cout << utils::str_len(s.data()); }
        else if (t[0] == "F")
        {
            auto s = region(unhex(t[1]), "zz"); std::vector<std::vector<char>> names; for (size_t i = 2; i < t.size(); ++i) names.push_back(region(unhex(t[i]), "w"));
            std::string r = "?";
            switch (names.size()) { case 1: r = find_in<1>(names, s.data()); break; case 2: r = find_in<2>(names, s.data()); break; case 3: r = find_in<3>(names, s.data()); break;
                                    case 4: r = find_in<4>(names, s.data()); break; case 5: r = find_in<5>(names, s.data()); break; case 6: r = find_in<6>(names, s.data()); break; }
            std::cout << r;
        }
        std::cout << "\n";
    }
    return 0;
}
