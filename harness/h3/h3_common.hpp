// H3: programs that use the library exactly as a user does (the DSL: nterm, char/string/regex terms, rules with >= / >>= / [n]),
// then dump grammar_info, item sets, table and lexer automaton through the CTPG_VERIF hook and parse inputs.
#pragma once
#include <ctpg/ctpg.hpp>
#include <iostream>
#include <sstream>
#include <string>
#include <vector>
#include <memory>
#include <pthread.h>

namespace h3 {
// forces construction at RUN time: the initializer is not a constant expression, so a static is initialised dynamically
template<class F> static auto at_run_time(F f) { volatile int z = 0; if (z) std::abort(); return f(); }

using namespace ctpg;
struct ctxlog { std::vector<int> calls; };

inline std::string hexs(std::string_view sv) { static const char* d = "0123456789abcdef"; std::string o; for (unsigned char c : sv) { o += d[c >> 4]; o += d[c & 15]; } return o; }
inline std::string str(const std::string& s) { return s; }
inline std::string str(const term_value<char>& t) { char c = t.get_value(); return "t[" + hexs(std::string_view(&c, 1)) + "]@" + std::to_string(t.get_line()) + ":" + std::to_string(t.get_column()); }
inline std::string str(const term_value<std::string_view>& t) { return "t[" + hexs(t.get_value()) + "]@" + std::to_string(t.get_line()) + ":" + std::to_string(t.get_column()); }
inline std::string str(const no_type&) { return "err"; }

template<int R> struct F {      // non-contextual functor of rule R
  template<class... A> std::string operator()(A&&... a) const {
    std::string s = "r" + std::to_string(R) + "("; bool first = true;
    ((s += (first ? "" : ","), s += str(a), first = false), ...);
    return s + ")";
  }
};
template<int R> struct FC {     // contextual functor of rule R
  template<class... A> std::string operator()(ctxlog& c, A&&... a) const { c.calls.push_back(R); return F<R>{}(std::forward<A>(a)...); }
};
}

namespace ctpg {
struct verif_access {
  template<class P> static bool has_rr(const P& p) {
    for (size16_t s = 0; s < p.state_count; ++s) for (size_t c = 0; c < P::symbol_count; ++c)
      if (p.parse_table[s][c].kind == P::parse_table_entry_kind::rr_conflict) return true;
    return false;
  }
  template<class P> static void dump(const P& p, std::ostream& o) {
    o << "GI " << P::term_count << " " << P::nterm_count << " " << P::rule_count << " " << P::max_rule_element_count << "\n";
    for (size_t r = 0; r < P::rule_count; ++r) {
      o << "RS " << r;
      size_t n = 0; for (size_t i = 0; i < P::rule_count; ++i) if (p.gi.rule_infos[i].r_idx == r) n = p.gi.rule_infos[i].r_elements;
      for (size_t k = 0; k < n; ++k) o << " " << (p.gi.right_sides[r][k].term ? "t" : "n") << p.gi.right_sides[r][k].idx;
      o << "\n";
    }
    o << "RI"; for (size_t i = 0; i < P::rule_count; ++i) o << " " << p.gi.rule_infos[i].l_idx << "," << p.gi.rule_infos[i].r_idx << "," << p.gi.rule_infos[i].r_elements; o << "\n";
    o << "SL"; for (size_t i = 0; i < P::nterm_count; ++i) o << " " << p.gi.nterm_rule_slices[i].start << "," << p.gi.nterm_rule_slices[i].n; o << "\n";
    o << "TP"; for (size_t i = 0; i < P::term_count; ++i) o << " " << p.gi.term_precedences[i] << "," << int(p.gi.term_associativities[i]); o << "\n";
    o << "RP"; for (size_t i = 0; i < P::rule_count; ++i) o << " " << p.gi.rule_precedences[i] << "," << int(p.gi.rule_associativities[i]) << "," << (p.gi.rule_last_terms[i] == uninitialized16 ? -1 : int(p.gi.rule_last_terms[i])); o << "\n";
    o << "CAPS " << P::state_count_cap << " " << P::max_sit_count_per_state_cap << " " << P::lexer_dfa_size << " " << P::empty_rules_count << "\n";
    o << "STATES " << p.state_count << "\n";
    for (size16_t s = 0; s < p.state_count; ++s) {
      o << "S" << s << ":";
      for (size32_t i = 0; i < P::situation_address_space_size; ++i)
        if (p.states[s].test(i)) { auto inf = P::make_situation_info(i); o << " " << inf.rule_info_idx << "." << inf.after << "." << inf.t; }
      o << "\nR" << s << ":";
      for (size_t c = 0; c < P::symbol_count; ++c) { const auto& e = p.parse_table[s][c];
        // the arg of an error cell is never written by the library; g++ 12 leaves 0 instead of the 65535 default member initialiser in
        // some columns when the table is value-initialised at run time (clang++ does not), so it is not compared
        bool unused = e.kind == P::parse_table_entry_kind::error || e.kind == P::parse_table_entry_kind::success || e.kind == P::parse_table_entry_kind::rr_conflict;
        o << " " << int(e.kind) << "," << ((unused || e.arg == uninitialized16) ? -1 : int(e.arg)) << "," << int(e.has_sr_conflict); }
      o << "\n";
    }
    if constexpr (P::generate_lexer) {
      const auto& sm = p.lexer_sm;
      o << "DFA " << sm.size() << "\n";
      for (size_t i = 0; i < sm.size(); ++i) {
        const auto& st = sm[i];
        o << "ST " << i << " " << int(st.start_state) << int(st.end_state) << int(st.unreachable) << " r";
        for (int k = 0; k < 4; ++k) o << " " << (st.conflicted_recognition[k] == uninitialized16 ? -1 : int(st.conflicted_recognition[k]));
        o << " m"; for (size_t k = 0; k < sm.size(); ++k) if (st.merged_from.test(k)) o << " " << k;
        o << " t"; size_t c = 0;
        while (c < 256) { if (st.transitions[c] == uninitialized16) { ++c; continue; } size_t e = c; while (e + 1 < 256 && st.transitions[e + 1] == st.transitions[c]) ++e; o << " " << c << "-" << e << ">" << st.transitions[c]; c = e + 1; }
        o << "\n";
      }
    }
  }
};
}

namespace h3 {
struct line_limit : std::runtime_error { line_limit() : std::runtime_error("line limit") {} };
struct limited_buf : std::streambuf {
  long lines = 0, limit;
  explicit limited_buf(long l) : limit(l) {}
  int_type overflow(int_type ch) override { if (ch == '\n' && ++lines > limit) throw line_limit(); return ch; }
  std::streamsize xsputn(const char* s, std::streamsize n) override { for (std::streamsize i = 0; i < n; ++i) if (s[i] == '\n' && ++lines > limit) throw line_limit(); return n; }
};
inline std::string strip_header(const std::string& d) { auto p = d.find("RULES\n"); std::string s = p == std::string::npos ? d : d.substr(p); auto lp = s.find("LEXICAL ANALYZER"); if (lp != std::string::npos) s = s.substr(0, lp); while (!s.empty() && s.back() == '\n') s.pop_back(); return s; }

template<class P> void run_parser(const char* id, const P& p, const std::vector<std::pair<std::string, int>>& inputs, std::ostream& o) {
  o << "CASE " << id << "\n";
  ctpg::verif_access::dump(p, o);
  { std::stringstream d; p.write_diag_str(d); std::string s = strip_header(d.str()); o << "DIAG " << s.size() << "\n" << s << "\nENDDIAG\n"; }
  if (ctpg::verif_access::has_rr(p)) { o << "INPUTS skipped-rr\nENDCASE\n"; return; }
  int k = 0;
  for (auto& [bytes, flags] : inputs) {
    o << "IN " << k++ << "\n";
    {
      bool loops = false; ctxlog lg; limited_buf lb(200000); std::ostream ls(&lb); ls.exceptions(std::ios_base::badbit);
      parse_options vo; vo.set_verbose(true).set_skip_whitespace((flags & 2) != 0).set_skip_newline((flags & 4) != 0);
      try { p.context_parse(lg, vo, buffers::string_view_buffer(bytes), ls); }
      catch (const line_limit&) { loops = true; }
      catch (const std::ios_base::failure&) { loops = lb.lines > lb.limit; }
      catch (const std::exception&) {}
      if (loops) { o << "RES LOOP\nCTX\nERR 0\n\nENDERR\nRES2 LOOP\nERR2 0\n\nENDERR2\n"; continue; }
    }
    parse_options opt; opt.set_verbose((flags & 1) != 0).set_skip_whitespace((flags & 2) != 0).set_skip_newline((flags & 4) != 0);
    for (int pass = 0; pass < 2; ++pass) {
      parse_options o2 = opt; if (pass) o2.set_verbose(!opt.verbose);
      ctxlog log; std::stringstream err; std::string r;
      std::string larger = bytes + " \n\t42 ab"; std::string_view sub(larger.data(), bytes.size());   // a proper sub-view of a larger text
      try {
        std::optional<std::string> v = pass ? p.context_parse(log, o2, buffers::string_view_buffer(sub), err) : p.context_parse(log, o2, buffers::string_buffer(std::string(bytes)), err);
        r = v ? "VALUE " + *v : "NONE";
      } catch (const std::exception& e) { r = std::string("THROW ") + e.what(); }
      std::string e = err.str();
      if (!pass) { o << "RES " << r << "\nCTX"; for (int x : log.calls) o << " " << x; o << "\nERR " << e.size() << "\n" << e << "\nENDERR\n"; }
      else o << "RES2 " << r << "\nERR2 " << e.size() << "\n" << e << "\nENDERR2\n";
    }
  }
  o << "ENDCASE\n";
}
inline int with_big_stack(void* (*fn)(void*)) {
  pthread_attr_t attr; pthread_attr_init(&attr); pthread_attr_setstacksize(&attr, size_t(1) << 30);
  pthread_t th; if (pthread_create(&th, &attr, fn, nullptr) != 0) return 2; pthread_join(th, nullptr); return 0;
}
}
