// C18: a custom lexer (use_lexer<L>) drives the parser under the same contract as the generated one: asked once per needed
// term after the same whitespace skipping, the index is the position in terms(...), exactly the returned length is consumed,
// the slice goes through the term's functor (also for char/string terms listed next to custom terms), a default-constructed
// result is 'Unexpected character'. Includes lexemes longer than 65535 bytes.
#include <ctpg/ctpg.hpp>
#include <iostream>
#include <sstream>
#include <string>
#include <vector>
using namespace ctpg; using namespace ctpg::buffers; using namespace ctpg::ftors;
static int fails = 0;
#define CHECK(c, what) do { if (!(c)) { ++fails; std::cout << "FAIL " << what << "\n"; } } while (0)

static std::vector<std::pair<char, size_t>> asked;     // (first char seen, remaining length) per consultation
struct lexer {
  template<typename It, typename Err> auto match(match_options, source_point, It start, It end, Err&) {
    size_t rem = 0; for (It i = start; !(i == end); ++i) ++rem;
    char c = *start; asked.push_back({c, rem});
    // term 0 "word": a run of letters (custom term); term 1 'x' char term: upper or lower case X; term 2 "select" string term, case-insensitive; term 3 ','
    auto lower = [](char ch) { return (ch >= 'A' && ch <= 'Z') ? char(ch - 'A' + 'a') : ch; };
    if (c == ',') return recognized_term(3, 1);
    if (lower(c) == 'x') { It n = start; ++n; if (n == end || !((*n >= 'a' && *n <= 'z') || (*n >= 'A' && *n <= 'Z'))) return recognized_term(1, 1); }
    const char* kw = "select"; size_t k = 0; It i = start;
    while (k < 6 && !(i == end) && lower(*i) == kw[k]) { ++i; ++k; }
    if (k == 6 && (i == end || !((*i >= 'a' && *i <= 'z') || (*i >= 'A' && *i <= 'Z')))) return recognized_term(2, 6);
    size_t len = 0; for (It j = start; !(j == end) && ((*j >= 'a' && *j <= 'z') || (*j >= 'A' && *j <= 'Z')); ++j) ++len;
    if (len) return recognized_term(0, len);
    return recognized_term{};
  }
};
constexpr nterm<std::string> list("list"), item("item");
constexpr custom_term word("word", [](std::string_view sv) { return std::string(sv); });
static const parser p(list, terms(word, 'x', "select", ','), nterms(list, item), rules(
    list(item) >= _e1, list(list, ',', item) >= [](std::string l, skip, std::string i) { return l + "|" + i; },
    item(word) >= [](const auto& w) { return "w:" + w.get_value() + "@" + std::to_string(w.get_column()); },
    item('x') >= [](const auto& c) { return std::string("c:") + c.get_value() + "@" + std::to_string(c.get_column()); },
    item("select") >= [](const auto& s) { return "s:" + std::string(s.get_value()) + "@" + std::to_string(s.get_column()); }),
    use_lexer<lexer>{});

static std::string run(const std::string& in, std::string* err = nullptr) {
  asked.clear(); std::stringstream e; auto r = p.parse(string_buffer(std::string(in)), e); if (err) *err = e.str(); return r ? *r : "<none>";
}
// custom terms whose names are in PREFIX relation ("<" and "<=", "id" and "idx"): the index the lexer returns is the position in terms(...)
struct lexer2 {
  template<typename It, typename Err> auto match(match_options, source_point, It start, It end, Err&) {
    char c = *start; It n = start; ++n;
    if (c == '<') return (!(n == end) && *n == '=') ? recognized_term(1, 2) : recognized_term(0, 1);
    if (c >= '0' && c <= '9') return recognized_term(2, 1);
    if (c == 'i') { size_t len = 0; for (It j = start; !(j == end) && *j >= 'a' && *j <= 'z'; ++j) ++len; return len == 3 ? recognized_term(4, 3) : recognized_term(3, len); }
    return recognized_term{};
  }
};
constexpr custom_term lt("<", [](std::string_view sv) { return std::string(sv); });
constexpr custom_term le("<=", [](std::string_view sv) { return std::string(sv); });
constexpr custom_term dig("digit", [](std::string_view sv) { return std::string(sv); });
constexpr custom_term id2("id", [](std::string_view sv) { return std::string(sv); });
constexpr custom_term idx3("idx", [](std::string_view sv) { return std::string(sv); });
constexpr nterm<std::string> cmp("cmp");
static const parser p2(cmp, terms(lt, le, dig, id2, idx3), nterms(cmp), rules(
    cmp(dig, lt, dig) >= [](std::string a, std::string o, std::string b) { return a + " LT(" + o + ") " + b; },
    cmp(dig, le, dig) >= [](std::string a, std::string o, std::string b) { return a + " LE(" + o + ") " + b; },
    cmp(id2, lt, dig) >= [](std::string a, std::string, std::string b) { return "id:" + a + "<" + b; },
    cmp(idx3, lt, dig) >= [](std::string a, std::string, std::string b) { return "idx:" + a + "<" + b; }), use_lexer<lexer2>{});
template<class B> static std::string run2(const B& buf) { auto r = p2.parse(buf); return r ? *r : "<none>"; }
int main() {
  CHECK(run("abc, X ,SELECT,x,Select") == "w:abc@1|c:X@6|s:SELECT@9|c:x@16|s:Select@18", "slices through the term functors: got " << run("abc, X ,SELECT,x,Select"));
  // asked exactly once per needed term, at its first character, after whitespace skipping
  { run("ab ,\n cd"); std::string firsts; for (auto& a : asked) firsts += a.first; CHECK(firsts == "a,c", "lexer consulted at '" << firsts << "' (expected a , c)"); }
  { std::string e; CHECK(run("ab,?x", &e) == "<none>" && e.find("Unexpected character: ?") != std::string::npos && e.find("[1:4]") != std::string::npos, "default-constructed result must be 'Unexpected character' at [1:4]; stream: " << e); }
  { std::string e; CHECK(run("ab cd", &e) == "<none>" && e.find("Syntax error") != std::string::npos, "syntax error through a custom lexer"); }
  for (size_t n : {10u, 65535u, 65536u, 70002u, 200000u}) {           // one very long term between two short ones
    std::string big(n, 'q'); std::string in = "ab," + big + ",cd"; std::string e;
    std::string want = "w:ab@1|w:" + big + "@4|w:cd@" + std::to_string(n + 5);
    CHECK(run(in, &e) == want, "a custom-lexer term of " << n << " bytes is not consumed as one term (" << e.substr(0, 80) << ")");
  }
  CHECK(run2(string_buffer("2<3")) == "2 LT(<) 3" && run2(string_buffer("2 <= 3")) == "2 LE(<=) 3" && run2(string_buffer("3<=2")) == "3 LE(<=) 2", "terms with prefix-related names '<' / '<=': got " << run2(string_buffer("2<3")) << " ; " << run2(string_buffer("2 <= 3")));
  CHECK(run2(string_buffer("ix<1")) == "id:ix<1" && run2(string_buffer("ixy<1")) == "idx:ixy<1", "terms with prefix-related names 'id' / 'idx': got " << run2(string_buffer("ix<1")) << " ; " << run2(string_buffer("ixy<1")));
  // every buffer kind hands the functor exactly the slice the lexer returned (tokens in the middle of the text, longer than one char)
  { const char text[] = "12 <= 34"; std::string s(text);
    static const parser p3(cmp, terms(lt, le, dig, id2, idx3), nterms(cmp), rules(
        cmp(dig, dig, le, dig, dig) >= [](std::string a, std::string b, std::string o, std::string c, std::string d) { return "[" + a + "][" + b + "][" + o + "][" + c + "][" + d + "]"; }), use_lexer<lexer2>{});
    auto r1 = p3.parse(string_buffer(std::string(s))), r2 = p3.parse(string_view_buffer(std::string_view(s))), r3 = p3.parse(cstring_buffer(text));
    std::string sub = s + " <= 99"; auto r4 = p3.parse(string_view_buffer(std::string_view(sub.data(), s.size())));
    const char* want = "[1][2][<=][3][4]";
    CHECK(r1 && *r1 == want, "string_buffer: slices handed to the custom terms' functors: " << (r1 ? *r1 : "<none>"));
    CHECK(r2 && *r2 == want, "string_view_buffer: slices handed to the custom terms' functors: " << (r2 ? *r2 : "<none>"));
    CHECK(r3 && *r3 == want, "cstring_buffer: slices handed to the custom terms' functors: " << (r3 ? *r3 : "<none>"));
    CHECK(r4 && *r4 == want, "string_view_buffer over a sub-view: slices handed to the custom terms' functors: " << (r4 ? *r4 : "<none>")); }
  // the same with the generated lexer
  { static constexpr char pat[] = "[a-z]+"; static constexpr regex_term<pat> w("w");
    static const parser g(list, terms(w, ','), nterms(list, item), rules(list(item) >= _e1, list(list, ',', item) >= [](std::string l, skip, std::string i) { return l + "|" + i; },
      item(w) >= [](const auto& x) { return std::to_string(x.get_value().size()) + "@" + std::to_string(x.get_column()); }));
    for (size_t n : {65535u, 65536u, 70002u}) { std::string in = "ab," + std::string(n, 'q') + ",cd"; auto r = g.parse(string_buffer(std::move(in)));
      CHECK(r && *r == "2@1|" + std::to_string(n) + "@4|2@" + std::to_string(n + 5), "generated lexer: a term of " << n << " bytes is not delivered as one term"); } }
  std::cout << "fails=" << fails << "\n"; return fails ? 1 : 0;
}
