// C17 (grammar part): a rule mentioning a symbol that is not declared in terms()/nterms(), and an empty nonterminal name,
// are refused when the parser is constructed (at run time: an exception).
#include <ctpg/ctpg.hpp>
#include <iostream>
#include <string>
using namespace ctpg; using namespace ctpg::buffers;
static int fails = 0;
template<class F> static void must_throw(const char* what, F f) {
  try { f(); ++fails; std::cout << "FAIL " << what << ": construction succeeded\n"; }
  catch (const std::exception& e) { std::cout << "ok   " << what << ": " << e.what() << "\n"; }
}
constexpr nterm<int> S("S"), A("A"), B("B");
int main() {
  must_throw("rule with an undeclared nonterminal on the right", [] { auto p = parser(S, terms('a'), nterms(S, A), rules(S(A, B) >= [](int, int) { return 0; }, A('a') >= [](char) { return 0; })); (void)p; });
  must_throw("rule for an undeclared nonterminal", [] { auto p = parser(S, terms('a'), nterms(S), rules(S('a') >= [](char) { return 0; }, A('a') >= [](char) { return 0; })); (void)p; });
  must_throw("rule with an undeclared term", [] { auto p = parser(S, terms('a'), nterms(S), rules(S('a', 'b') >= [](char, char) { return 0; })); (void)p; });
  must_throw("rule with an undeclared string term", [] { auto p = parser(S, terms('a', "ab"), nterms(S), rules(S("abc") >= [](std::string_view) { return 0; })); (void)p; });
  { static constexpr char p1[] = "[0-9]+"; static constexpr char p2[] = "[a-z]+";
    static constexpr regex_term<p1> number("tok"); static constexpr regex_term<p2> word("tok");     // same custom NAME, different patterns: different terms
    must_throw("rule with an undeclared regex term whose name equals a declared term's name", [] { auto p = parser(S, terms(number), nterms(S), rules(S(word) >= [](std::string_view) { return 0; })); (void)p; }); }
  must_throw("undeclared root", [] { auto p = parser(B, terms('a'), nterms(S), rules(S('a') >= [](char) { return 0; })); (void)p; });
  must_throw("empty nonterminal name", [] { nterm<int> e(""); (void)e; });
  // declared symbols with names that are prefixes of each other are distinct symbols
  { constexpr nterm<int> list("list"), list_tail("list_tail");
    auto p = parser(list, terms('a', ','), nterms(list, list_tail), rules(list('a', list_tail) >= [](char, int n) { return n + 1; }, list_tail() >= []() { return 0; }, list_tail(',', 'a', list_tail) >= [](char, char, int n) { return n + 1; }));
    auto r1 = p.parse(string_buffer("a,a,a")); auto r2 = p.parse(string_buffer("aa")); auto r3 = p.parse(string_buffer(""));
    if (!(r1 && *r1 == 3 && !r2 && !r3)) { ++fails; std::cout << "FAIL prefix-named nonterminals resolved to the wrong symbol\n"; } }
  std::cout << "fails=" << fails << "\n"; return fails ? 1 : 0;
}
