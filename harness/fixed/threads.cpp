// C15: one parser object, many threads calling parse / context_parse / write_diag_str concurrently, earlier failed and
// recovering parses in the history: every call gives the result it gives in isolation and the parser object's bytes
// do not change. Built with -fsanitize=thread (data races are reported by TSan and fail the run).
#include <ctpg/ctpg.hpp>
#include <atomic>
#include <cstring>
#include <iostream>
#include <sstream>
#include <string>
#include <thread>
#include <vector>
using namespace ctpg; using namespace ctpg::buffers; using namespace ctpg::ftors;

constexpr nterm<int> E("E"), L("L");
constexpr char num_pat[] = "[0-9]+";
constexpr regex_term<num_pat> number("number");
constexpr char_term o_plus('+', 1, associativity::ltor), o_mul('*', 2, associativity::ltor);
static int to_int(std::string_view sv) { int r = 0; for (char c : sv) r = r * 10 + (c - '0'); return r; }
struct ctx { int n = 0; };
static const parser p(L, terms(number, o_plus, o_mul, '(', ')', ';'), nterms(E, L), rules(
    L() >= val(0), L(L, E, ';') >>= [](ctx& c, int l, int e, skip) { ++c.n; return l + e; }, L(L, error, ';') >= [](int l, skip, skip) { return l + 1000; },
    E(E, '+', E) >= [](int a, skip, int b) { return a + b; }, E(E, '*', E) >= [](int a, skip, int b) { return a * b; },
    E('(', E, ')') >= _e2, E(number) >= [](const auto& sv) { return to_int(sv); }));

// re-entrancy: a functor that starts another parse (same parser object, same thread) while the outer call has values on its stacks
static int eval_inner(std::string_view inner);
constexpr nterm<int> S("S"); constexpr char grp_pat[] = "<[0-9+ ]*>"; constexpr regex_term<grp_pat> group("group");
static const parser nested(S, terms(number, group, o_plus), nterms(S), rules(
    S(number) >= [](const auto& sv) { return to_int(sv); },
    S(group) >= [](const auto& sv) { return eval_inner(std::string_view(sv).substr(1, std::string_view(sv).size() - 2)); },
    S(S, '+', S) >= [](int a, skip, int b) { return a + b; }));
static int eval_inner(std::string_view inner) { auto r = nested.parse(string_buffer(std::string(inner))); return r ? *r : -100000; }
static std::string observe(const std::string& in, int mode) {
  std::stringstream err; std::string r;
  if (mode == 0) { ctx c; auto v = p.context_parse(c, string_buffer(std::string(in)), err); r = (v ? std::to_string(*v) : "none") + "/" + std::to_string(c.n); }
  else if (mode == 1) { ctx c; auto v = p.context_parse(c, parse_options{}.set_verbose(), string_view_buffer(in), err); r = (v ? std::to_string(*v) : "none") + "/" + std::to_string(c.n); }
  else { p.write_diag_str(err); r = "diag"; }
  return r + "|" + err.str();
}
int main() {
  std::vector<std::string> inputs = { "1;2+3*4;", "1;;2;", "(1+2)*3;4", "1+?;", "", "((((1))));", "1;2+;3;4*;5;", ";;;" , "1*2*3*4*5*6;"};
  std::vector<std::pair<std::string, int>> jobs;
  for (int m = 0; m < 3; ++m) for (auto& s : inputs) jobs.push_back({s, m});
  std::vector<std::string> ref; for (auto& j : jobs) ref.push_back(observe(j.first, j.second));
  std::vector<unsigned char> image(sizeof(p)); std::memcpy(image.data(), &p, sizeof(p));
  std::atomic<int> bad{0};
  std::vector<std::thread> th;
  for (int t = 0; t < 16; ++t) th.emplace_back([&, t] {
    for (int round = 0; round < 6; ++round)
      for (size_t k = 0; k < jobs.size(); ++k) { size_t i = (k * 7 + t * 3 + round) % jobs.size(); if (observe(jobs[i].first, jobs[i].second) != ref[i]) ++bad; }
  });
  for (auto& x : th) x.join();
  bool same_image = std::memcmp(image.data(), &p, sizeof(p)) == 0;
  // history independence: the same calls again, sequentially, after all of the above
  for (size_t i = 0; i < jobs.size(); ++i) if (observe(jobs[i].first, jobs[i].second) != ref[i]) ++bad;
  { struct { const char* in; int want; } nest[] = { {"1 + <2 + 3> + 4", 10}, {"<1+2> + <3+4> + 5", 15}, {"1 + 2 + <3> + <4 + 5 + 6> + 7", 28}, {"<1>", 1} };
    for (auto& c : nest) { auto r = nested.parse(string_buffer(c.in)); if (!r || *r != c.want) { ++bad; std::cout << "FAIL nested call from a functor: '" << c.in << "' gives " << (r ? std::to_string(*r) : "none") << " (in isolation the inner and outer parses give " << c.want << ")\n"; } } }
  // history through the CALLER's long-lived stream: what a call appends to a stream that earlier calls (failed ones, lexical errors at
  // bytes >= 0x80, verbose ones) have written to is exactly what it writes to a fresh stream - no formatting state is left behind
  { std::stringstream shared; std::vector<std::string> seq = { "1;2;3;4;5;6;7;8;9;10;11+;", "1;\xa0", "1;2;3;4;5;6;7;8;9;10;11+;", "1+\xe9\x80;", "(1+2)*3;4;5;6;7;8;9;10;11;12;13", "1;2;3;4;5;6;7;8;9;10;11;12;13;14;15;16;17;18;19;20;21+;" };
    for (int mode = 0; mode < 2; ++mode) for (auto& in : seq) {
      std::stringstream fresh; ctx c1, c2; auto before = shared.str().size();
      auto opt = mode ? parse_options{}.set_verbose() : parse_options{};
      auto a = p.context_parse(c1, opt, string_buffer(std::string(in)), shared); auto b = p.context_parse(c2, opt, string_buffer(std::string(in)), fresh);
      if (a != b || shared.str().substr(before) != fresh.str()) { ++bad; std::cout << "FAIL history through a shared stream: input '" << in << "' (verbose " << mode << ") wrote '" << shared.str().substr(before).substr(0, 60) << "' but on a fresh stream '" << fresh.str().substr(0, 60) << "'\n"; } } }
  std::cout << "calls=" << 16 * 6 * jobs.size() << " mismatches=" << bad << " parser_bytes_unchanged=" << same_image << "\n";
  return (bad || !same_image) ? 1 : 0;
}
