// C16 / C07: all entry-point overloads (with/without options, with/without stream, parse and context_parse) give the
// same result on the same text; verbose on/off and stream kinds do not matter.
#include <ctpg/ctpg.hpp>
#include <iostream>
#include <sstream>
#include <string>
#include <vector>
using namespace ctpg; using namespace ctpg::buffers; using namespace ctpg::ftors;
static int fails = 0;
constexpr nterm<int> list("list");
constexpr char num_pat[] = "[0-9]+"; constexpr regex_term<num_pat> number("number");
static int to_int(std::string_view sv) { int r = 0; for (char c : sv) r = r * 10 + (c - '0'); return r; }
static const parser p(list, terms(number, ','), nterms(list), rules(
    list(number) >= [](const auto& sv) { return to_int(sv); },
    list(list, ',', number) >= [](int l, skip, const auto& sv) { return l * 10 + to_int(sv); },
    list(list, error, number) >= [](int l, skip, const auto& sv) { return l * 100 + to_int(sv); }));
struct ctx { int unused = 0; };
// a context handed over as an RVALUE to functors that take it BY VALUE: whatever the library does with it (it forwards it, so the
// first contextual reduction moves from it), it must be the same through every overload, stream kind and verbosity
struct voucher { explicit voucher(int b) : bonus(b) {} voucher(const voucher&) = default; voucher(voucher&& o) noexcept : bonus(o.bonus) { o.bonus = 0; } voucher& operator=(const voucher&) = default; int bonus; };
constexpr nterm<int> vsum("vsum"); constexpr nterm<int> vnum("vnum");
static const parser pv(vsum, terms('+', number), nterms(vsum, vnum), rules(
    vsum(vsum, '+', vnum) >= [](int a, skip, int b) { return a + b; },
    vsum(vnum),
    vnum(number) >>= [](voucher v, std::string_view sv) { return to_int(sv) + v.bonus; }));
constexpr nterm<std::string> names("names"); constexpr nterm<std::string> name("name");
constexpr char word_pat[] = "[a-z]+"; constexpr regex_term<word_pat> word("word");
static const parser pn(names, terms(',', word), nterms(names, name), rules(
    names(names, ',', name) >= [](std::string&& a, skip, std::string&& b) { return a + "," + b; },
    names(name),
    name(word) >>= [](std::string prefix, std::string_view w) { return prefix + std::string(w); }));
// a lexical conflict (keyword against identifier pattern): the first listed term wins, with verbose on or off
constexpr string_term kw_let("let");
constexpr nterm<int> prog("prog"); constexpr nterm<int> item("item");
static const parser pl(prog, terms(kw_let, word), nterms(prog, item), rules(
    prog(item), prog(prog, item) >= [](int a, int b) { return a * 10 + b; },
    item(kw_let) >= [](const auto&) { return 1; }, item(word) >= [](const auto&) { return 2; }));
template<class T> static std::string show(const std::optional<T>& r) { std::ostringstream o; if (r) o << *r; else o << "<none>"; return o.str(); }
template<class P, class MakeCtx> static void all_overloads(const char* what, const P& q, MakeCtx mk, const std::string& in) {
  std::vector<std::pair<const char*, std::string>> r; std::stringstream s1, s2, s3; utils::no_stream ns;
  r.push_back({"context_parse(rvalue ctx, buffer)", show(q.context_parse(mk(), string_buffer(std::string(in))))});
  r.push_back({"context_parse(rvalue ctx, buffer, stream)", show(q.context_parse(mk(), string_view_buffer(in), s1))});
  r.push_back({"context_parse(rvalue ctx, options, buffer, stream)", show(q.context_parse(mk(), parse_options{}, string_buffer(std::string(in)), s2))});
  r.push_back({"context_parse(rvalue ctx, options.verbose, buffer, stream)", show(q.context_parse(mk(), parse_options{}.set_verbose(), string_buffer(std::string(in)), s3))});
  r.push_back({"context_parse(rvalue ctx, options, buffer, no_stream)", show(q.context_parse(mk(), parse_options{}, string_view_buffer(in), ns))});
  r.push_back({"context_parse(rvalue ctx, options.verbose, buffer, no_stream)", show(q.context_parse(mk(), parse_options{}.set_verbose(), string_view_buffer(in), ns))});
  for (auto& x : r) if (x.second != r[1].second) { ++fails; std::cout << "FAIL " << what << " on '" << in << "': " << x.first << " gives " << x.second << " but " << r[1].first << " gives " << r[1].second << "\n"; }
}
int main() {
  for (std::string in : { "1", "1+2", "1+2+3", "4 + 5 + 6 + 7", "1+", "" }) all_overloads("by-value context", pv, [] { return voucher(100); }, in);
  for (std::string in : { "a", "a,b", "a,b,c", "a,,b" }) all_overloads("by-value string context", pn, [] { return std::string("pre_"); }, in);
  for (std::string in : { "let", "abc", "let abc", "abc let", "let let", "lets let", "le let", "letx" }) {
    std::stringstream q1, q2; utils::no_stream ns;
    auto a = pl.parse(parse_options{}, string_buffer(std::string(in)), q1), b = pl.parse(parse_options{}.set_verbose(), string_buffer(std::string(in)), q2);
    auto c2 = pl.parse(parse_options{}.set_verbose(), string_view_buffer(in), ns), d = pl.parse(string_view_buffer(in));
    if (show(a) != show(b) || show(a) != show(c2) || show(a) != show(d)) { ++fails; std::cout << "FAIL lexical conflict on '" << in << "': quiet " << show(a) << ", verbose " << show(b) << ", verbose/no_stream " << show(c2) << ", no options " << show(d) << "\n"; }
    int want = 0; { std::stringstream ws(in); std::string w; while (ws >> w) want = want * 10 + (w == "let" ? 1 : 2); }
    if (show(a) != std::to_string(want)) { ++fails; std::cout << "FAIL lexical conflict on '" << in << "': got " << show(a) << ", first-listed/longest-match gives " << want << "\n"; }
  }

  std::vector<std::string> ins = { "1,2,3", "1, 2 ,\n3", " 1 , 2", "1,,2", "1 2", "1,?", "", "\t7\n", "1;2" };
  for (auto& in : ins) {
    std::vector<std::pair<const char*, std::optional<int>>> r; std::stringstream s1, s2, s3, s4; utils::no_stream ns; ctx c;
    r.push_back({"parse(buffer)", p.parse(string_buffer(std::string(in)))});
    r.push_back({"parse(buffer, stream)", p.parse(string_view_buffer(in), s1)});
    r.push_back({"parse(options, buffer, stream)", p.parse(parse_options{}, string_buffer(std::string(in)), s2)});
    r.push_back({"parse(options.verbose, buffer, stream)", p.parse(parse_options{}.set_verbose(), string_buffer(std::string(in)), s3)});
    r.push_back({"parse(options, buffer, no_stream)", p.parse(parse_options{}, string_view_buffer(in), ns)});
    r.push_back({"context_parse(ctx, buffer)", p.context_parse(c, string_buffer(std::string(in)))});
    r.push_back({"context_parse(ctx, buffer, stream)", p.context_parse(c, string_view_buffer(in), s4)});
    r.push_back({"context_parse(ctx, options, buffer, no_stream)", p.context_parse(c, parse_options{}, string_buffer(std::string(in)), ns)});
    for (auto& x : r) if (x.second != r[0].second) { ++fails; std::cout << "FAIL on '" << in << "': " << x.first << " gives " << (x.second ? std::to_string(*x.second) : "none") << " but parse(buffer) gives " << (r[0].second ? std::to_string(*r[0].second) : "none") << "\n"; }
    if (s1.str() != s2.str() || s1.str() != s4.str()) { ++fails; std::cout << "FAIL on '" << in << "': messages differ between overloads\n"; }
  }
  std::cout << "inputs=" << ins.size() << " fails=" << fails << "\n"; return fails ? 1 : 0;
}
