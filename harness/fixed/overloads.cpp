// C16 / C07: all entry-point overloads (with/without options, with/without stream, parse and context_parse) give the
// same result on the same text; verbose on/off and stream kinds do not matter.
#include <ctpg/ctpg.hpp>
#include <iostream>
#include <sstream>
#include <string>
#include <vector>
using namespace ctpg; using namespace ctpg::buffers; using namespace ctpg::ftors;
static int fails = 0;
constexpr nterm<int> list("list");
constexpr char num_pat[] = "[0-9]+"; constexpr regex_term<num_pat> number("number");
static int to_int(std::string_view sv) { int r = 0; for (char c : sv) r = r * 10 + (c - '0'); return r; }
static const parser p(list, terms(number, ','), nterms(list), rules(
    list(number) >= [](const auto& sv) { return to_int(sv); },
    list(list, ',', number) >= [](int l, skip, const auto& sv) { return l * 10 + to_int(sv); },
    list(list, error, number) >= [](int l, skip, const auto& sv) { return l * 100 + to_int(sv); }));
struct ctx { int unused = 0; };
int main() {
  std::vector<std::string> ins = { "1,2,3", "1, 2 ,\n3", " 1 , 2", "1,,2", "1 2", "1,?", "", "\t7\n", "1;2" };
  for (auto& in : ins) {
    std::vector<std::pair<const char*, std::optional<int>>> r; std::stringstream s1, s2, s3, s4; utils::no_stream ns; ctx c;
    r.push_back({"parse(buffer)", p.parse(string_buffer(std::string(in)))});
    r.push_back({"parse(buffer, stream)", p.parse(string_view_buffer(in), s1)});
    r.push_back({"parse(options, buffer, stream)", p.parse(parse_options{}, string_buffer(std::string(in)), s2)});
    r.push_back({"parse(options.verbose, buffer, stream)", p.parse(parse_options{}.set_verbose(), string_buffer(std::string(in)), s3)});
    r.push_back({"parse(options, buffer, no_stream)", p.parse(parse_options{}, string_view_buffer(in), ns)});
    r.push_back({"context_parse(ctx, buffer)", p.context_parse(c, string_buffer(std::string(in)))});
    r.push_back({"context_parse(ctx, buffer, stream)", p.context_parse(c, string_view_buffer(in), s4)});
    r.push_back({"context_parse(ctx, options, buffer, no_stream)", p.context_parse(c, parse_options{}, string_buffer(std::string(in)), ns)});
    for (auto& x : r) if (x.second != r[0].second) { ++fails; std::cout << "FAIL on '" << in << "': " << x.first << " gives " << (x.second ? std::to_string(*x.second) : "none") << " but parse(buffer) gives " << (r[0].second ? std::to_string(*r[0].second) : "none") << "\n"; }
    if (s1.str() != s2.str() || s1.str() != s4.str()) { ++fails; std::cout << "FAIL on '" << in << "': messages differ between overloads\n"; }
  }
  std::cout << "inputs=" << ins.size() << " fails=" << fails << "\n"; return fails ? 1 : 0;
}
