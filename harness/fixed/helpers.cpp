// C19: exhaustive over the property's finite domain: arities 1..9, every position (element, construct), every ordered
// pair C != A (push_back, emplace_back), with uniquely tagged move-only arguments: the functor must return / use exactly
// the documented positions, must not touch any other argument, and must not copy the container.
#include <ctpg/ctpg.hpp>
#include <iostream>
#include <tuple>
#include <utility>
#include <vector>
using namespace ctpg::ftors;

static int fails = 0, cases = 0;
#define CHECK(cond, what) do { ++cases; if (!(cond)) { ++fails; std::cout << "FAIL " << what << "\n"; } } while (0)

struct tag {                       // move-only, records whether it was moved from
  int id; bool moved = false;
  explicit tag(int i) : id(i) {}
  tag(tag&& o) noexcept : id(o.id) { o.moved = true; }
  tag& operator=(tag&& o) noexcept { id = o.id; o.moved = true; return *this; }
  tag(const tag&) = delete; tag& operator=(const tag&) = delete;
};
struct from_tag { int id; explicit from_tag(tag&& t) : id(t.id) { t.moved = true; } };
struct cont {                      // a container that counts copies of itself and accepts tags by move and ints by copy
  std::vector<int> ids; int id; static inline int copies = 0; bool moved = false;
  explicit cont(int i) : id(i) {}
  cont(cont&& o) noexcept : ids(std::move(o.ids)), id(o.id) { o.moved = true; }
  cont(const cont& o) : ids(o.ids), id(o.id) { ++copies; }
  void emplace_back(tag&& t) { ids.push_back(t.id); t.moved = true; }
  void push_back(const tag& t) { ids.push_back(t.id); }
};

template<size_t N, size_t... I> auto make_tags(std::index_sequence<I...>) { return std::make_tuple(tag(int(100 + I))...); }

template<size_t N, size_t X> void test_element() {
  auto args = make_tags<N>(std::make_index_sequence<N>{});
  std::apply([](auto&... a) {
    decltype(auto) r = element<X>{}(std::move(a)...);
    static_assert(std::is_same_v<decltype(r), tag&&>, "element<X> forwards an rvalue as rvalue");
    CHECK(r.id == int(100 + X - 1), "element<" << X << "> of " << N << " returned tag " << r.id);
    bool others = ((a.moved) || ...);
    CHECK(!others, "element<" << X << "> of " << N << " moved from an argument");
  }, args);
  // lvalue arguments come back as the same object
  auto args2 = make_tags<N>(std::make_index_sequence<N>{});
  std::apply([](auto&... a) {
    decltype(auto) r = element<X>{}(a...);
    static_assert(std::is_same_v<decltype(r), tag&>, "element<X> forwards an lvalue as lvalue");
    const tag* addrs[] = { &a... };
    CHECK(&r == addrs[X - 1], "element<" << X << "> of " << N << " returned a different object");
  }, args2);
}
template<size_t N, size_t X> void test_construct() {
  auto args = make_tags<N>(std::make_index_sequence<N>{});
  std::apply([](auto&... a) {
    from_tag r = construct<from_tag, X>{}(std::move(a)...);
    CHECK(r.id == int(100 + X - 1), "construct<T," << X << "> of " << N << " built from tag " << r.id);
    const tag* addrs[] = { &a... }; int moved = 0, right = 0;
    for (size_t i = 0; i < N; ++i) if (addrs[i]->moved) { ++moved; if (i == X - 1) ++right; }
    CHECK(moved == 1 && right == 1, "construct<T," << X << "> of " << N << " consumed " << moved << " arguments");
  }, args);
}
// push_back / emplace_back: arguments are tags except position C which is the container
template<size_t N, size_t C, size_t A, bool Emplace, size_t... I> void test_pb(std::index_sequence<I...>) {
  cont c(7); cont::copies = 0;
  auto tags = make_tags<N>(std::make_index_sequence<N>{});
  auto pick = [&](auto idx) -> decltype(auto) { if constexpr (idx.value == C - 1) return (c); else return (std::get<idx.value>(tags)); };
  if constexpr (Emplace) {
    decltype(auto) r = emplace_back<C, A>{}(std::move(pick(std::integral_constant<size_t, I>{}))...);
    cont res(std::move(r));
    CHECK(res.id == 7 && res.ids == std::vector<int>{int(100 + A - 1)}, "emplace_back<" << C << "," << A << "> of " << N << " appended " << (res.ids.empty() ? -1 : res.ids[0]));
  } else {
    decltype(auto) r = push_back<C, A>{}(std::move(pick(std::integral_constant<size_t, I>{}))...);
    cont res(std::move(r));
    CHECK(res.id == 7 && res.ids == std::vector<int>{int(100 + A - 1)}, "push_back<" << C << "," << A << "> of " << N << " appended " << (res.ids.empty() ? -1 : res.ids[0]));
  }
  CHECK(cont::copies == 0, (Emplace ? "emplace_back<" : "push_back<") << C << "," << A << "> of " << N << " copied the container");
  int moved = 0; const tag* addrs[] = { &std::get<I>(tags)... };
  for (size_t i = 0; i < N; ++i) if (i != C - 1 && i != A - 1 && addrs[i]->moved) ++moved;
  CHECK(moved == 0, (Emplace ? "emplace_back<" : "push_back<") << C << "," << A << "> of " << N << " touched " << moved << " other arguments");
}
template<size_t N, size_t X> void pos() {
  test_element<N, X>(); test_construct<N, X>();
}
template<size_t N, size_t C, size_t A> void pair() {
  if constexpr (C != A) { test_pb<N, C, A, true>(std::make_index_sequence<N>{}); test_pb<N, C, A, false>(std::make_index_sequence<N>{}); }
}
template<size_t N, size_t... X> void all_pos(std::index_sequence<X...>) { (pos<N, X + 1>(), ...); }
template<size_t N, size_t C, size_t... A> void all_a(std::index_sequence<A...>) { (pair<N, C, A + 1>(), ...); }
template<size_t N, size_t... C> void all_c(std::index_sequence<C...>) { (all_a<N, C + 1>(std::make_index_sequence<N>{}), ...); }
template<size_t... N> void all_arities(std::index_sequence<N...>) { ((all_pos<N + 1>(std::make_index_sequence<N + 1>{}), all_c<N + 1>(std::make_index_sequence<N + 1>{})), ...); }

int main() {
  all_arities(std::make_index_sequence<9>{});
  // val / create ignore their arguments
  { tag a(1), b(2); auto v = val(42)(std::move(a), b); CHECK(v == 42 && !a.moved && !b.moved, "val(v) touched an argument or returned " << v); }
  { tag a(1); auto v = create<std::vector<int>>{}(std::move(a)); CHECK(v.empty() && !a.moved, "create<T> touched an argument"); }
  // construct<T,I> is documented as T{value}: list-initialisation (readme: comma separated numbers -> construct<std::vector<int>>)
  { auto v = construct<std::vector<int>, 1>{}(3); CHECK(v == std::vector<int>{3}, "construct<vector<int>,1>(3) must be vector{3}, got size " << v.size()); }
  { auto v = construct<std::vector<int>, 2>{}('x', 5, 7); CHECK(v == std::vector<int>{5}, "construct<vector<int>,2>(_, 5, _) must be vector{5}, got size " << v.size()); }
  static_assert(_e2(1, 2, 3) == 2 && _e1(5) == 5 && _e9(1, 2, 3, 4, 5, 6, 7, 8, 9) == 9, "constexpr element");
  static_assert(val(7)() == 7 && create<int>{}(1, 2) == 0, "constexpr val/create");
  std::cout << "cases=" << cases << " fails=" << fails << "\n";
  return fails ? 1 : 0;
}
