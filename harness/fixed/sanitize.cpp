// C06 (the part only the compiled code can show): ASan + UBSan over accepted and rejected inputs of all shapes with all
// buffer kinds, a user buffer that checks every iterator operation, and the standalone matcher on non-matching strings.
#include <ctpg/ctpg.hpp>
#include <iostream>
#include <sstream>
#include <string>
#include <vector>
#include "checked_buffer.hpp"
using namespace ctpg; using namespace ctpg::buffers; using namespace ctpg::ftors;
static int fails = 0;
#define CHECK(c, what) do { if (!(c)) { ++fails; std::cout << "FAIL " << what << "\n"; } } while (0)

constexpr nterm<int> E("E"), L("L");
constexpr char num_pat[] = "[0-9]+"; constexpr regex_term<num_pat> number("number");
constexpr char str_pat[] = "\"[^\"]*\""; constexpr regex_term<str_pat> strlit("string");
constexpr char_term o_plus('+', 1, associativity::ltor);
static const parser p(L, terms(number, strlit, o_plus, '(', ')', ';', "if"), nterms(E, L), rules(
    L() >= val(0), L(L, E, ';') >= [](int l, int e, skip) { return l + e; }, L(L, error, ';') >= [](int l, skip, skip) { return l + 1; },
    E(E, '+', E) >= [](int a, skip, int b) { return a + b; }, E('(', E, ')') >= _e2, E("if", E) >= _e2,
    E(number) >= [](const auto& sv) { return int(sv.get_value().size()); }, E(strlit) >= [](const auto& sv) { return int(sv.get_value().size()); }));
static constexpr char pat1[] = "(ab|c)*d"; static constexpr regex::expr<pat1> r1;
static constexpr char pat2[] = "[^x]+"; static constexpr regex::expr<pat2> r2;

static void one(const std::string& in) {
  std::stringstream e1, e2, e3; 
  auto a = p.parse(string_buffer(std::string(in)), e1);
  auto b = p.parse(string_view_buffer(std::string_view(in)), e2);
  checked_buffer cb(in); auto c = p.parse(cb, e3);
  CHECK(a == b && b == c, "buffer kinds disagree on an input of " << in.size() << " bytes");
  CHECK(cb.faults == 0, "buffer access outside [begin,end]: " << cb.first_fault);
  CHECK(e1.str() == e2.str() && e2.str() == e3.str(), "messages depend on the buffer kind");
  checked_buffer m1(in), m2(in); std::stringstream s; r1.match(m1, s); r2.match(m2, s);
  CHECK(m1.faults == 0 && m2.faults == 0, "regex::expr::match accessed outside the buffer: " << m1.first_fault << m2.first_fault);
}
int main() {
  std::vector<std::string> ins = { "", " ", "\n\t \r", "1;", "1+2;", "((1));", "1;;", "+", "?", std::string(1, '\0'), std::string("1;\0002;", 5), "\x80\xff", "1+\x80;", "\"a\nb\";", "\"unterminated", "if 1;", "i", "if", "iff;", "1 2", "(", ")", "abcabd", "d", "x", "1+;2;(;3;" };
  std::string big; for (int i = 0; i < 100000; ++i) big += (i % 7 ? "1+" : "(2)+"); big += "3;"; ins.push_back(big);
  std::string deep(20000, '('); deep += "1"; deep += std::string(20000, ')'); deep += ";"; ins.push_back(deep);
  std::string deep_bad(20000, '('); ins.push_back(deep_bad);
  std::string longws(100000, ' '); ins.push_back(longws);
  for (size_t cut = 0; cut <= 12; ++cut) ins.push_back(std::string("(1+2)+\"ab\";if 3;").substr(0, cut));
  for (int c = 0; c < 256; ++c) ins.push_back(std::string("1+") + char(c) + ";2;");
  for (auto& s : ins) one(s);
  // cstring_buffer incl. the terminator convention
  CHECK(p.parse(cstring_buffer("1+2;")).has_value(), "cstring_buffer accepted input"); CHECK(!p.parse(cstring_buffer("1+?;")).has_value(), "cstring_buffer lexical error");
  CHECK(!r1.match("abx") && r1.match("abcd") && !r1.match("") && !r2.match("x") && r2.match("\x80\x01"), "regex::expr verdicts");
  std::cout << "inputs=" << ins.size() << " fails=" << fails << "\n"; return fails ? 1 : 0;
}
