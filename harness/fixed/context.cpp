// C13: context_parse hands the caller's very object to every '>>=' functor and to no '>=' functor, in reduction order,
// for the four context categories (value, const&, non-const&, move-only rvalue); parse == context_parse when ignored.
#include <ctpg/ctpg.hpp>
#include <iostream>
#include <sstream>
#include <string>
#include <vector>
using namespace ctpg; using namespace ctpg::buffers;
static int fails = 0;
#define CHECK(c, what) do { if (!(c)) { ++fails; std::cout << "FAIL " << what << "\n"; } } while (0)

struct ctx { std::vector<int> log; int mutations = 0; const void* seen_at = nullptr; bool same_address = true;
  void note(int r) const { const_cast<ctx*>(this)->touch(r); }
  void touch(int r) { if (seen_at && seen_at != this) same_address = false; seen_at = this; log.push_back(r); ++mutations; } };
struct moctx : ctx { moctx() = default; moctx(moctx&&) = default; moctx(const moctx&) = delete; };

constexpr nterm<int> list("list"), item("item");
template<class C> static auto make() {
  return parser(list, terms('a', 'b', ','), nterms(list, item), rules(
    list(item) >>= [](C& c, int x) { c.note(0); return x; },
    list(list, ',', item) >= [](int l, skip, int x) { return l * 10 + x; },
    item('a') >>= [](C& c, skip) { c.note(2); return 1; },
    item('b') >= [](skip) { return 2; }));
}
template<class C> static auto make_const() {
  return parser(list, terms('a', 'b', ','), nterms(list, item), rules(
    list(item) >>= [](const C& c, int x) { c.note(0); return x; },
    list(list, ',', item) >= [](int l, skip, int x) { return l * 10 + x; },
    item('a') >>= [](const C& c, skip) { c.note(2); return 1; },
    item('b') >= [](skip) { return 2; }));
}
int main() {
  const char* in = "a,b,a,a,b"; std::vector<int> want = {2, 0, 2, 2};   // contextual reductions in order: item(a), list(item), item(a), item(a)
  { ctx c; auto p = make<ctx>(); auto r = p.context_parse(c, string_buffer(in));
    CHECK(r && *r == 12112, "non-const&: value " << (r ? *r : -1)); CHECK(c.log == want, "non-const&: wrong contextual call sequence");
    CHECK(c.seen_at == &c && c.same_address, "non-const&: functors saw a different object than the caller's"); CHECK(c.mutations == 4, "non-const&: mutations not visible to the caller"); }
  { ctx c; const ctx& cc = c; auto p = make_const<ctx>(); auto r = p.context_parse(cc, string_buffer(in));
    CHECK(r && *r == 12112, "const&: value"); CHECK(c.log == want && c.seen_at == &c && c.same_address, "const&: identity / order"); }
  { moctx c; auto p = make<moctx>(); auto r = p.context_parse(c, string_buffer(in));           // move-only context passed as lvalue
    CHECK(r && *r == 12112 && c.log == want && c.seen_at == &c, "move-only lvalue context"); }
  { auto p = make_const<ctx>(); ctx c; auto r = p.context_parse(std::move(c), string_buffer(in));   // rvalue: still the caller's object, never moved from by the library
    CHECK(r && *r == 12112 && c.log == want && c.seen_at == &c && c.same_address, "rvalue context: functors must see the caller's object every time"); }
  { // an rvalue context seen through 'auto&&': the functor gets the caller's object, non-const, and may update it
    auto p = parser(list, terms('a', 'b', ','), nterms(list, item), rules(
      list(item) >>= [](auto&& c, int x) { c.touch(0); return x; },
      list(list, ',', item) >= [](int l, skip, int x) { return l * 10 + x; },
      item('a') >>= [](auto&& c, skip) { static_assert(!std::is_const_v<std::remove_reference_t<decltype(c)>>, "the context of an rvalue call is not const"); c.touch(2); return c.mutations; },
      item('b') >= [](skip) { return 2; }));
    moctx c; auto r = p.context_parse(std::move(c), string_buffer("a,b,a,a"));
    CHECK(r && *r == 1234 - 1234 + (1 * 1000 + 2 * 100 + 3 * 10 + 4), "rvalue context through auto&&: updates must be carried from one reduction to the next, got " << (r ? *r : -1));
    CHECK(c.log == std::vector<int>({2, 0, 2, 2}) && c.seen_at == &c && c.same_address, "rvalue context through auto&&: identity / order"); }
  { // a grammar that ignores the context: parse and context_parse agree, contextual functors absent
    auto p = parser(list, terms('a', 'b', ','), nterms(list, item), rules(list(item), list(list, ',', item) >= [](int l, skip, int x) { return l * 10 + x; }, item('a') >= [](skip) { return 1; }, item('b') >= [](skip) { return 2; }));
    ctx c; for (const char* s : {"a,b,a", "b", "a,,b", ""}) { auto r1 = p.parse(string_buffer(s)); auto r2 = p.context_parse(c, string_buffer(s)); CHECK(r1 == r2, "parse != context_parse on '" << s << "'"); }
    CHECK(c.log.empty(), "non-contextual functors received the context"); }
  { // failed and recovering parses route the same way
    ctx c; auto p = make<ctx>(); auto r = p.context_parse(c, string_buffer("a,a,,b")); CHECK(!r && c.log == std::vector<int>({2, 0, 2}), "failing parse: contextual calls before the error"); }
  std::cout << "fails=" << fails << "\n"; return fails ? 1 : 0;
}
