// C13: context_parse hands the caller's very object to every '>>=' functor and to no '>=' functor, in reduction order,
// for the four context categories (value, const&, non-const&, move-only rvalue); parse == context_parse when ignored.
#include <ctpg/ctpg.hpp>
#include <iostream>
#include <sstream>
#include <string>
#include <vector>
using namespace ctpg; using namespace ctpg::buffers;
static int fails = 0;
#define CHECK(c, what) do { if (!(c)) { ++fails; std::cout << "FAIL " << what << "\n"; } } while (0)

struct ctx { std::vector<int> log; int mutations = 0; const void* seen_at = nullptr; bool same_address = true;
  void note(int r) const { const_cast<ctx*>(this)->touch(r); }
  void touch(int r) { if (seen_at && seen_at != this) same_address = false; seen_at = this; log.push_back(r); ++mutations; } };
struct moctx : ctx { moctx() = default; moctx(moctx&&) = default; moctx(const moctx&) = delete; };

constexpr nterm<int> list("list"), item("item");
template<class C> static auto make() {
  return parser(list, terms('a', 'b', ','), nterms(list, item), rules(
    list(item) >>= [](C& c, int x) { c.note(0); return x; },
    list(list, ',', item) >= [](int l, skip, int x) { return l * 10 + x; },
    item('a') >>= [](C& c, skip) { c.note(2); return 1; },
    item('b') >= [](skip) { return 2; }));
}
template<class C> static auto make_const() {
  return parser(list, terms('a', 'b', ','), nterms(list, item), rules(
    list(item) >>= [](const C& c, int x) { c.note(0); return x; },
    list(list, ',', item) >= [](int l, skip, int x) { return l * 10 + x; },
    item('a') >>= [](const C& c, skip) { c.note(2); return 1; },
    item('b') >= [](skip) { return 2; }));
}
int main() {
  const char* in = "a,b,a,a,b"; std::vector<int> want = {2, 0, 2, 2};   // contextual reductions in order: item(a), list(item), item(a), item(a)
  { ctx c; auto p = make<ctx>(); auto r = p.context_parse(c, string_buffer(in));
    CHECK(r && *r == 12112, "non-const&: value " << (r ? *r : -1)); CHECK(c.log == want, "non-const&: wrong contextual call sequence");
    CHECK(c.seen_at == &c && c.same_address, "non-const&: functors saw a different object than the caller's"); CHECK(c.mutations == 4, "non-const&: mutations not visible to the caller"); }
  { ctx c; const ctx& cc = c; auto p = make_const<ctx>(); auto r = p.context_parse(cc, string_buffer(in));
    CHECK(r && *r == 12112, "const&: value"); CHECK(c.log == want && c.seen_at == &c && c.same_address, "const&: identity / order"); }
  { moctx c; auto p = make<moctx>(); auto r = p.context_parse(c, string_buffer(in));           // move-only context passed as lvalue
    CHECK(r && *r == 12112 && c.log == want && c.seen_at == &c, "move-only lvalue context"); }
  { auto p = make_const<ctx>(); ctx c; auto r = p.context_parse(std::move(c), string_buffer(in));   // rvalue: still the caller's object, never moved from by the library
    CHECK(r && *r == 12112 && c.log == want && c.seen_at == &c && c.same_address, "rvalue context: functors must see the caller's object every time"); }
  { // an rvalue context seen through 'auto&&': the functor gets the caller's object, non-const, and may update it
    auto p = parser(list, terms('a', 'b', ','), nterms(list, item), rules(
      list(item) >>= [](auto&& c, int x) { c.touch(0); return x; },
      list(list, ',', item) >= [](int l, skip, int x) { return l * 10 + x; },
      item('a') >>= [](auto&& c, skip) { static_assert(!std::is_const_v<std::remove_reference_t<decltype(c)>>, "the context of an rvalue call is not const"); c.touch(2); return c.mutations; },
      item('b') >= [](skip) { return 2; }));
    moctx c; auto r = p.context_parse(std::move(c), string_buffer("a,b,a,a"));
    CHECK(r && *r == 1234 - 1234 + (1 * 1000 + 2 * 100 + 3 * 10 + 4), "rvalue context through auto&&: updates must be carried from one reduction to the next, got " << (r ? *r : -1));
    CHECK(c.log == std::vector<int>({2, 0, 2, 2}) && c.seen_at == &c && c.same_address, "rvalue context through auto&&: identity / order"); }
  { // a grammar that ignores the context: parse and context_parse agree, contextual functors absent
    auto p = parser(list, terms('a', 'b', ','), nterms(list, item), rules(list(item), list(list, ',', item) >= [](int l, skip, int x) { return l * 10 + x; }, item('a') >= [](skip) { return 1; }, item('b') >= [](skip) { return 2; }));
    ctx c; for (const char* s : {"a,b,a", "b", "a,,b", ""}) { auto r1 = p.parse(string_buffer(s)); auto r2 = p.context_parse(c, string_buffer(s)); CHECK(r1 == r2, "parse != context_parse on '" << s << "'"); }
    CHECK(c.log.empty(), "non-contextual functors received the context"); }
  { // the context flag of '>>=' survives every order of writing a rule with an explicit precedence: (rule >>= f)[n] and rule[n] >>= f;
    // the functors are callable with and without a context, so only the flag decides - and it must decide "with"
    struct both { int* with_ctx; int* without;
      int operator()(ctx& c, int a, skip, int b) const { ++*with_ctx; c.touch(7); return a + b; }
      int operator()(int a, skip, int b) const { ++*without; return a + b; } };
    static int w1 = 0, n1 = 0, w2 = 0, n2 = 0;
    constexpr nterm<int> e("e");
    auto p = parser(e, terms('a', char_term('+', 1, associativity::ltor), char_term('*', 2, associativity::ltor)), nterms(e), rules(
      e('a') >= [](skip) { return 1; },
      (e(e, '+', e) >>= both{&w1, &n1})[1],
      e(e, '*', e)[2] >>= both{&w2, &n2}));
    ctx c; auto r = p.context_parse(c, string_buffer("a+a*a+a"));
    CHECK(r && *r == 4, "precedence rules with context: value");
    CHECK(w1 == 2 && n1 == 0, "(rule >>= f)[n]: the functor attached with >>= was called " << w1 << " times with the context and " << n1 << " times without (expected 2 / 0)");
    CHECK(w2 == 1 && n2 == 0, "rule[n] >>= f: called " << w2 << " times with the context and " << n2 << " times without (expected 1 / 0)");
    CHECK(c.log == std::vector<int>({7, 7, 7}), "precedence rules with context: the caller's context was not updated by every '>>=' functor"); }
  { // parse and context_parse agree through EVERY overload (with / without options, with / without stream) on inputs with white space
    auto p = parser(list, terms('a', 'b', ','), nterms(list, item), rules(list(item), list(list, ',', item) >= [](int l, skip, int x) { return l * 10 + x; }, item('a') >= [](skip) { return 1; }, item('b') >= [](skip) { return 2; }));
    ctx c; utils::no_stream ns;
    for (const char* s : {"a , b", " a,b ", "a,\nb\t, a\n", "a", " "}) {
      auto r0 = p.parse(string_buffer(s)); std::stringstream e1, e2, e3;
      CHECK(p.context_parse(c, string_buffer(s)) == r0, "context_parse(ctx, buffer) != parse(buffer) on '" << s << "'");
      CHECK(p.context_parse(c, string_buffer(s), e1) == r0, "context_parse(ctx, buffer, stream) != parse(buffer) on '" << s << "'");
      CHECK(p.context_parse(c, parse_options{}, string_buffer(s), e2) == r0, "context_parse(ctx, options, buffer, stream) != parse(buffer) on '" << s << "'");
      CHECK(p.parse(string_buffer(s), e3) == r0 && p.parse(parse_options{}, string_buffer(s), ns) == r0, "parse overloads disagree on '" << s << "'");
      CHECK(p.context_parse(0, string_buffer(s)) == r0 && p.context_parse(ctx{}, string_buffer(s)) == r0, "context_parse with a temporary context != parse(buffer) on '" << s << "'"); } }
  { // failed and recovering parses route the same way
    ctx c; auto p = make<ctx>(); auto r = p.context_parse(c, string_buffer("a,a,,b")); CHECK(!r && c.log == std::vector<int>({2, 0, 2}), "failing parse: contextual calls before the error"); }
  std::cout << "fails=" << fails << "\n"; return fails ? 1 : 0;
}
