// C07: parsing in a constant expression is itself a valid constant expression and agrees with run-time parsing, for
// accepted, syntactically wrong and lexically wrong inputs; run-time results do not depend on the buffer kind nor on
// whether the parser object was constructed at compile time or at run time. Compiled by g++ AND clang++.
#include <ctpg/ctpg.hpp>
#include <iostream>
#include <string>
#include <string_view>
using namespace ctpg; using namespace ctpg::buffers; using namespace ctpg::ftors;
static int fails = 0;
#define CHECK(c, what) do { if (!(c)) { ++fails; std::cout << "FAIL " << what << "\n"; } } while (0)

constexpr nterm<int> E("E"), L("L");
constexpr char num_pat[] = "[0-9]+";
constexpr regex_term<num_pat> number("number");
constexpr char_term o_plus('+', 1, associativity::ltor), o_mul('*', 2, associativity::ltor);
constexpr int to_int(std::string_view sv) { int r = 0; for (char c : sv) r = r * 10 + (c - '0'); return r; }
#define GRAMMAR E, terms(number, o_plus, o_mul, '(', ')', ';'), nterms(E, L), rules( \
    L() >= val(0), L(L, E, ';') >= [](int l, int e, skip) { return l + e; }, L(L, error, ';') >= [](int l, skip, skip) { return l + 1000; }, \
    E(E, '+', E) >= [](int a, skip, int b) { return a + b; }, E(E, '*', E) >= [](int a, skip, int b) { return a * b; }, \
    E('(', E, ')') >= _e2, E(number) >= [](const auto& sv) { return to_int(sv); })
constexpr parser pe(GRAMMAR);                 // root E
constexpr nterm<int> E2("E"), L2("L");
constexpr parser pl(L, terms(number, o_plus, o_mul, '(', ')', ';'), nterms(E, L), rules(
    L() >= val(0), L(L, E, ';') >= [](int l, int e, skip) { return l + e; }, L(L, error, ';') >= [](int l, skip, skip) { return l + 1000; },
    E(E, '+', E) >= [](int a, skip, int b) { return a + b; }, E(E, '*', E) >= [](int a, skip, int b) { return a * b; },
    E('(', E, ')') >= _e2, E(number) >= [](const auto& sv) { return to_int(sv); }));

// --- constant evaluation: accepted, syntactically wrong, lexically wrong, recovering ---
constexpr auto c1 = pe.parse(cstring_buffer("1+2*3")); static_assert(c1.has_value() && *c1 == 7);
constexpr auto c2 = pe.parse(cstring_buffer("1+*3")); static_assert(!c2.has_value());
constexpr auto c3 = pe.parse(cstring_buffer("1+?3")); static_assert(!c3.has_value());
constexpr auto c4 = pe.parse(cstring_buffer("")); static_assert(!c4.has_value());
constexpr auto c5 = pe.parse(cstring_buffer("(1+2)*(3+4)")); static_assert(c5.has_value() && *c5 == 21);
constexpr auto c6 = pe.parse(cstring_buffer(" 12 \n+\t30 ")); static_assert(c6.has_value() && *c6 == 42);
constexpr auto c7 = pl.parse(cstring_buffer("1;2+;3;")); static_assert(c7.has_value() && *c7 == 1004);
constexpr auto c8 = pl.parse(cstring_buffer("1;2+")); static_assert(!c8.has_value());
constexpr auto c9 = pl.parse(cstring_buffer("1;#")); static_assert(!c9.has_value());
constexpr auto c10 = pe.parse(parse_options{}.set_skip_whitespace(false), cstring_buffer("1 +2"), utils::no_stream{}.operator<<(0)); 

// verbose parses with no stream are constant expressions too, for accepted, syntactically wrong (whole stack unwound), lexically wrong,
// recovering and not recovering inputs, and give the quiet results
#define NS utils::no_stream{}.operator<<(0)
constexpr auto v1 = pe.parse(parse_options{}.set_verbose(), cstring_buffer("1+2*3"), NS); static_assert(v1 == c1);
constexpr auto v2 = pe.parse(parse_options{}.set_verbose(), cstring_buffer("1+*3"), NS); static_assert(v2 == c2);
constexpr auto v3 = pe.parse(parse_options{}.set_verbose(), cstring_buffer("1+?3"), NS); static_assert(v3 == c3);
constexpr auto v4 = pe.parse(parse_options{}.set_verbose(), cstring_buffer(""), NS); static_assert(v4 == c4);
constexpr auto v7 = pl.parse(parse_options{}.set_verbose(), cstring_buffer("1;2+;3;"), NS); static_assert(v7 == c7);
constexpr auto v8 = pl.parse(parse_options{}.set_verbose(), cstring_buffer("1;2+"), NS); static_assert(v8 == c8);
constexpr auto v9 = pl.parse(parse_options{}.set_verbose(), cstring_buffer("1;#"), NS); static_assert(v9 == c9);
constexpr auto v10 = pl.parse(parse_options{}.set_verbose().set_skip_newline(false), cstring_buffer("+"), NS); static_assert(!v10.has_value());

template<class P> static std::optional<int> all_buffers(const P& p, const char* name, const std::string& in, bool& agree) {
  auto a = p.parse(string_buffer(std::string(in))); auto b = p.parse(string_view_buffer(std::string_view(in)));
  agree = (a == b);
  if (!agree) { ++fails; std::cout << "FAIL " << name << ": string_buffer and string_view_buffer disagree on '" << in << "'\n"; }
  return a;
}
int main() {
  struct { const char* in; std::optional<int> ce; } cases[] = { {"1+2*3", c1}, {"1+*3", c2}, {"1+?3", c3}, {"", c4}, {"(1+2)*(3+4)", c5}, {" 12 \n+\t30 ", c6} };
  volatile int zero = 0; if (zero) return 2;
  auto rt = [&] { return parser(GRAMMAR); }();   // the same parser constructed at run time (not a constant-initialised object)
  for (auto& c : cases) {
    bool ag; auto r = all_buffers(pe, "constexpr-constructed parser", c.in, ag);
    CHECK(r == c.ce, "constant evaluation and run time disagree on '" << c.in << "'");
    auto r2 = all_buffers(rt, "run-time-constructed parser", c.in, ag);
    CHECK(r2 == c.ce, "parser constructed at run time disagrees on '" << c.in << "'");
  }
  { bool ag; CHECK(all_buffers(pl, "list parser", "1;2+;3;", ag) == c7, "recovery: constexpr vs run time");
    CHECK(all_buffers(pl, "list parser", "1;2+", ag) == c8, "failing recovery: constexpr vs run time");
    CHECK(all_buffers(pl, "list parser", "1;#", ag) == c9, "lexical error: constexpr vs run time"); }
  // cstring_buffer at run time as well
  CHECK(pe.parse(cstring_buffer("1+2*3")) == c1 && pe.parse(cstring_buffer("1+?3")) == c3 && pe.parse(cstring_buffer("1+*3")) == c2, "cstring_buffer at run time");
  CHECK(!c10.has_value(), "skip_whitespace=false must reject '1 +2'");
  std::cout << "fails=" << fails << "\n"; return fails ? 1 : 0;
}
