// C03: the standalone matcher on strings around and beyond 65 536 bytes (every length is in the quantifier of the property;
// the validator theorem holds for all strings, this program binds the compiled code's length arithmetic to it), also with
// bytes >= 0xC0 under '.', inverted sets and star.
#include <ctpg/ctpg.hpp>
#include <iostream>
#include <string>
#include <vector>
using namespace ctpg;
static int fails = 0;
#define CHECK(c, what) do { if (!(c)) { ++fails; std::cout << "FAIL " << what << "\n"; } } while (0)
static constexpr char p1[] = "a*"; static constexpr regex::expr<p1> r1;
static constexpr char p2[] = "[ab]+"; static constexpr regex::expr<p2> r2;
static constexpr char p3[] = "(a|b)*c"; static constexpr regex::expr<p3> r3;
static constexpr char p4[] = "\"[^\"]*\""; static constexpr regex::expr<p4> r4;
static constexpr char p5[] = "x.*"; static constexpr regex::expr<p5> r5;
template<typename R> static bool m(const R& r, const std::string& s) { return r.match(buffers::string_view_buffer(std::string_view(s))); }
int main()
{
    std::vector<size_t> lens = { 1, 255, 256, 65534, 65535, 65536, 65537, 131071, 131072, 131073, 196608, 200001 };
    for (size_t n : lens)
    {
        std::string a(n, 'a'), ab; for (size_t i = 0; i < n; ++i) ab += (i % 3 ? 'a' : 'b');
        CHECK(m(r1, a), "a* rejects " << n << " a's");
        CHECK(!m(r1, a + "b"), "a* accepts " << n << " a's followed by b");
        CHECK(m(r2, ab), "[ab]+ rejects a string of " << n << " a/b");
        CHECK(!m(r2, ab + "c"), "[ab]+ accepts " << n << " a/b followed by c");
        CHECK(m(r3, ab + "c"), "(a|b)*c rejects " << n << " a/b followed by c");
        CHECK(!m(r3, ab), "(a|b)*c accepts " << n << " a/b without c");
        CHECK(m(r4, "\"" + ab + "\""), "string literal pattern rejects a literal of " << n + 2 << " bytes");
        CHECK(!m(r4, "\"" + ab), "string literal pattern accepts an unterminated literal of " << n + 1 << " bytes");
        CHECK(m(r5, "x" + ab), "x.* rejects x followed by " << n << " bytes");
    }
    for (int b = 1; b < 256; ++b)
    {
        std::string s = std::string("x") + char(b) + char(b);
        CHECK(m(r5, s), "x.* on byte " << b);     // '.' is any byte
        std::string q = std::string("\"") + char(b) + "\"";
        CHECK(m(r4, q) == (b != '"'), "[^\"] on byte " << b);
    }
    std::cout << "lengths=" << lens.size() << " fails=" << fails << "\n"; return fails ? 1 : 0;
}
