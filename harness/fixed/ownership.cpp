// C14: an instrumented move-only value type through the real parser: no copy is ever made (copying is deleted, so this
// compiles only if the library moves), no value is read after having been moved from, every value created is destroyed
// exactly once whether the parse succeeds, fails or discards values during recovery, and nothing is alive afterwards.
#include <ctpg/ctpg.hpp>
#include <iostream>
#include <map>
#include <sstream>
#include <string>
using namespace ctpg; using namespace ctpg::buffers;

struct ledger { long created = 0, destroyed = 0, moves = 0, moved_from_reads = 0, double_destroy = 0; std::map<const void*, int> live; };
static ledger L;
struct val {
  std::string s; bool moved = false;
  val() : s("?") { reg(); }
  explicit val(std::string x) : s(std::move(x)) { reg(); }
  val(val&& o) noexcept : s(o.read()) { o.moved = true; ++L.moves; reg(); }
  val& operator=(val&& o) noexcept { s = o.read(); o.moved = true; moved = false; ++L.moves; return *this; }
  val(const val&) = delete; val& operator=(const val&) = delete;
  ~val() { auto it = L.live.find(this); if (it == L.live.end()) ++L.double_destroy; else L.live.erase(it); ++L.destroyed; }
  const std::string& read() const { if (moved) ++L.moved_from_reads; return s; }
  void reg() { ++L.created; L.live[this] = 1; }
};
constexpr nterm<val> exprs("exprs"), expr("expr");
constexpr char num_pat[] = "[0-9]+";
constexpr regex_term<num_pat> number("number");
constexpr char_term o_plus('+', 1, associativity::ltor);
static const auto& P() {
  static const parser p(exprs, terms(number, o_plus, ';', '(', ')'), nterms(exprs, expr),
    rules(
      exprs() >= []() { return val("[]"); },
      exprs(exprs, expr, ';') >= [](val&& l, val&& e, skip) { return val(l.read() + e.read() + ";"); },
      exprs(exprs, error, ';') >= [](val&& l, skip, skip) { return val(l.read() + "E;"); },
      expr(expr, '+', expr) >= [](val&& a, skip, val&& b) { return val("(" + a.read() + "+" + b.read() + ")"); },
      expr('(', expr, ')') >= [](skip, val&& e, skip) { return val(e.read()); },
      expr('(', error, ')') >= [](skip, skip, skip) { return val("(E)"); },
      expr(number) >= [](const auto& sv) { return val(std::string(sv.get_value())); }));
  return p;
}
static int fails = 0;
static void run(const char* in, const char* want) {
  ledger before = L;
  std::string got;
  { std::stringstream err; auto r = P().parse(string_buffer(in), err); got = r ? r->read() : "<none>"; }
  bool ok = got == want && L.live.empty() && L.moved_from_reads == before.moved_from_reads && L.double_destroy == 0 && (L.created - before.created) == (L.destroyed - before.destroyed);
  if (!ok) { ++fails; std::cout << "FAIL input '" << in << "': result " << got << " (want " << want << "), alive afterwards " << L.live.size() << ", created " << (L.created - before.created) << ", destroyed " << (L.destroyed - before.destroyed) << ", reads of moved-from values " << (L.moved_from_reads - before.moved_from_reads) << ", double destructions " << L.double_destroy << "\n"; }
}
int main() {
  run("1;2+3;", "[]1;(2+3);");
  run("", "[]");
  run("1+2+3;(4);", "[]((1+2)+3);4;");
  run("1;+;2;", "[]1;E;2;");            // recovery discards values
  run("(1+;2;", "<none>");              // failure with live values on the stack
  run("1;2", "<none>");                 // end of input with live values
  run("(+)+1;", "[]((E)+1);");
  run("1+(2+(3+(4+(5))));", "[](1+(2+(3+(4+5))));");
  run("1 ? 2;", "<none>");              // lexical error with live values
  run(";;;", "[]E;E;E;");
  std::cout << "created=" << L.created << " destroyed=" << L.destroyed << " moves=" << L.moves << " fails=" << fails << "\n";
  return fails ? 1 : 0;
}
