// C14: an instrumented move-only value type through the real parser: no copy is ever made (copying is deleted, so this
// compiles only if the library moves), no value is read after having been moved from, every value created is destroyed
// exactly once whether the parse succeeds, fails or discards values during recovery, and nothing is alive afterwards.
#include <ctpg/ctpg.hpp>
#include <iostream>
#include <map>
#include <sstream>
#include <string>
#include <vector>
using namespace ctpg; using namespace ctpg::buffers;

struct ledger { long created = 0, destroyed = 0, moves = 0, moved_from_reads = 0, double_destroy = 0; std::map<const void*, int> live; };
static ledger L;
struct val {
  std::string s; bool moved = false;
  val() : s("?") { reg(); }
  explicit val(std::string x) : s(std::move(x)) { reg(); }
  val(val&& o) noexcept : s(o.read()) { o.moved = true; ++L.moves; reg(); }
  val& operator=(val&& o) noexcept { s = o.read(); o.moved = true; moved = false; ++L.moves; return *this; }
  val(const val&) = delete; val& operator=(const val&) = delete;
  ~val() { auto it = L.live.find(this); if (it == L.live.end()) ++L.double_destroy; else L.live.erase(it); ++L.destroyed; }
  const std::string& read() const { if (moved) ++L.moved_from_reads; return s; }
  void reg() { ++L.created; L.live[this] = 1; }
};
constexpr nterm<val> exprs("exprs"), expr("expr");
constexpr char num_pat[] = "[0-9]+";
constexpr regex_term<num_pat> number("number");
constexpr char_term o_plus('+', 1, associativity::ltor);
static const auto& P() {
  static const parser p(exprs, terms(number, o_plus, ';', '(', ')'), nterms(exprs, expr),
    rules(
      exprs() >= []() { return val("[]"); },
      exprs(exprs, expr, ';') >= [](val&& l, val&& e, skip) { return val(l.read() + e.read() + ";"); },
      exprs(exprs, error, ';') >= [](val&& l, skip, skip) { return val(l.read() + "E;"); },
      expr(expr, '+', expr) >= [](val&& a, skip, val&& b) { return val("(" + a.read() + "+" + b.read() + ")"); },
      expr('(', expr, ')') >= [](skip, val&& e, skip) { return val(e.read()); },
      expr('(', error, ')') >= [](skip, skip, skip) { return val("(E)"); },
      expr(number) >= [](const auto& sv) { return val(std::string(sv.get_value())); }));
  return p;
}
static int fails = 0;
static void run(const char* in, const char* want) {
  ledger before = L;
  std::string got;
  { std::stringstream err; auto r = P().parse(string_buffer(in), err); got = r ? r->read() : "<none>"; }
  bool ok = got == want && L.live.empty() && L.moved_from_reads == before.moved_from_reads && L.double_destroy == 0 && (L.created - before.created) == (L.destroyed - before.destroyed);
  if (!ok) { ++fails; std::cout << "FAIL input '" << in << "': result " << got << " (want " << want << "), alive afterwards " << L.live.size() << ", created " << (L.created - before.created) << ", destroyed " << (L.destroyed - before.destroyed) << ", reads of moved-from values " << (L.moved_from_reads - before.moved_from_reads) << ", double destructions " << L.double_destroy << "\n"; }
}
// --- rules WITHOUT functor (pass-through and aggregate), the push_back helper, and stacks deeper than the initial reservation
struct pairv { val a, b; pairv(val&& x, val&& y) : a(std::move(x)), b(std::move(y)) {} pairv(pairv&&) = default; pairv& operator=(pairv&&) = default; pairv(const pairv&) = delete; };
struct counted { static inline long copies = 0; int v = 0; counted() = default; explicit counted(int x) : v(x) {} counted(counted&&) = default; counted& operator=(counted&&) = default;
  counted(const counted& o) : v(o.v) { ++copies; } counted& operator=(const counted& o) { v = o.v; ++copies; return *this; } };
struct clist { static inline long copies = 0; std::vector<counted> items; clist() = default; clist(clist&&) = default; clist& operator=(clist&&) = default;
  clist(const clist& o) : items(o.items) { ++copies; } clist& operator=(const clist& o) { items = o.items; ++copies; return *this; } void push_back(const counted& c) { items.push_back(c); } };
constexpr nterm<val> leaf("leaf"), mid("mid"); constexpr nterm<pairv> top("top");
constexpr nterm<clist> cl("cl"); constexpr nterm<counted> ci("ci");
constexpr nterm<val> rl("rl"), ra("ra");
struct handle { static inline int copies = 0, next_id = 0; int id = 0, weight = 0; handle() = default; handle(int i, int w) : id(i), weight(w) {}
  handle(const handle& o) : id(o.id), weight(o.weight) { ++copies; } handle(handle&& o) noexcept : id(o.id), weight(o.weight) { o.id = -1; }
  handle& operator=(const handle& o) { id = o.id; weight = o.weight; ++copies; return *this; } handle& operator=(handle&& o) noexcept { id = o.id; weight = o.weight; o.id = -1; return *this; } };
static_assert(std::is_trivially_destructible_v<handle>);
constexpr nterm<handle> hl("hl"), hi("hi");
struct mlist { static inline long copies = 0; std::vector<counted> items; mlist() = default; mlist(mlist&&) = default; mlist& operator=(mlist&&) = default;
      mlist(const mlist& o) : items(o.items) { ++copies; } mlist& operator=(const mlist& o) { items = o.items; ++copies; return *this; }
      void push_back(const counted& c) { items.push_back(c); } void emplace_back(counted&& c) { items.emplace_back(std::move(c)); } };
constexpr nterm<mlist> ml("ml"); constexpr nterm<counted> mi("mi");
static int extra() {
  int bad = 0;
  { static const parser q(top, terms('a', ','), nterms(top, mid, leaf), rules(
      top(mid, ',', mid) >= [](val&& x, skip, val&& y) { return pairv(std::move(x), std::move(y)); },
      mid(leaf),                                                        // no functor: mid constructed from leaf - must MOVE
      leaf('a') >= [](skip) { return val("a"); }));
    ledger before = L;
    { auto r = q.parse(string_buffer("a,a")); if (!(r && r->a.read() == "a" && r->b.read() == "a")) { ++bad; std::cout << "FAIL functor-less rule: wrong result\n"; } }
    if (!L.live.empty() || L.moved_from_reads != before.moved_from_reads || (L.created - before.created) != (L.destroyed - before.destroyed)) { ++bad; std::cout << "FAIL functor-less rule: leaked / reused value\n"; } }
  { static const parser q(cl, terms('1', ','), nterms(cl, ci), rules(
      cl() >= ftors::create<clist>{}, cl(cl, ci, ',') >= ftors::push_back<1, 2>{}, ci('1') >= [](skip) { return counted(1); }));
    clist::copies = 0; counted::copies = 0;
    auto r = q.parse(string_buffer("1,1,1,1,1,1,1,1,"));
    if (!(r && r->items.size() == 8)) { ++bad; std::cout << "FAIL push_back list: wrong result\n"; }
    if (clist::copies != 0) { ++bad; std::cout << "FAIL push_back helper copied the container " << clist::copies << " times (expected 0)\n"; }
    if (counted::copies != 8) { ++bad; std::cout << "FAIL push_back helper copied elements " << counted::copies << " times (expected 8: one per push_back)\n"; } }
  { static const parser q(rl, terms('a', '.'), nterms(rl, ra), rules(
      rl(ra) >= [](val&& x) { return val(x.read()); }, rl(ra, rl) >= [](val&& x, val&& r) { return val(std::to_string(x.read().size() + std::stoul(r.read()))); },
      ra('a', '.') >= [](skip, skip) { return val("1"); }));
    for (size_t n : {1000u, 1023u, 1024u, 1025u, 2049u, 3000u, 65535u, 65536u, 65537u, 70000u}) {      // also beyond every 16-bit index
      std::string in; for (size_t i = 0; i < n; ++i) in += "a.";
      ledger before = L; std::string got;
      try { auto r = q.parse(string_buffer(std::move(in))); got = r ? r->read() : "<none>"; } catch (const std::exception& e) { got = std::string("threw ") + e.what(); }
      if (got != std::to_string(n) || !L.live.empty() || L.moved_from_reads != before.moved_from_reads || L.double_destroy != 0) {
        ++bad; std::cout << "FAIL right-recursive list of " << n << " values: result " << got << ", alive " << L.live.size() << ", moved-from reads " << (L.moved_from_reads - before.moved_from_reads) << "\n"; L.live.clear(); }
    } }
  // the append helpers with the container AFTER the element (right-recursive lists): the container is moved through, never copied
  {
    static const parser q1(ml, terms('1', ','), nterms(ml, mi), rules(
      ml() >= ftors::create<mlist>{}, ml(mi, ',', ml) >= ftors::emplace_back<3, 1>{}, mi('1') >= [](skip) { return counted(1); }));
    static const parser q2(ml, terms('1', ','), nterms(ml, mi), rules(
      ml() >= ftors::create<mlist>{}, ml(mi, ',', ml) >= ftors::push_back<3, 1>{}, mi('1') >= [](skip) { return counted(1); }));
    mlist::copies = 0; counted::copies = 0;
    auto r1 = q1.parse(string_buffer("1,1,1,1,1,1,"));
    if (!(r1 && r1->items.size() == 6)) { ++bad; std::cout << "FAIL emplace_back<3,1> list: wrong result\n"; }
    if (mlist::copies != 0 || counted::copies != 0) { ++bad; std::cout << "FAIL emplace_back<3,1> copied the container " << mlist::copies << " times and elements " << counted::copies << " times (expected 0 / 0)\n"; }
    mlist::copies = 0; counted::copies = 0;
    auto r2 = q2.parse(string_buffer("1,1,1,1,1,1,"));
    if (!(r2 && r2->items.size() == 6)) { ++bad; std::cout << "FAIL push_back<3,1> list: wrong result\n"; }
    if (mlist::copies != 0 || counted::copies != 6) { ++bad; std::cout << "FAIL push_back<3,1> copied the container " << mlist::copies << " times and elements " << counted::copies << " times (expected 0 / 6: one per push_back)\n"; } }
  // trivially destructible value types with cstring_buffer: the value stack is then a fixed-capacity cvector; still no copy may be made
  { static const parser q(hl, terms('x', ','), nterms(hl, hi), rules(
      hi('x') >= [](skip) { return handle(++handle::next_id, 1); },
      hl(hi) >= [](handle&& h) { return std::move(h); },
      hl(hl, ',', hi) >= [](handle&& l, skip, handle&& i) { handle r(std::move(l)); r.weight += i.weight; return r; }));
    auto one = [&](const char* what, auto&& buf) {
      handle::copies = 0; handle::next_id = 0;
      auto r = q.parse(buf);
      if (!(r && r->weight == 5 && r->id == 1)) { ++bad; std::cout << "FAIL trivially destructible values through " << what << ": wrong result\n"; }
      if (handle::copies != 0) { ++bad; std::cout << "FAIL trivially destructible values through " << what << ": the library copied semantic values " << handle::copies << " times (expected 0)\n"; } };
    one("cstring_buffer", cstring_buffer("x,x,x,x,x")); one("string_buffer", string_buffer("x,x,x,x,x")); one("string_view_buffer", string_view_buffer("x,x,x,x,x")); }
  return bad;
}
int main() {
  fails += extra();
  run("1;2+3;", "[]1;(2+3);");
  run("", "[]");
  run("1+2+3;(4);", "[]((1+2)+3);4;");
  run("1;+;2;", "[]1;E;2;");            // recovery discards values
  run("(1+;2;", "<none>");              // failure with live values on the stack
  run("1;2", "<none>");                 // end of input with live values
  run("(+)+1;", "[]((E)+1);");
  run("1+(2+(3+(4+(5))));", "[](1+(2+(3+(4+5))));");
  run("1 ? 2;", "<none>");              // lexical error with live values
  run(";;;", "[]E;E;E;");
  std::cout << "created=" << L.created << " destroyed=" << L.destroyed << " moves=" << L.moves << " fails=" << fails << "\n";
  return fails ? 1 : 0;
}
