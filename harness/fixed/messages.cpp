// C09 / C10: the two failure messages name the offending term by its NAME (every term kind, typed or not), carry the true position
// also beyond 65535 lines / columns, and a byte that no term matches (NUL included) is reported, never skipped.
#include <ctpg/ctpg.hpp>
#include <iostream>
#include <sstream>
#include <string>
using namespace ctpg; using namespace ctpg::buffers;
static int fails = 0;
constexpr int get_int(std::string_view sv) { int v = 0; for (char c : sv) v = v * 10 + (c - '0'); return v; }
constexpr char number_pattern[] = "[1-9][0-9]*"; constexpr char id_pattern[] = "[a-z]+";
constexpr typed_term number(regex_term<number_pattern>("number"), get_int);        // typed regex term with a custom name
constexpr regex_term<id_pattern> ident("identifier");                               // plain regex term with a custom name
constexpr typed_term t_plus(char_term('+'), [](auto) { return 0; });                // typed char term
constexpr string_term kw("while");                                                  // string term
constexpr typed_term t_arrow(string_term("->"), [](auto) { return 0; });            // typed string term
constexpr nterm<int> root("root");
constexpr parser p(root, terms(number, kw, ident, t_plus, t_arrow, ';'), nterms(root), rules(
    root(number, t_plus, number) >= [](int a, int, int b) { return a + b; },
    root(ident, t_arrow, number, ';') >= [](auto, int, int b, auto) { return b; },
    root(kw, ident) >= [](auto, auto) { return 1; }));
static void expect(const std::string& in, bool value, const std::string& msg) {
  std::stringstream err; auto r = p.parse(string_buffer(std::string(in)), err);
  if (r.has_value() != value || err.str() != msg) { ++fails; std::cout << "FAIL input of " << in.size() << " bytes '" << in.substr(0, 30) << "': has_value=" << r.has_value() << " message='" << err.str().substr(0, 120) << "' expected has_value=" << value << " message='" << msg.substr(0, 120) << "'\n"; }
}
int main() {
  expect("1+2", true, "");
  expect("1 2", false, "[1:3] PARSE: Syntax error: Unexpected 'number'\n");
  expect("1+x", false, "[1:3] PARSE: Syntax error: Unexpected 'identifier'\n");
  expect("1++", false, "[1:3] PARSE: Syntax error: Unexpected '+'\n");
  expect("1 while", false, "[1:3] PARSE: Syntax error: Unexpected 'while'\n");
  expect("x -> ->", false, "[1:6] PARSE: Syntax error: Unexpected '->'\n");
  expect("x->5", false, "[1:5] PARSE: Syntax error: Unexpected '<eof>'\n");
  expect("1+;", false, "[1:3] PARSE: Syntax error: Unexpected ';'\n");
  expect("1 ? 2", false, "[1:3] PARSE: Unexpected character: ?\n");
  // a NUL byte (and a byte >= 0x80) where a term is looked for is a lexical error at its position, never whitespace
  expect(std::string("1\0+2", 4), false, std::string("[1:2] PARSE: Unexpected character: \0\n", 37));
  expect(std::string("1 \0 +2", 6), false, std::string("[1:3] PARSE: Unexpected character: \0\n", 37));
  expect("1\x80+2", false, "[1:2] PARSE: Unexpected character: \x80\n");
  // positions beyond every 16-bit counter: a long line, many lines
  expect(std::string(80000, ' ') + "?", false, "[1:80001] PARSE: Unexpected character: ?\n");
  expect(std::string(80000, ' ') + "1 2", false, "[1:80003] PARSE: Syntax error: Unexpected 'number'\n");
  expect(std::string(70000, '\n') + "1 +", false, "[70001:4] PARSE: Syntax error: Unexpected '<eof>'\n");
  expect(std::string(70000, '\n') + "  ?", false, "[70001:3] PARSE: Unexpected character: ?\n");
  expect("1+" + std::string(66000, '\n') + std::string(66000, ' ') + "2", true, "");
  std::cout << "fails=" << fails << "\n"; return fails ? 1 : 0;
}
