// C01 (the word boundaries of the generator's bitsets): conflict-free grammars with 70 terms (72 with <eof> and the error symbol: term sets
// span two 64-bit words). Each grammar isolates one propagation so that nothing else keeps a fixpoint loop alive: FIRST through a chain
// whose rules are listed in the order that needs one pass per link, with the decisive terms only in word 0 (low), only in word 1 (high), or
// alternating (mixed); nullability through a chain of 70 unit rules over 72 nonterminals (nonterminal sets span two words). Every verdict
// is known by construction. GENERATED once by a script; static file.
#include <ctpg/ctpg.hpp>
#include <iostream>
#include <sstream>
#include <string>
#include <pthread.h>
using namespace ctpg; using namespace ctpg::buffers; using namespace ctpg::ftors;
constexpr nterm<int> S("S"), Y("Y"), A0("A0"), A1("A1"), A2("A2"), A3("A3"), E0("E0"), E1("E1"), E2("E2"), E3("E3"), E4("E4"), E5("E5"), E6("E6"), E7("E7"), E8("E8"), E9("E9"), E10("E10"), E11("E11"), E12("E12"), E13("E13"), E14("E14"), E15("E15"), E16("E16"), E17("E17"), E18("E18"), E19("E19"), E20("E20"), E21("E21"), E22("E22"), E23("E23"), E24("E24"), E25("E25"), E26("E26"), E27("E27"), E28("E28"), E29("E29"), E30("E30"), E31("E31"), E32("E32"), E33("E33"), E34("E34"), E35("E35"), E36("E36"), E37("E37"), E38("E38"), E39("E39"), E40("E40"), E41("E41"), E42("E42"), E43("E43"), E44("E44"), E45("E45"), E46("E46"), E47("E47"), E48("E48"), E49("E49"), E50("E50"), E51("E51"), E52("E52"), E53("E53"), E54("E54"), E55("E55"), E56("E56"), E57("E57"), E58("E58"), E59("E59"), E60("E60"), E61("E61"), E62("E62"), E63("E63"), E64("E64"), E65("E65"), E66("E66"), E67("E67"), E68("E68"), E69("E69");
struct limits { static const size_t state_count_cap = 512; static const size_t max_sit_count_per_state_cap = 256; };
static auto make_low() { return new parser(S, terms('a', 'b', 'c', 'd', 'e', 'f', 'g', 'h', 'i', 'j', 'k', 'l', 'm', 'n', 'o', 'p', 'q', 'r', 's', 't', 'u', 'v', 'w', 'x', 'y', 'z', 'A', 'B', 'C', 'D', 'E', 'F', 'G', 'H', 'I', 'J', 'K', 'L', 'M', 'N', 'O', 'P', 'Q', 'R', 'S', 'T', 'U', 'V', 'W', 'X', 'Y', 'Z', '0', '1', '2', '3', '4', '5', '6', '7', '8', '9', '!', '#', '$', '%', '&', '*', '+', '-'),
    nterms(S, Y, A0, A1, A2, A3),
    rules(S(Y, A0) >= [](int, int a) { return 100 + a; },
          Y('b') >= val(0),
          A0(A1, 'c') >= [](int a, skip) { return a + 1; },
          A1(A2, 'd') >= [](int a, skip) { return a + 1; },
          A2(A3, 'e') >= [](int a, skip) { return a + 1; },
          A3('a') >= val(1)), use_generated_lexer{}, limits{}); }
static auto make_high() { return new parser(S, terms('a', 'b', 'c', 'd', 'e', 'f', 'g', 'h', 'i', 'j', 'k', 'l', 'm', 'n', 'o', 'p', 'q', 'r', 's', 't', 'u', 'v', 'w', 'x', 'y', 'z', 'A', 'B', 'C', 'D', 'E', 'F', 'G', 'H', 'I', 'J', 'K', 'L', 'M', 'N', 'O', 'P', 'Q', 'R', 'S', 'T', 'U', 'V', 'W', 'X', 'Y', 'Z', '0', '1', '2', '3', '4', '5', '6', '7', '8', '9', '!', '#', '$', '%', '&', '*', '+', '-'),
    nterms(S, Y, A0, A1, A2, A3),
    rules(S(Y, A0) >= [](int, int a) { return 100 + a; },
          Y('*') >= val(0),
          A0(A1, '+') >= [](int a, skip) { return a + 1; },
          A1(A2, '$') >= [](int a, skip) { return a + 1; },
          A2(A3, '%') >= [](int a, skip) { return a + 1; },
          A3('&') >= val(1)), use_generated_lexer{}, limits{}); }
static auto make_mixed() { return new parser(S, terms('a', 'b', 'c', 'd', 'e', 'f', 'g', 'h', 'i', 'j', 'k', 'l', 'm', 'n', 'o', 'p', 'q', 'r', 's', 't', 'u', 'v', 'w', 'x', 'y', 'z', 'A', 'B', 'C', 'D', 'E', 'F', 'G', 'H', 'I', 'J', 'K', 'L', 'M', 'N', 'O', 'P', 'Q', 'R', 'S', 'T', 'U', 'V', 'W', 'X', 'Y', 'Z', '0', '1', '2', '3', '4', '5', '6', '7', '8', '9', '!', '#', '$', '%', '&', '*', '+', '-'),
    nterms(S, Y, A0, A1, A2, A3),
    rules(S(Y, A0) >= [](int, int a) { return 100 + a; },
          Y('w') >= val(0),
          A0(A1, 'y') >= [](int a, skip) { return a + 1; },
          A1(A2, '+') >= [](int a, skip) { return a + 1; },
          A2(A3, 'x') >= [](int a, skip) { return a + 1; },
          A3('-') >= val(1)), use_generated_lexer{}, limits{}); }
static auto make_nullable() { return new parser(S, terms('a', 'b', 'c', 'd', 'e', 'f', 'g', 'h', 'i', 'j', 'k', 'l', 'm', 'n', 'o', 'p', 'q', 'r', 's', 't', 'u', 'v', 'w', 'x', 'y', 'z', 'A', 'B', 'C', 'D', 'E', 'F', 'G', 'H', 'I', 'J', 'K', 'L', 'M', 'N', 'O', 'P', 'Q', 'R', 'S', 'T', 'U', 'V', 'W', 'X', 'Y', 'Z', '0', '1', '2', '3', '4', '5', '6', '7', '8', '9', '!', '#', '$', '%', '&', '*', '+', '-'),
    nterms(S, E0, E1, E2, E3, E4, E5, E6, E7, E8, E9, E10, E11, E12, E13, E14, E15, E16, E17, E18, E19, E20, E21, E22, E23, E24, E25, E26, E27, E28, E29, E30, E31, E32, E33, E34, E35, E36, E37, E38, E39, E40, E41, E42, E43, E44, E45, E46, E47, E48, E49, E50, E51, E52, E53, E54, E55, E56, E57, E58, E59, E60, E61, E62, E63, E64, E65, E66, E67, E68, E69),
    rules(S('q', E0, 'r') >= [](skip, int e, skip) { return 400 + e; },
          E0(E1) >= _e1,
          E1(E2) >= _e1,
          E2(E3) >= _e1,
          E3(E4) >= _e1,
          E4(E5) >= _e1,
          E5(E6) >= _e1,
          E6(E7) >= _e1,
          E7(E8) >= _e1,
          E8(E9) >= _e1,
          E9(E10) >= _e1,
          E10(E11) >= _e1,
          E11(E12) >= _e1,
          E12(E13) >= _e1,
          E13(E14) >= _e1,
          E14(E15) >= _e1,
          E15(E16) >= _e1,
          E16(E17) >= _e1,
          E17(E18) >= _e1,
          E18(E19) >= _e1,
          E19(E20) >= _e1,
          E20(E21) >= _e1,
          E21(E22) >= _e1,
          E22(E23) >= _e1,
          E23(E24) >= _e1,
          E24(E25) >= _e1,
          E25(E26) >= _e1,
          E26(E27) >= _e1,
          E27(E28) >= _e1,
          E28(E29) >= _e1,
          E29(E30) >= _e1,
          E30(E31) >= _e1,
          E31(E32) >= _e1,
          E32(E33) >= _e1,
          E33(E34) >= _e1,
          E34(E35) >= _e1,
          E35(E36) >= _e1,
          E36(E37) >= _e1,
          E37(E38) >= _e1,
          E38(E39) >= _e1,
          E39(E40) >= _e1,
          E40(E41) >= _e1,
          E41(E42) >= _e1,
          E42(E43) >= _e1,
          E43(E44) >= _e1,
          E44(E45) >= _e1,
          E45(E46) >= _e1,
          E46(E47) >= _e1,
          E47(E48) >= _e1,
          E48(E49) >= _e1,
          E49(E50) >= _e1,
          E50(E51) >= _e1,
          E51(E52) >= _e1,
          E52(E53) >= _e1,
          E53(E54) >= _e1,
          E54(E55) >= _e1,
          E55(E56) >= _e1,
          E56(E57) >= _e1,
          E57(E58) >= _e1,
          E58(E59) >= _e1,
          E59(E60) >= _e1,
          E60(E61) >= _e1,
          E61(E62) >= _e1,
          E62(E63) >= _e1,
          E63(E64) >= _e1,
          E64(E65) >= _e1,
          E65(E66) >= _e1,
          E66(E67) >= _e1,
          E67(E68) >= _e1,
          E68(E69) >= _e1,
          E69() >= val(7),
          E69('z') >= val(8)), use_generated_lexer{}, limits{}); }
struct tc { const char* in; int want; };     // want < 0: not in the language
static int fails = 0;
template<class P> static void check(const char* what, P* p, const tc* cs, size_t n) {
  std::ostringstream diag; p->write_diag_str(diag);
  if (diag.str().find("CONFLICT") != std::string::npos) { ++fails; std::cout << "FAIL " << what << ": the diagnostics report a conflict\n"; }
  for (size_t i = 0; i < n; ++i) {
    std::string got;
    try { auto r = p->parse(string_buffer(cs[i].in)); got = r ? std::to_string(*r) : "none"; } catch (const std::exception& e) { got = std::string("threw ") + e.what(); }
    std::string want = cs[i].want < 0 ? "none" : std::to_string(cs[i].want);
    if (got != want) { ++fails; std::cout << "FAIL " << what << " (70 declared terms): input \"" << cs[i].in << "\" gives " << got << ", the grammar says " << want << (cs[i].want < 0 ? " (not derivable)" : " (derivable)") << "\n"; }
  }
  delete p;
}
#define N(a) (sizeof(a) / sizeof(tc))
static void* run(void*) {
  const tc low[] = { {"b a e d c", 104}, {"baedc", 104}, {"b a d c", -1}, {"b e d c", -1}, {"b a e d", -1}, {"a e d c", -1}, {"b a e d c c", -1}, {"", -1} };
  const tc high[] = { {"* & % $ +", 104}, {"*&%$+", 104}, {"* & $ +", -1}, {"* % $ +", -1}, {"& % $ +", -1}, {"* & % $", -1} };
  const tc mixed[] = { {"w - x + y", 104}, {"w-x+y", 104}, {"w - + y", -1}, {"w x + y", -1}, {"- x + y", -1}, {"w - x +", -1} };
  const tc nullable[] = { {"q r", 407}, {"q z r", 408}, {"q", -1}, {"q z", -1}, {"q z z r", -1}, {"r", -1}, {"z r", -1} };
  try { check("FIRST chain with word-0 terms", make_low(), low, N(low)); } catch (const std::exception& e) { ++fails; std::cout << "FAIL low: construction threw " << e.what() << "\n"; }
  try { check("FIRST chain with word-1 terms", make_high(), high, N(high)); } catch (const std::exception& e) { ++fails; std::cout << "FAIL high: construction threw " << e.what() << "\n"; }
  try { check("FIRST chain alternating between the words", make_mixed(), mixed, N(mixed)); } catch (const std::exception& e) { ++fails; std::cout << "FAIL mixed: construction threw " << e.what() << "\n"; }
  try { check("nullable chain over 71 nonterminals", make_nullable(), nullable, N(nullable)); } catch (const std::exception& e) { ++fails; std::cout << "FAIL nullable: construction threw " << e.what() << "\n"; }
  return nullptr;
}
int main() {
  pthread_attr_t attr; pthread_attr_init(&attr); pthread_attr_setstacksize(&attr, size_t(1024) << 20);
  pthread_t th; if (pthread_create(&th, &attr, run, nullptr) != 0) { std::cout << "FAIL could not create the worker thread\n"; return 2; }
  pthread_join(th, nullptr);
  std::cout << "fails=" << fails << "\n"; return fails ? 1 : 0;
}
