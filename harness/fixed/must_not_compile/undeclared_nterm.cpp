// must NOT compile: a constexpr parser whose rule mentions an undeclared nonterminal
#include <ctpg/ctpg.hpp>
using namespace ctpg;
constexpr nterm<int> S("S"), A("A");
constexpr parser p(S, terms('a'), nterms(S), rules(S('a', A) >= [](char, int) { return 0; }));
int main() { return p.parse(buffers::string_buffer("a")).has_value(); }
