// must NOT compile: a dangling repetition in a regex::expr pattern
#include <ctpg/ctpg.hpp>
static constexpr char pat[] = "a{2";
constexpr ctpg::regex::expr<pat> r;
int main() { return r.match("aa"); }
