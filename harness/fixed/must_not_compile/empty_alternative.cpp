// must NOT compile: an empty alternative in a pattern
#include <ctpg/ctpg.hpp>
static constexpr char pat[] = "a||b";
constexpr ctpg::regex::expr<pat> r;
int main() { return r.match("a"); }
