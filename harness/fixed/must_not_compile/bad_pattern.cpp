// must NOT compile: an unbalanced group in a regex_term pattern
#include <ctpg/ctpg.hpp>
using namespace ctpg;
constexpr char pat[] = "a(b";
constexpr regex_term<pat> t("t");
constexpr nterm<int> S("S");
constexpr parser p(S, terms(t), nterms(S), rules(S(t) >= [](auto) { return 0; }));
int main() { return p.parse(buffers::string_buffer("ab")).has_value(); }
