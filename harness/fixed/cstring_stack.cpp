// C07 / C12 / C06: for a grammar WITHOUT empty rules the fixed stacks used with cstring_buffer (capacity N + 0 + 1) must
// suffice for every input: the stack holds at most state 0, one entry per input character and one error symbol. So the
// cstring_buffer result must equal the string_buffer result, including across error recovery, and nothing may throw.
#include <ctpg/ctpg.hpp>
#include <iostream>
#include <string>
using namespace ctpg; using namespace ctpg::buffers; using namespace ctpg::ftors;
static int fails = 0;
constexpr nterm<int> seq("seq"), item("item"), list("list");
constexpr parser p1(seq, terms('a', 'b', 'c'), nterms(seq), rules(
    seq('a', seq) >= [](skip, int x) { return x + 1; }, seq('c') >= val(0), seq(error, 'b') >= [](skip, skip) { return 100; }));
constexpr parser p2(list, terms('x', ';'), nterms(list, item), rules(
    list(item) >= _e1, list(item, list) >= [](int a, int b) { return a + b; }, item('x') >= val(1), item(error, ';') >= [](skip, skip) { return 100; }));
// empty rules WITHIN what the documented capacity N + EmptyRulesCount + 1 covers: three optional modifiers before a keyword
// (at most one pending empty reduction per empty rule), on both stacks
constexpr nterm<int> decl("decl"), ma("ma"), mb("mb"), mc("mc");
constexpr parser p3(decl, terms('a', 'b', 'c', 'k'), nterms(decl, ma, mb, mc), rules(
    decl(ma, mb, mc, 'k') >= [](int a, int b, int c, skip) { return a * 100 + b * 10 + c; },
    ma() >= val(0), ma('a') >= val(1), mb() >= val(0), mb('b') >= val(1), mc() >= val(0), mc('c') >= val(1)));
// recovery at the very first term, nothing discarded, right-recursive tail: the deepest stack a single recovery can produce
constexpr nterm<int> root4("root"), tail4("tail");
constexpr parser p4(root4, terms('x', 'y', 'z'), nterms(root4, tail4), rules(
    root4('x', tail4) >= [](skip, int n) { return n; }, root4(error, 'y', tail4) >= [](skip, skip, int n) { return 1000 + n; },
    tail4('z') >= val(1), tail4('z', tail4) >= [](skip, int n) { return n + 1; }));
// one empty rule and one recovery, both slots of the capacity N + EmptyRulesCount + 1 in use at once: error at the first term,
// right-recursive tail, then the empty reduction
constexpr nterm<int> root5("root"), tail5("tail");
constexpr parser p5(root5, terms('x', 'y'), nterms(root5, tail5), rules(
    root5('y', tail5) >= [](skip, int n) { return n; }, root5(error, tail5) >= [](skip, int n) { return 1000 + n; },
    tail5('x', tail5) >= [](skip, int n) { return n + 1; }, tail5() >= val(0)));
template<class P, size_t N> static void one(const P& p, const char* name, const char (&lit)[N]) {
  std::string got, want;
  { auto r = p.parse(string_buffer(lit)); want = r ? std::to_string(*r) : "none"; }
  try { auto r = p.parse(cstring_buffer(lit)); got = r ? std::to_string(*r) : "none"; } catch (const std::exception& e) { got = std::string("threw ") + e.what(); }
  if (got != want) { ++fails; std::cout << "FAIL " << name << " on '" << lit << "': cstring_buffer gives " << got << ", string_buffer gives " << want << "\n"; }
}
int main() {
  one(p1, "seq", "c"); one(p1, "seq", "ac"); one(p1, "seq", "aaac"); one(p1, "seq", "aaab"); one(p1, "seq", "b"); one(p1, "seq", "ab"); one(p1, "seq", "aab");
  one(p1, "seq", "aaaaaaab"); one(p1, "seq", "a"); one(p1, "seq", ""); one(p1, "seq", "ca"); one(p1, "seq", "aaa c"); one(p1, "seq", "bb");
  one(p2, "list", ";"); one(p2, "list", "xx;"); one(p2, "list", "x;;"); one(p2, "list", "xxx"); one(p2, "list", "x;x;x"); one(p2, "list", ";;"); one(p2, "list", "xx;x");
  one(p3, "decl", "k"); one(p3, "decl", "ak"); one(p3, "decl", "bk"); one(p3, "decl", "ck"); one(p3, "decl", "abck"); one(p3, "decl", "a c k"); one(p3, "decl", ""); one(p3, "decl", "kk");
  one(p4, "tail", "xzzz"); one(p4, "tail", "yz"); one(p4, "tail", "yzzz"); one(p4, "tail", "yzzzzzzzzz"); one(p4, "tail", "zyzz"); one(p4, "tail", "zzz"); one(p4, "tail", "y");
  one(p5, "tail-with-empty", "xxxx"); one(p5, "tail-with-empty", "x"); one(p5, "tail-with-empty", "yxxx"); one(p5, "tail-with-empty", "y"); one(p5, "tail-with-empty", "");
  // constant evaluation of the boundary cases
  constexpr auto c1 = p1.parse(cstring_buffer("aaab")); static_assert(c1.has_value() && *c1 == 103);
  constexpr auto c2 = p2.parse(cstring_buffer("xx;")); static_assert(c2.has_value());
  std::cout << "fails=" << fails << "\n"; return fails ? 1 : 0;
}
