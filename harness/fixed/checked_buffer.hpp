// A user buffer whose iterator records any arithmetic or dereference outside [begin, end].
#pragma once
#include <string>
#include <string_view>
#include <cstddef>
struct checked_buffer {
  std::string s; mutable int faults = 0; mutable std::string first_fault;
  explicit checked_buffer(std::string str) : s(std::move(str)) {}
  struct iterator {
    const checked_buffer* b; std::ptrdiff_t off;
    void fault(const char* what) const { if (!b->faults++) b->first_fault = std::string(what) + " at offset " + std::to_string(off) + " (size " + std::to_string(b->s.size()) + ")"; }
    char operator*() const { if (off < 0 || off >= (std::ptrdiff_t)b->s.size()) { fault("dereference"); return 0; } return b->s[off]; }
    iterator& operator++() { ++off; if (off > (std::ptrdiff_t)b->s.size()) fault("increment past end"); return *this; }
    iterator operator++(int) { iterator i(*this); ++*this; return i; }
    bool operator==(const iterator& o) const { return off == o.off; }
    bool operator!=(const iterator& o) const { return off != o.off; }
    iterator& operator+=(std::size_t n) { off += (std::ptrdiff_t)n; if (off > (std::ptrdiff_t)b->s.size()) fault("+= past end"); return *this; }
    iterator operator+(std::size_t n) const { iterator i(*this); i += n; return i; }
  };
  iterator begin() const { return iterator{this, 0}; }
  iterator end() const { return iterator{this, (std::ptrdiff_t)s.size()}; }
  std::string_view get_view(iterator a, iterator e) const {
    if (a.off < 0 || e.off < a.off || e.off > (std::ptrdiff_t)s.size()) { a.fault("get_view out of range"); return {}; }
    return std::string_view(s.data() + a.off, e.off - a.off);
  }
};
