// C01 (and the 16-bit index arithmetic behind C12): a conflict-free grammar whose LR(1) item address space
// rule_count * (longest_rule + 1) * term_count = 56 * 24 * 60 = 80640 exceeds 65536 (52 opcode alternatives and one rule with 23
// right-side symbols), next to the same language shape with a short rule (address space 19488). Every verdict is known by
// construction. The parsers are built at run time on a thread with a big stack, with custom limits that keep the tables small.
#include <ctpg/ctpg.hpp>
#include <iostream>
#include <sstream>
#include <string>
#include <pthread.h>
using namespace ctpg; using namespace ctpg::buffers; using namespace ctpg::ftors;
#define LETTERS(X) X('a') X('b') X('c') X('d') X('e') X('f') X('g') X('h') X('i') X('j') X('k') X('l') X('m') X('n') X('o') X('p') X('q') X('r') X('s') X('t') X('u') X('v') X('w') X('x') X('y') X('z') \
                   X('A') X('B') X('C') X('D') X('E') X('F') X('G') X('H') X('I') X('J') X('K') X('L') X('M') X('N') X('O') X('P') X('Q') X('R') X('S') X('T') X('U') X('V') X('W') X('X') X('Y') X('Z')
#define AS_TERM(c) c,
#define AS_RULE(c) cmd(c, arg, ';') >= [](char op, int a, skip) { return int(op) * 10 + a; },
constexpr nterm<int> cmd("cmd"), arg("arg"), stamp("stamp");
constexpr char digit_pattern[] = "[0-9]"; constexpr regex_term<digit_pattern> d("d");
struct limits { static const size_t state_count_cap = 256; static const size_t max_sit_count_per_state_cap = 64; };
constexpr auto count_args = [](auto&&... x) { return int(sizeof...(x)); };
static auto make_big() { return new parser(cmd, terms(LETTERS(AS_TERM) d, ';', '#', '-', ':', '.'), nterms(cmd, arg, stamp), rules(LETTERS(AS_RULE)
    arg('#') >= val(1), arg(stamp) >= val(2),
    stamp(d, d, d, d, '-', d, d, '-', d, d, 'T', d, d, ':', d, d, ':', d, d, '.', d, d, d) >= count_args), use_generated_lexer{}, limits{}); }
static auto make_small() { return new parser(cmd, terms(LETTERS(AS_TERM) d, ';', '#', '-'), nterms(cmd, arg, stamp), rules(LETTERS(AS_RULE)
    arg('#') >= val(1), arg(stamp) >= val(2), stamp(d, d, '-', d, d) >= count_args), use_generated_lexer{}, limits{}); }
struct tc { const char* in; int want; };     // want < 0: not in the language
static int fails = 0;
template<class P> static void check(const char* what, const P& p, const tc* cs, size_t n) {
  std::ostringstream diag; p.write_diag_str(diag);
  if (diag.str().find("CONFLICT") != std::string::npos) { ++fails; std::cout << "FAIL " << what << ": the diagnostics report a conflict\n"; }
  for (size_t i = 0; i < n; ++i) {
    std::string got;
    try { auto r = p.parse(string_buffer(cs[i].in)); got = r ? std::to_string(*r) : "none"; } catch (const std::exception& e) { got = std::string("threw ") + e.what(); }
    std::string want = cs[i].want < 0 ? "none" : std::to_string(cs[i].want);
    if (got != want) { ++fails; std::cout << "FAIL " << what << ": input \"" << cs[i].in << "\" gives " << got << ", the grammar says " << want << (cs[i].want < 0 ? " (not derivable)" : " (derivable)") << "\n"; }
  }
}
static void* run(void*) {
  const tc small_cases[] = { {"a#;", 'a' * 10 + 1}, {"Z #  ;", 'Z' * 10 + 1}, {"q 12-31;", 'q' * 10 + 2}, {"a#", -1}, {"#;", -1}, {"a;", -1}, {"q 12-3;", -1}, {"ab#;", -1}, {"a#;;", -1} };
  const tc big_cases[] = { {"a#;", 'a' * 10 + 1}, {"Z #  ;", 'Z' * 10 + 1}, {"T#;", 'T' * 10 + 1}, {"q 2024-01-02T03:04:05.678;", 'q' * 10 + 2}, {"T 1999-12-31T23:59:59.999 ;", 'T' * 10 + 2},
                           {"a#", -1}, {"#;", -1}, {"a;", -1}, {"ab#;", -1}, {"a#;;", -1}, {"q 2024-01-02;", -1}, {"q 2024-01-02T03:04:05;", -1}, {"q 2024-01-02T03:04:05.6789;", -1} };
  try { auto s = make_small(); check("small grammar (address space 19488)", *s, small_cases, sizeof(small_cases) / sizeof(tc)); delete s; } catch (const std::exception& e) { ++fails; std::cout << "FAIL small grammar: construction threw " << e.what() << "\n"; }
  try { auto b = make_big(); check("big grammar (address space 80640)", *b, big_cases, sizeof(big_cases) / sizeof(tc)); delete b; } catch (const std::exception& e) { ++fails; std::cout << "FAIL big grammar: construction threw " << e.what() << "\n"; }
  return nullptr;
}
int main() {
  pthread_attr_t attr; pthread_attr_init(&attr); pthread_attr_setstacksize(&attr, size_t(512) << 20);
  pthread_t th; if (pthread_create(&th, &attr, run, nullptr) != 0) { std::cout << "FAIL could not create the worker thread\n"; return 2; }
  pthread_join(th, nullptr);
  std::cout << "fails=" << fails << "\n"; return fails ? 1 : 0;
}
