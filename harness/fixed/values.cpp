// C02 (the C++ glue the driver model cannot exhibit): heterogeneous value types per nonterminal, typed terms, rules
// WITHOUT functor (the left-side value is constructed from the right-side values: L(r1, ..., rn)), arities up to 9 with
// non-commutative functors, and stacks deeper than 65535 entries.
#include <ctpg/ctpg.hpp>
#include <initializer_list>
#include <iostream>
#include <optional>
#include <sstream>
#include <string>
#include <vector>
using namespace ctpg; using namespace ctpg::buffers; using namespace ctpg::ftors;
static int fails = 0;
#define CHECK(c, what) do { if (!(c)) { ++fails; std::cout << "FAIL " << what << "\n"; } } while (0)

// --- 1. default functors: L(r...) exactly (direct, non-list initialisation)
struct pairish { std::string how; int a = 0, b = 0;
  pairish(int x, int y) : how("two-ints"), a(x), b(y) {}
  pairish(std::initializer_list<int> l) : how("list"), a(int(l.size())) {} };
struct wrap { int v; explicit wrap(int x) : v(x) {} };
constexpr nterm<pairish> PR("pairish"); constexpr nterm<int> NUM("num"); constexpr nterm<wrap> W("wrap"); constexpr nterm<std::vector<int>> ROW("row");
constexpr char num_pat[] = "[0-9]+"; constexpr regex_term<num_pat> number("number");
static int to_int(std::string_view sv) { int r = 0; for (char c : sv) r = r * 10 + (c - '0'); return r; }
// --- 2. heterogeneous types, arities 0..9, non-commutative functors
struct A { std::string s; }; struct B { std::string s; }; struct C9 { std::string s; };
constexpr nterm<A> NA("A"); constexpr nterm<B> NB("B"); constexpr nterm<C9> N9("N9"); constexpr nterm<std::string> TOP("top");
// --- 3. deep stacks
using ul = unsigned long;
constexpr nterm<ul> LIST("list"); constexpr nterm<ul> ITEM("item");

// symbols whose names / ids are in prefix relation ("*" and "**", "e" and "ex"), declared shorter first and longer first: every functor
// runs for exactly the nodes of the derivation in the grammar as written
constexpr string_term op_mul("*"); constexpr string_term op_pow("**"); constexpr string_term op_add("+");
constexpr nterm<int> ex("ex"), e("e"), exx("exx");
static int ipow(int b, int x) { int r = 1; while (x-- > 0) r *= b; return r; }
int main() {
  { int calls_mul = 0, calls_pow = 0, calls_add = 0;
    auto p = parser(ex, terms(op_add, op_mul, op_pow, number), nterms(ex, e, exx), rules(
      ex(ex, op_add, e) >= [&](int a, skip, int b) { ++calls_add; return a + b; }, ex(e),
      e(e, op_mul, exx) >= [&](int a, skip, int b) { ++calls_mul; return a * b; }, e(exx),
      exx(exx, op_pow, number) >= [&](int a, skip, const auto& sv) { ++calls_pow; return ipow(a, to_int(sv)); }, exx(number) >= [](const auto& sv) { return to_int(sv); }));
    struct { const char* in; int want, mul, pow, add; } cs[] = { {"2 * 3", 6, 1, 0, 0}, {"2 ** 3", 8, 0, 1, 0}, {"1 + 2 * 3 * 2", 13, 2, 0, 1}, {"2 ** 3 * 2", 16, 1, 1, 0}, {"2 * 3 ** 2 + 1", 19, 1, 1, 1} };
    for (auto& c : cs) { calls_mul = calls_pow = calls_add = 0; auto r = p.parse(string_buffer(c.in));
      CHECK(r && *r == c.want && calls_mul == c.mul && calls_pow == c.pow && calls_add == c.add, "prefix-related symbol names: '" << c.in << "' gives " << (r ? std::to_string(*r) : "none") << " with " << calls_mul << " '*', " << calls_pow << " '**', " << calls_add << " '+' reductions (expected " << c.want << " with " << c.mul << "/" << c.pow << "/" << c.add << ")"); } }
  { auto p = parser(PR, terms(number), nterms(PR, NUM), rules(PR(NUM, NUM), NUM(number) >= [](const auto& sv) { return to_int(sv); }));
    auto r = p.parse(string_buffer("3 7")); CHECK(r && r->how == "two-ints" && r->a == 3 && r->b == 7, "rule without functor must construct L(r1, r2); got " << (r ? r->how : "none")); }
  { auto p = parser(ROW, terms(number), nterms(ROW, NUM), rules(ROW(NUM, NUM), NUM(number) >= [](const auto& sv) { return to_int(sv); }));
    auto r = p.parse(string_buffer("3 7")); CHECK(r && *r == std::vector<int>(3, 7), "rule without functor for std::vector<int> from (3, 7) must be vector(3, 7) = {7,7,7}"); }
  { auto p = parser(W, terms(number), nterms(W, NUM), rules(W(NUM), NUM(number) >= [](const auto& sv) { return to_int(sv); }));
    auto r = p.parse(string_buffer("42")); CHECK(r && r->v == 42, "rule without functor with an explicit constructor"); }
  { // typed terms + distinct struct per nonterminal + arity 9
    auto p = parser(TOP, terms('a', 'b', ',', ';'), nterms(TOP, NA, NB, N9), rules(
      TOP(N9, ';') >= [](C9 c, skip) { return c.s; },
      N9(NA, NB, NA, NB, NA, NB, NA, NB, NA) >= [](A a1, B b1, A a2, B b2, A a3, B b3, A a4, B b4, A a5) { return C9{a1.s + b1.s + a2.s + b2.s + a3.s + b3.s + a4.s + b4.s + a5.s}; },
      NA('a') >= [](const auto& t) { return A{"a" + std::to_string(t.get_column())}; },
      NA() >= []() { return A{"_"}; },
      NB('b', ',') >= [](const auto& t, skip) { return B{"b" + std::to_string(t.get_column())}; }));
    auto r = p.parse(string_buffer("ab,b,ab,ab,a;")); CHECK(r && *r == "a1b2_b4a6b7a9b10a12", "arity-9 rule: children in right-side order, each exactly once; got " << (r ? *r : "none")); }
  { // right recursion: more than 65535 values on the stack at the first reduction
    auto p = parser(LIST, terms('x', 'y'), nterms(LIST, ITEM), rules(
      LIST(ITEM) >= _e1, LIST(ITEM, LIST) >= [](ul a, ul b) { return a * 3UL + b; }, ITEM('x') >= val(ul(1)), ITEM('y') >= val(ul(2))));
    for (size_t n : {1000u, 65534u, 65536u, 65600u, 70001u}) {
      std::string in; for (size_t i = 0; i < n; ++i) in += (i % 3 ? 'x' : 'y');
      ul got_ref = 0; for (size_t i = n; i-- > 0;) { ul v = (i % 3 ? 1 : 2); got_ref = (i == n - 1) ? v : v * 3UL + got_ref; }   // unsigned arithmetic wraps, same in the functors
      try { auto r = p.parse(string_buffer(std::move(in))); CHECK(r && *r == got_ref, "right-recursive list of " << n << " items: wrong value (children taken from wrong stack slots?)"); }
      catch (const std::exception& e) { ++fails; std::cout << "FAIL right-recursive list of " << n << " items threw " << e.what() << "\n"; }
    } }
  // --- buffer objects with a history: the lexemes handed to term functors are slices of THE PARSED buffer's own text, also after the
  // buffer object was moved or copied and the object it came from was reused or destroyed (short texts live inside the std::string object)
  { constexpr nterm<std::string> WS("words"); static constexpr char wpat[] = "[a-z0-9]+"; constexpr regex_term<wpat> word("word");
    static const parser pw(WS, terms(word, '+'), nterms(WS), rules(
      WS(word) >= [](std::string_view w) { return std::string(w); },
      WS(WS, '+', word) >= [](std::string&& l, skip, std::string_view w) { return std::move(l) + " + " + std::string(w); }));
    auto show = [](const std::optional<std::string>& r) { return r ? *r : std::string("none"); };
    for (std::string text : { std::string("12+34"), std::string("a+b+c"), std::string("averyveryveryverylongword+anotherveryveryverylongword+z") }) {
      std::string want; for (char c : text) { if (c == '+') want += " + "; else want += c; }
      { string_buffer a(text.c_str()); string_buffer b(std::move(a)); a = string_buffer("99+99"); CHECK(show(pw.parse(b)) == want, "moved string_buffer, source reused: got " << show(pw.parse(b)) << " want " << want); }
      { auto* a = new string_buffer(std::string(text)); string_buffer b(*a); delete a; string_buffer junk("zz+zz+zz"); CHECK(show(pw.parse(b)) == want, "copied string_buffer, source destroyed: got " << show(pw.parse(b)) << " want " << want); }
      { string_buffer a(text.c_str()); string_buffer b("0"); b = a; a = string_buffer("7+7"); CHECK(show(pw.parse(b)) == want, "copy-assigned string_buffer: got " << show(pw.parse(b)) << " want " << want); }
      { std::string keep = text; string_view_buffer v1{std::string_view(keep)}; string_view_buffer v2(v1); CHECK(show(pw.parse(v2)) == want, "copied string_view_buffer"); }
      { auto mk = [&] { return string_buffer(std::string(text)); }; string_buffer b = mk(); CHECK(show(pw.parse(b)) == want, "string_buffer returned from a function"); }
    } }
  std::cout << "fails=" << fails << "\n"; return fails ? 1 : 0;
}
