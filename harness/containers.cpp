// Correspondence harness for namespace stdex (cbitset, cvector, cqueue, sort): runs the REAL templates of /repo's header on
// operation sequences read from a case file and prints one observation line per case (see coq/Model/ContainersRun.v).
#include <cstdint>
#include <cstdio>
#include <fstream>
#include <iostream>
#include <sstream>
#include <string>
#include <vector>
#include <variant>
#include <optional>
#include <algorithm>
#include <stdexcept>
#include <utility>
#include <tuple>
#include <string_view>
#include <type_traits>
#include <limits>
#include <iterator>
#include <ostream>
#define private public          // raw words of cbitset are part of the observation (padding bits)
#include <ctpg/ctpg.hpp>
#undef private

using namespace ctpg::stdex;

static std::vector<std::string> toks(const std::string& l) { std::istringstream is(l); std::vector<std::string> v; std::string t; while (is >> t) v.push_back(t); return v; }

template<size_t N> std::string run_bitset(const std::vector<std::string>& ops)
{
    cbitset<N> b; std::string flags;
    for (auto& o : ops)
    {
        bool thrown = false;
        try {
            char k = o[0];
            if (k == 'F') b.flip(); else if (k == 'S') b.set(); else if (k == 'R') b.reset();
            else {
                size_t i = std::stoull(o.substr(1));
                if (k == 's') b.set(i);
                else if (k == 'v') { bool v = o.back() == '1'; b.set(i, v); }
                else if (k == 'r') b.reset(i);
                else if (k == 'f') b.flip(i);
                else if (k == 'a') { cbitset<N> other; other.set(i); b.add(other); }
            }
        } catch (const std::exception&) { thrown = true; }
        flags += thrown ? '1' : '0';
    }
    std::ostringstream os; os << flags << " | ";
    for (size_t w = 0; w < cbitset<N>::underlying_count; ++w) os << (w ? "," : "") << b.data[w];
    os << " | ";
    cbitset<N> rebuilt;
    for (size_t i = 0; i < N; ++i) { bool t = b.test(i); os << (t ? '1' : '0'); if (t) rebuilt.set(i); }
    bool threw_oob = false; try { b.test(N); } catch (const std::exception&) { threw_oob = true; }
    os << " | " << ((b == rebuilt) ? 1 : 0) << " | " << (threw_oob ? 1 : 0) << " | " << b.size();
    return os.str();
}

template<size_t N> std::string run_vector(const std::vector<std::string>& ops)
{
    cvector<std::uint32_t, N> v; std::string flags;
    for (auto& o : ops)
    {
        bool thrown = false;
        try {
            char k = o[0];
            if (k == 'p') v.push_back(std::uint32_t(std::stoul(o.substr(1))));
            else if (k == 'm') v.emplace_back(std::uint32_t(std::stoul(o.substr(1))));
            else if (k == 'o') { if (!v.empty()) v.pop_back(); }
            else if (k == 'c') v.clear();
            else if (k == 'l') { size_t n = std::stoull(o.substr(1)); if (n <= v.size()) v.erase(v.end() - n, v.end()); else v.erase(v.begin(), v.end()); }
            else if (k == 'e') { size_t c = o.find(':'); size_t f = std::stoull(o.substr(1, c - 1)), l = std::stoull(o.substr(c + 1));
                                 if (f <= v.size() && l <= N) v.erase(v.begin() + f, v.begin() + l); }
        } catch (const std::exception&) { thrown = true; }
        flags += thrown ? '1' : '0';
    }
    std::ostringstream os; os << flags << " | " << v.size() << " |";
    for (size_t i = 0; i < v.size(); ++i) os << (i ? "," : " ") << v[i];
    // the read accessors on the final state
    os << " | ";
    if (!v.empty()) os << v.front() << "," << v.back() << "," << *v.begin() << "," << *(v.end() - 1) << "," << (v.end() - v.begin()); else os << "-";
    return os.str();
}

template<size_t N> std::string run_queue(const std::vector<std::string>& ops)
{
    cqueue<std::uint32_t, N> q; std::ostringstream os;
    bool first = true;
    for (auto& o : ops)
    {
        bool thrown = false;
        try { if (o[0] == 'p') q.push(std::uint32_t(std::stoul(o.substr(1)))); else q.pop(); } catch (const std::exception&) { thrown = true; }
        os << (first ? "" : ";") << (thrown ? 1 : 0) << "," << q.size() << ","; first = false;
        try { os << q.top(); } catch (const std::exception&) { os << "-"; }
    }
    os << " |";
    bool f2 = true;
    while (!q.empty()) { os << (f2 ? " " : ",") << q.top(); q.pop(); f2 = false; }
    return os.str();
}

static std::string run_sort(const std::vector<std::string>& keys)
{
    std::vector<std::pair<unsigned, unsigned>> v;
    for (size_t i = 0; i < keys.size(); ++i) v.push_back({ unsigned(std::stoul(keys[i])), unsigned(i) });
    if (v.empty()) return "-";
    sort(v, [](const auto& a, const auto& b) { return a.first < b.first; });
    std::ostringstream os; for (size_t i = 0; i < v.size(); ++i) os << (i ? "," : "") << v[i].second;
    return os.str();
}

#define BCASE(n) case n: return run_bitset<n>(ops);
#define VCASE(n) case n: return run_vector<n>(ops);
#define QCASE(n) case n: return run_queue<n>(ops);
static std::string bitset_n(size_t n, const std::vector<std::string>& ops) { switch (n) { BCASE(1) BCASE(3) BCASE(63) BCASE(64) BCASE(65) BCASE(127) BCASE(128) BCASE(129) BCASE(200) BCASE(256) } return "?"; }
static std::string vector_n(size_t n, const std::vector<std::string>& ops) { switch (n) { VCASE(1) VCASE(2) VCASE(3) VCASE(5) VCASE(8) } return "?"; }
static std::string queue_n(size_t n, const std::vector<std::string>& ops) { switch (n) { QCASE(1) QCASE(2) QCASE(3) QCASE(5) QCASE(8) } return "?"; }

int main(int argc, char** argv)
{
    std::ifstream in(argv[1]); std::string line; size_t k = 0;
    while (std::getline(in, line))
    {
        auto t = toks(line); if (t.empty()) continue;
        std::string kind = t[0]; std::string out;
        try {
            if (kind == "S") out = run_sort(std::vector<std::string>(t.begin() + 1, t.end()));
            else { size_t n = std::stoull(t[1]); std::vector<std::string> ops(t.begin() + 2, t.end());
                   out = kind == "B" ? bitset_n(n, ops) : kind == "V" ? vector_n(n, ops) : queue_n(n, ops); }
        } catch (const std::exception& e) { out = std::string("EXC ") + e.what(); }
        std::cout << k++ << " " << kind << " " << out << "\n";
    }
    return 0;
}
